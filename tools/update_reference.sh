#!/bin/bash
# Refresh /verif/reference (the naming reference used by sa/rename.py) from /repo's committed HEAD.
set -e
cd "$(dirname "$0")/.."
rm -rf reference && mkdir -p reference
git -C /repo archive HEAD enspara | tar -x -C reference --wildcards '*.py' '*.pyx' --exclude='enspara/test' --exclude='enspara/data'
git -C /repo rev-parse HEAD > reference/COMMIT
find reference -name '*.py' -o -name '*.pyx' | wc -l

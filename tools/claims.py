"""Per-property claim texts for MANIFEST.json (see gen_manifest.py)."""

_TB = ('Trusted: CPython ast, Cython\'s parser, the frozen numpy/scipy '
       'view/copy transfer tables and idiom lists in sa/. ')

CLAIMS = {
    'C02': dict(
        technique='ast CFG + reaching definitions, comparison normaliser (De Morgan), must-def dataflow, nullness dataflow with branch pruning over the four None/not-None cases',
        text='Decides the structural necessary conditions of the k-centers contract on every path: next centre = argmax of the running-minimum array (serial and all-gathered MPI form), cold start at +inf, loop guard exactly (count < n) and (radius > cutoff) both strict with the radius refreshed from the same trip, no possibly-unbound read after a zero-trip loop, both criteria non-None at the guard for each None/not-None combination, triangle-inequality shortcut with factor <= 1/2, candidate seeded by a copy and committed through the strict running-minimum mask.',
        note='Not decided: covering radius monotonicity / 2-approximation / numeric equality of shortcut and plain variants (textbook consequences of the decided clauses, not re-proved). ' + _TB,
        ref='DESIGN.md 5 C02'),
    'C09': dict(
        technique='ast def-use provenance of the accept comparison, branch-confinement of state writes, call-chain keyword threading, must-def dataflow',
        text='Decides that the PAM commit branch is guarded by cost(candidate) < cost(current) from one callable with checked operand provenance, that the four state variables are written only and all in that branch from the candidate values, that candidates live in fresh storage, that proposals come from where(assignments == cid) over X, that k-hybrid hands the k-centers fields over unchanged, that random_state/proposals are forwarded through every call level with no module-level RNG, and definite assignment of the result.',
        note='Not decided: the cost values themselves; reproducibility of third-party RNGs. Known finding F18 (n_iters=0) is reported as KNOWN-FINDING. ' + _TB,
        ref='DESIGN.md 5 C09'),
    'C10': dict(
        technique='ast structural rules: paired-store commit, argument-role check of metric calls, sibling-branch agreement, boundary comparison normalisation, index-space (subset vs global) mapping check, alias/effects',
        text='Decides that both branches of assign_to_nearest_center commit label and distance together and call the metric as metric(many, one) with the loop element as the single item; predict reuses fitted centres and metric; the rectangular and ragged branches of partition build identical fields from identical sources; partition_indices uses the strict boundary test with paired index/trajectory updates; find_cluster_centers maps a subset-relative argmin back through the same member array; partition_list uses checked running offsets; no argument is mutated.',
        note='Not decided: minimality of the reported distance as a number; value preservation by numpy slicing (trusted). ' + _TB,
        ref='DESIGN.md 5 C10'),
    'C13': dict(
        technique="Cython-parser tree of libdist.pyx: bounds-obligation discharge by union-find over harvested equalities, prange ownership, dominance of validation over kernel calls, same-buffer return rule, formula-shape match",
        text='On Cython\'s own parse tree of the three boundscheck(False) kernels: every typed-buffer subscript is proved in range per dimension (loop ranges vs extents via equalities from cdef initialisers and asserts); each prange iteration writes only out[i] and reads no cell another iteration writes; out[i] is stored before accumulation; the five validation guards end in raise and dominate every kernel call; wrappers return the very validated buffer; accumulated terms have the metric\'s shape with no element-typed temporary; metric names map to the right kernels.',
        note='Not decided: floating-point exactness, extreme integer ranges, behaviour per memory layout (delegated to Cython typed-buffer indexing; no raw pointers: checked). Python asserts in kernels are assumed enabled (Cython default). ' + _TB,
        ref='DESIGN.md 5 C13'),
    'C18': dict(
        technique='Cython-parser kernel obligations (two-sided guards on data-dependent indices, prange ownership), axis-role rule for marginals, meshgrid orientation lint, masked-ufunc initialisation dataflow, argument-order/role checks',
        text='Decides two-sided range guards for both data-dependent indices of the unchecked counting kernel, accumulator shape/zeroing and prange ownership; that the marginal summed over the last axis is indexed by the first state index (and vice versa) in mutual_information; that the channel-capacity grid has axes (n_x, n_y) and uses the smaller state count; that every masked ufunc has an initialised out=; that joint_counts passes (X, Y, n_x, n_y), casts the narrower dtype up, and pooled counts accumulate into fresh storage; no argument mutation.',
        note='Not decided: the information-theoretic identities (non-negativity, symmetry, bounds) as numbers. bincount2d (unused, outside the observed API) is reported as OBSERVATION only. ' + _TB,
        ref='DESIGN.md 5 C18'),
    'C19': dict(
        technique='package-wide initialisation dataflow (masked ufunc out=, np.empty full-write dominance), kernel zero-before-accumulate and prange ownership, interprocedural may-alias/effects fixed point over the call graph, module-state scan',
        text='For the whole package on every run: every where= ufunc has an out= buffer initialised on all reaching definitions; every np.empty buffer is fully written before any read on every path; kernels store before accumulating and prange iterations own disjoint cells; no public routine of the anchored modules (plus clustering/MSM entry points) can store into storage reachable from an argument unless documented in place (alias/effects summaries to a fixed point); no anchored routine writes module state. These are all-paths facts, hence hold for every call history, heap state and thread count.',
        note='Not decided: uninitialised reads/mutation inside third-party calls (trusted to documented contracts), BLAS bit-reproducibility, routines random by contract. Known finding F19 (reassign re-centres caller trajectories) is reported as KNOWN-FINDING. ' + _TB,
        ref='DESIGN.md 5 C19'),
    'C03': dict(
        technique='ast slice-algebra rule (frozen lemma for a[:-L:s] / a[L::s]), def-use provenance of the COO coordinates, dominance of the lag guard',
        text='Decides that both branches of the pair builder instantiate the lag-shift slice lemma (same array, L = lag_time, step 1 resp. lag_time), that lag_time < 1 raises before any pair is formed, that from-states are row 0 / to-states row 1 of coordinates handed unsliced to a square coo_matrix, that pairs are built per -1-filtered trajectory row and never thinned after concatenation, unit weights, and that the inferred state count comes from all assigned frames.',
        note='Not decided: additivity / permutation invariance / ragged-vs-padded equality as values (consequences, not re-derived); duplicate summation is trusted to scipy COO. ' + _TB,
        ref='DESIGN.md 5 C03'),
    'C04': dict(
        technique='ast def-use (prior counts first), alias/effects incl. scipy views, sibling-branch agreement dense/sparse row scaling, mask-pairing rule, container lints, spectrum ordering rule',
        text='Decides that every builder adds prior counts first and later uses see that definition, that no store reaches the caller\'s matrix, that rows (not columns) are scaled by reciprocal row sums in both the dense and the sparse branch with the reciprocal taken only under weights > 0 into a zeroed vector, that transpose derives populations from the very matrix it normalises, that sparse input is densified to ndarray and outputs re-wrapped, and that the stationary vector is the sum-normalised leading left eigenvector under a descending-real-part order applied to values and columns alike.',
        note='Not decided: stochasticity, stationarity and detailed balance as numerical identities; equality of numbers across container types. ' + _TB,
        ref='DESIGN.md 5 C04'),
    'C11': dict(
        technique='ast API-contract lint (connection="strong"), def-use provenance of component weights, orientation agreement table for TrimMapping producers/consumers/writer/reader, paired-store rule for the in-place variant, alias/effects',
        text='Decides strong (directed) connectivity on a thresholded copy, component weight from ROW sums of the original counts selected by argmax, kept states from np.where (order preserving) used on both axes, (original, trimmed) orientation agreed by every producer, the CSV writer/reader and __init__, rows AND columns zeroed in the in-place variant, (mapping, counts) return order at every unpacking site, container type restored, and the caller\'s matrix untouched.',
        note='Not decided: that scipy\'s connected_components returns the strongly connected components (trusted); equality of dense/sparse numbers. ' + _TB,
        ref='DESIGN.md 5 C11'),
    'C12': dict(
        technique='statement-by-statement sibling agreement of the ast (py) and Cython-parser (pyx) trees after canonicalisation; sympy expansion against the reference Prinz equations; float-equality-assert and warnings.warn lints; satisfiability of the cap test under range semantics',
        text='Decides that no result-path assertion tests exact floating equality, that the non-convergence warning is well formed and its cap test satisfiable after loop exhaustion, that the Python and Cython estimators agree statement by statement, that the diagonal update, a, b, c, the root and both row-sum updates equal the reference Prinz equations (sympy-canonicalised), that log terms are guarded by the positivity of their own argument, that the loop is bounded and the result is X/rowsum(X), rowsum/total.',
        note='Not decided: optimality against every reversible competitor; the `assert c <= 0` rounding question; numerical agreement of the two implementations. sympy is used only to expand/cancel closed forms. ' + _TB,
        ref='DESIGN.md 5 C12'),
    'C16': dict(
        technique='ast store/forward agreement for constructor parameters, CFG order of the fit pipeline, writer/reader agreement table, spectrum ordering rule, formula-shape match for timescales, left-multiplication rule',
        text='Decides that each constructor parameter is stored unmodified and forwarded by fit to the parameter of the same meaning, that fit runs counts -> optional trim -> builder on one data flow and stores (C, T, pi) in order, that save and load agree on keys, writer/reader pairs, mapping orientation, >= 17 digits for probabilities and a config covering every constructor parameter, the spectrum rules (descending real part, one permutation, column-0 normalisation, which="LR"), timescales -lag/log(lambda[1:]) with one extra eigenvalue, and rmatvec propagation n_steps-1 times from a copy.',
        note='Not decided: numerical equality of estimator and function pipeline; precision actually surviving Matrix-Market text beyond the digit count. ' + _TB,
        ref='DESIGN.md 5 C16'),
    'C07': dict(
        technique='ast store-sequence rule for the absorbing masking, dominance of boundary pins over the solve, top-level-factor rule for lag time, sympy-lifted all-pairs formula, identity-test dispatch lint, alias/effects',
        text='Decides that _I_m_Q builds I - T fresh and zeroes absorbing columns and rows then sets the absorbing diagonal to one (diagonal last), that the committor right-hand side is pinned before the solve, per-sink columns are summed and sinks pinned to one after the sum, that the MFPT right-hand side is ones with zeros on the sinks set before the solve, that lagtime is a top-level factor once per mode, that the all-pairs table is lag*(diag(Z) - Z)/W with W rows = populations and Z = inv(I - T + W), that the mode is selected by `sinks is None`, that sparse input never reaches len(), and that no argument is modified.',
        note='Not decided: the first-step equations as numerical identities, range [0, 1], agreement of all-pairs and single-sink values. ' + _TB,
        ref='DESIGN.md 5 C07'),
    'C08': dict(
        technique='factor-role analysis of the flux product (row factors carry the trailing new axis) in dense and sparse branch, store-order rule for the diagonal reset, alias/effects including augmented assignment through returned aliases',
        text='Decides that both branches scale row i by pi[i]*q-[i] and column j by q+[j], that the diagonal is zeroed after the product and before the return, that net flux is f - f^T of the same f with the negative part removed, that q- = 1 - q+ from one committor call with the arguments in order, that reactive populations are pi*q+*q- normalised by their own sum, that no store or in-place operator reaches tprob or the caller\'s populations (also through the helper\'s returned alias), plus the committor boundary pins.',
        note='Not decided: conservation of net flux, zero inflow to sources, equality of total in/out flow (global numerical identities). ' + _TB,
        ref='DESIGN.md 5 C08'),
    'C17': dict(
        technique='ast structural rules on the widest-path search (frontier pop, strict-positive neighbour test, clip, strict-improvement update set, paired stores), write-through rule for the subtraction scheme, loop-order rule, alias/effects',
        text='Decides that the caller\'s flux matrix is never written, that the frontier pop is argmax over min_fluxes[queue], neighbours are the strictly positive row entries, the relaxation is min(edge, upstream), updates are strict improvements written together to bottleneck and predecessor, the reported flux is the bottleneck at the argmax sink, the subtract scheme writes through to the working copy on the consecutive path edges and zeroes the bottleneck, names map to schemes, and paths() records, tests (>= on both limits, or), then replaces the working copy.',
        note='Not decided: optimality of the widest path over all paths, monotone path fluxes, total <= outflow as numbers. ' + _TB,
        ref='DESIGN.md 5 C17'),
    'C05': dict(
        technique='dominance of the row-bounds test over the flat-index computation, call-site argument rule, one-sided-comparison rule for slice bounds, nullness dataflow with branch pruning (dead-branch detection), sibling decision-tree agreement, index-space (row id vs position) rule',
        text='Decides that an index at or beyond a row length raises before the flat index is formed whenever lengths are known (and that every flat-data access in __getitem__/__setitem__ goes through that check with error_check at its default), that negative indices are re-tested after adding the length, that every slice-expansion helper treats None and negative values of both bounds and handles or rejects negative steps (three genuine defects are reported as known findings), that reader and writer convert each index form with the same helper and arguments, that row-indexed arrays are subscripted with row ids of the selection, and that the flat->2-D conversion uses the last start <= index.',
        note='Not decided: equality with the list-of-rows model for every index expression, dtype of returned rows, iteration order. ' + _TB,
        ref='DESIGN.md 5 C05'),
    'C06': dict(
        technique='typestate dataflow over the class (states DATA/ARRAY/LENGTHS-AHEAD, rebuild events, CLEAN-at-exit obligation on every path), alias/effects for operator purity, copy-flag def-use in the constructor',
        text='Decides by a may-dataflow over every path of every method that each writer (computed set: __init__, __setitem__, append) leaves flat data, row view and lengths re-synchronised at every exit and never rebuilds one representation from the other while the other is ahead; that no operator/reduction/property contains a write event or a store aliasing self/other and that they re-wrap fresh flat data with the same lengths under their own operator name; that with copy=True every definition of the flat data is copy-making with the flag flowing unmodified and lengths are always a fresh array.',
        note='Not decided: agreement with the list-of-rows model over operation histories as values (the rows-of-object vs reshaped-view representation depends on run-time lengths). ' + _TB,
        ref='DESIGN.md 5 C06'),
    'C14': dict(
        technique='SPMD uniformity taint (frozen rank-local parameter table) + collective matching over the resolved call graph, root/owner agreement rules, striping-site enumeration, attribute-existence check against the serial fallback classes, nullness dataflow, reduction provenance rule',
        text='The MPI code cannot run here; the check decides from source that no collective (direct or through package functions) sits under a rank-divergent condition without a matched sibling, no divergent early return precedes a collective, loops with collectives have uniform trip counts, the buffer-filling rank is the broadcast root, reassembly roots equal stripe offsets, all striping sites use x[r::size], (owner, index) pairs keep their orientation, every mpi.comm/mpi.mpi4py attribute reachable with one rank exists on the fallback, global reductions come from collectives over the matching local quantity, striped loaders return strided lengths, and the MPI k-centers commit/selection rules. Two genuine defects are reported as known findings (F14, F20).',
        note='Not decided: equality with the serial run for every world size and tie behaviour (cannot be executed). Assumes the SPMD calling convention (same kind of arguments on every rank). ' + _TB,
        ref='DESIGN.md 5 C14'),
    'C15': dict(
        technique='ast rules: padding-width expression, ceil-division form recognition wherever a stride reaches data, same-definition (def-use) rule for keys and lengths, running-offset idiom with dominance of the total check, ordered-map lint',
        text='Decides that row keys are padded to at least the digit count of the row count, that every loader whose data is strided returns ceil(n/stride) lengths, that ra.load fills a zeroed buffer with running offsets over the same (never reordered) key sequence that produced the lengths, that load_as_concatenated sizes the buffer, positions the files (exclusive prefix sums) and returns lengths from one definition, workers write only their own window, results are gathered in submission order, the total is checked before returning, and that dtypes are taken from / checked against the stored data.',
        note='Not decided: bit-identity of values, PyTables node ordering, worker scheduling at run time. ' + _TB,
        ref='DESIGN.md 5 C15'),
    'C20': dict(
        technique='ast branch-confinement of the carried-state write, argument provenance of the exit test, frozen idiom list for the wrap-around swap, slice-lemma and bincount(minlength) lints',
        text='Decides that the carried state is reassigned only inside the buffered-exit branch whose test sees the carried state and THIS frame\'s angle, that re-binning uses the same angle and boundaries, that every frame records the state after the possible update, that frame 0 is binned by the hard boundaries; that the gates are the boundaries of the current basin with the seam swap applied to exactly the seam basins (value test or equivalent first/last-index test), widened outwards, returned and unpacked as (lower, upper), with the exit test inverted for the wrap-around basin; and that transitions pair frame n with n+1 along the frame axis with one length entry per trajectory.',
        note='Not decided: the gate ARITHMETIC along each path (linear inequalities in the buffer width; needs a solver, a different technique family), e.g. that a 2-basin buffer >= 90 flips the wrap-around test. ' + _TB,
        ref='DESIGN.md 5 C20'),
}

"""Per-property claim texts for MANIFEST.json (see gen_manifest.py)."""

_TB = ('Trusted: CPython ast, Cython\'s parser, the frozen numpy/scipy '
       'view/copy transfer tables and idiom lists in sa/. ')

CLAIMS = {
    'C02': dict(
        technique='ast CFG + reaching definitions, comparison normaliser (De Morgan), must-def dataflow, nullness dataflow with branch pruning over the four None/not-None cases',
        text='Decides the structural necessary conditions of the k-centers contract on every path: next centre = argmax of the running-minimum array (serial and all-gathered MPI form), cold start at +inf, loop guard exactly (count < n) and (radius > cutoff) both strict with the radius refreshed from the same trip, no possibly-unbound read after a zero-trip loop, both criteria non-None at the guard for each None/not-None combination, triangle-inequality shortcut with factor <= 1/2, candidate seeded by a copy and committed through the strict running-minimum mask.',
        note='Not decided: covering radius monotonicity / 2-approximation / numeric equality of shortcut and plain variants (textbook consequences of the decided clauses, not re-proved). ' + _TB,
        ref='DESIGN.md 5 C02'),
    'C09': dict(
        technique='ast def-use provenance of the accept comparison, branch-confinement of state writes, call-chain keyword threading, must-def dataflow',
        text='Decides that the PAM commit branch is guarded by cost(candidate) < cost(current) from one callable with checked operand provenance, that the four state variables are written only and all in that branch from the candidate values, that candidates live in fresh storage, that proposals come from where(assignments == cid) over X, that k-hybrid hands the k-centers fields over unchanged, that random_state/proposals are forwarded through every call level with no module-level RNG, and definite assignment of the result.',
        note='Not decided: the cost values themselves; reproducibility of third-party RNGs. Known finding F18 (n_iters=0) is reported as KNOWN-FINDING. ' + _TB,
        ref='DESIGN.md 5 C09'),
    'C10': dict(
        technique='ast structural rules: paired-store commit, argument-role check of metric calls, sibling-branch agreement, boundary comparison normalisation, index-space (subset vs global) mapping check, alias/effects',
        text='Decides that both branches of assign_to_nearest_center commit label and distance together and call the metric as metric(many, one) with the loop element as the single item; predict reuses fitted centres and metric; the rectangular and ragged branches of partition build identical fields from identical sources; partition_indices uses the strict boundary test with paired index/trajectory updates; find_cluster_centers maps a subset-relative argmin back through the same member array; partition_list uses checked running offsets; no argument is mutated.',
        note='Not decided: minimality of the reported distance as a number; value preservation by numpy slicing (trusted). ' + _TB,
        ref='DESIGN.md 5 C10'),
    'C13': dict(
        technique="Cython-parser tree of libdist.pyx: bounds-obligation discharge by union-find over harvested equalities, prange ownership, dominance of validation over kernel calls, same-buffer return rule, formula-shape match",
        text='On Cython\'s own parse tree of the three boundscheck(False) kernels: every typed-buffer subscript is proved in range per dimension (loop ranges vs extents via equalities from cdef initialisers and asserts); each prange iteration writes only out[i] and reads no cell another iteration writes; out[i] is stored before accumulation; the five validation guards end in raise and dominate every kernel call; wrappers return the very validated buffer; accumulated terms have the metric\'s shape with no element-typed temporary; metric names map to the right kernels.',
        note='Not decided: floating-point exactness, extreme integer ranges, behaviour per memory layout (delegated to Cython typed-buffer indexing; no raw pointers: checked). Python asserts in kernels are assumed enabled (Cython default). ' + _TB,
        ref='DESIGN.md 5 C13'),
    'C18': dict(
        technique='Cython-parser kernel obligations (two-sided guards on data-dependent indices, prange ownership), axis-role rule for marginals, meshgrid orientation lint, masked-ufunc initialisation dataflow, argument-order/role checks',
        text='Decides two-sided range guards for both data-dependent indices of the unchecked counting kernel, accumulator shape/zeroing and prange ownership; that the marginal summed over the last axis is indexed by the first state index (and vice versa) in mutual_information; that the channel-capacity grid has axes (n_x, n_y) and uses the smaller state count; that every masked ufunc has an initialised out=; that joint_counts passes (X, Y, n_x, n_y), casts the narrower dtype up, and pooled counts accumulate into fresh storage; no argument mutation.',
        note='Not decided: the information-theoretic identities (non-negativity, symmetry, bounds) as numbers. bincount2d (unused, outside the observed API) is reported as OBSERVATION only. ' + _TB,
        ref='DESIGN.md 5 C18'),
    'C19': dict(
        technique='package-wide initialisation dataflow (masked ufunc out=, np.empty full-write dominance), kernel zero-before-accumulate and prange ownership, interprocedural may-alias/effects fixed point over the call graph, module-state scan',
        text='For the whole package on every run: every where= ufunc has an out= buffer initialised on all reaching definitions; every np.empty buffer is fully written before any read on every path; kernels store before accumulating and prange iterations own disjoint cells; no public routine of the anchored modules (plus clustering/MSM entry points) can store into storage reachable from an argument unless documented in place (alias/effects summaries to a fixed point); no anchored routine writes module state. These are all-paths facts, hence hold for every call history, heap state and thread count.',
        note='Not decided: uninitialised reads/mutation inside third-party calls (trusted to documented contracts), BLAS bit-reproducibility, routines random by contract. Known finding F19 (reassign re-centres caller trajectories) is reported as KNOWN-FINDING. ' + _TB,
        ref='DESIGN.md 5 C19'),
}

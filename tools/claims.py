"""Per-property claim texts for MANIFEST.json (see gen_manifest.py)."""

_TB = ('Trusted: CPython ast, Cython\'s parser, the frozen numpy/scipy '
       'view/copy transfer tables and idiom lists in sa/. ')

CLAIMS = {
    'C02': dict(
        technique='ast CFG + reaching definitions, comparison normaliser (De Morgan), must-def dataflow, nullness dataflow with branch pruning over the four None/not-None cases',
        text='Decides the structural necessary conditions of the k-centers contract on every path: next centre = argmax of the running-minimum array (serial and all-gathered MPI form), cold start at +inf, loop guard exactly (count < n) and (radius > cutoff) both strict with the radius refreshed from the same trip, no possibly-unbound read after a zero-trip loop, both criteria non-None at the guard for each None/not-None combination, triangle-inequality shortcut with factor <= 1/2, candidate seeded by a copy and committed through the strict running-minimum mask.',
        note='Not decided: covering radius monotonicity / 2-approximation / numeric equality of shortcut and plain variants (textbook consequences of the decided clauses, not re-proved). ' + _TB,
        ref='DESIGN.md 5 C02'),
    'C09': dict(
        technique='ast def-use provenance of the accept comparison, branch-confinement of state writes, call-chain keyword threading, must-def dataflow',
        text='Decides that the PAM commit branch is guarded by cost(candidate) < cost(current) from one callable with checked operand provenance, that the four state variables are written only and all in that branch from the candidate values, that candidates live in fresh storage, that proposals come from where(assignments == cid) over X, that k-hybrid hands the k-centers fields over unchanged, that random_state/proposals are forwarded through every call level with no module-level RNG, and definite assignment of the result.',
        note='Not decided: the cost values themselves; reproducibility of third-party RNGs. Known finding F18 (n_iters=0) is reported as KNOWN-FINDING. ' + _TB,
        ref='DESIGN.md 5 C09'),
    'C10': dict(
        technique='ast structural rules: paired-store commit, argument-role check of metric calls, sibling-branch agreement, boundary comparison normalisation, index-space (subset vs global) mapping check, alias/effects',
        text='Decides that both branches of assign_to_nearest_center commit label and distance together and call the metric as metric(many, one) with the loop element as the single item; predict reuses fitted centres and metric; the rectangular and ragged branches of partition build identical fields from identical sources; partition_indices uses the strict boundary test with paired index/trajectory updates; find_cluster_centers maps a subset-relative argmin back through the same member array; partition_list uses checked running offsets; no argument is mutated.',
        note='Not decided: minimality of the reported distance as a number; value preservation by numpy slicing (trusted). ' + _TB,
        ref='DESIGN.md 5 C10'),
}

#!/venv/bin/python
"""Regression of ONE property's check over every seeded change.

usage: tools/prop_regress.py <PID> [seed-dir-glob ...]     (default: seeded/C*)

For each seeded change the patch is applied to a scratch copy of /repo's
working tree (under /tmp, removed afterwards) and `./check <PID>` is run on it.
Expectations:
  * clean tree                              -> HOLDS (exit 0)
  * mutants written against <PID> (<PID>a/b/A/B...) -> VIOLATION (exit 1)
  * every twin (name ends in R<digit>)      -> HOLDS (exit 0), whatever property it was written for
  * mutants written against other properties: informational only
Prints one line per seed and a summary; exit status 0 iff all expectations met.
Nothing is written to seeded/MATRIX.* (use tools/seed_matrix.py for that)."""
import concurrent.futures as cf
import glob
import os
import re
import shutil
import subprocess
import sys
import tempfile

sys.path.insert(0, os.path.dirname(os.path.dirname(os.path.abspath(__file__))))

HERE = os.path.dirname(os.path.dirname(os.path.abspath(__file__)))


def run(pid, d):
    from sa import seedlib
    name = os.path.basename(d.rstrip('/')) if d else 'CLEAN'
    if not d:
        sc = tempfile.mkdtemp(prefix='pr-', dir='/tmp')
        try:
            seedlib._rsync_current(sc)
            keys, inc = seedlib.run_checks(sc, [pid])[pid]
            verdict = 'VIOLATION' if keys else ('incomplete' if inc else 'holds')
            return name, verdict, sorted({k.split('|')[0] for k in keys})
        finally:
            shutil.rmtree(sc, ignore_errors=True)
    r = seedlib.evaluate(d, [pid])
    if 'error' in r:
        return name, 'patch-failed', [r['error']]
    return name, r[pid]['verdict'], r[pid]['rules'] + ([] if r[pid]['base'] == 'current' else ['[on base %s]' % r[pid]['base']])


def main():
    pid = sys.argv[1]
    pats = sys.argv[2:] or [os.path.join(HERE, 'seeded', 'C*')]
    dirs = []
    for p in pats:
        dirs += sorted(glob.glob(p))
    dirs = [d for d in dirs if os.path.exists(os.path.join(d, 'patch.diff'))]
    with cf.ThreadPoolExecutor(max_workers=int(os.environ.get('JOBS', '8'))) as ex:
        res = list(ex.map(lambda d: run(pid, d), [None] + dirs))
    failed = 0
    for name, verdict, rules in res:
        twin = re.search(r'R\d+$', name) is not None
        own = name.startswith(pid)
        if name == 'CLEAN' or twin:
            exp = 'holds'
        elif own:
            exp = 'VIOLATION'
        else:
            exp = None
        status = 'ok  ' if exp is None or exp == verdict else 'FAIL'
        if exp is None and verdict == 'holds':
            continue
        if status == 'FAIL':
            failed += 1
        print('%s %-8s %-10s expected=%-9s %s' % (status, name, verdict, exp or '-', ', '.join(rules)[:300]))
    print('%s: %d seeds, %d expectation failures' % (pid, len(dirs), failed))
    sys.exit(1 if failed else 0)


if __name__ == '__main__':
    main()

#!/bin/bash
# try_patch.sh <patch.diff> <PID> [PID...] : run checks on a scratch copy of /repo with the patch applied.
# (scratch copy under /tmp, removed afterwards; /repo itself is untouched)
patch=$(readlink -f "$1"); shift
sc=$(mktemp -d /tmp/sc-XXXXXX)
rsync -a --exclude=test --exclude=data --exclude=__pycache__ --include="*/" --include="*.py" --include="*.pyx" --exclude="*" /repo/enspara $sc/
cd $sc && patch -p1 -s < "$patch" || { echo "PATCH-FAILED"; rm -rf $sc; exit 3; }
cd /verif
rc=0
for pid in "$@"; do
  ENSPARA_REPO=$sc VERIF_EVIDENCE_DIR=$sc/evidence ./check $pid --tier ${TIER:-quick} 2>&1 | grep -v '^$' | sed "s|$sc/||g"; r=${PIPESTATUS[0]}
  echo "[$pid exit=$r]"
done
rm -rf $sc

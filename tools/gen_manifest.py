#!/venv/bin/python
"""Regenerate /verif/MANIFEST.json from the table below (kept valid at all
times; properties without a rule module are listed under not_applicable)."""
import json
import os
import sys

HERE = os.path.dirname(os.path.dirname(os.path.abspath(__file__)))
sys.path.insert(0, HERE)

CLAIMS = {
    'C01': dict(
        technique='ast def-use/CFG lock-step + paired-store rules, truth-table exhaustiveness of mask family, whole-package alias/effects fixed point',
        text='Decides on every run, from the current source, the structural necessary conditions of self-consistent clustering results: centre coordinates and index come from one definition; the running-minimum commit stores distance and label under one strict mask with the label taken before the append; the three PAM masks are exhaustive (truth table over their atoms) and write paired sources; ClusterResult roles agree at all construction/unpacking sites; no store reaches a caller-owned argument (interprocedural may-alias). Holds for every input because these are facts about all paths of the code, not sampled runs.',
        note='Not decided: that reported distances equal the metric distance and that no other centre is strictly closer (numerical). Trusted: CPython ast, frozen numpy view/copy transfer table in sa/effects.py.',
        ref='DESIGN.md 5 C01'),
}

REASONS_PENDING = 'static rule module for this property is not built yet in this revision (see DESIGN.md section 5 for the planned clauses)'

TITLES = {}
with open(os.path.join(HERE, 'properties.jsonl')) as f:
    for line in f:
        p = json.loads(line)
        TITLES[p['id']] = p['title']


def main():
    try:
        from tools.claims import CLAIMS as C2
        CLAIMS.update(C2)
    except ImportError:
        pass
    checks = []
    na = []
    for pid in sorted(TITLES):
        rule_file = os.path.join(HERE, 'sa', 'rules', pid + '.py')
        if pid in CLAIMS and os.path.exists(rule_file):
            c = CLAIMS[pid]
            checks.append({
                'property_id': pid,
                'quick_cmd': './check %s --tier quick' % pid,
                'thorough_cmd': './check %s --tier thorough' % pid,
                'evidence_file': 'evidence/%s.json' % pid,
                'replay_cmd_template': './check replay {path}',
                'engine': 'sa',
                'level_claimed': {'category': 'other', 'text': c['text'],
                                  'design_ref': c.get('ref', 'DESIGN.md 5')},
                'level_note': c['note'],
                'technique': c['technique'],
            })
        else:
            na.append({'property_id': pid, 'reason': REASONS_PENDING})
    m = {
        'version': 1,
        'setup_cmd': '/venv/bin/pip install -q --no-index --find-links /opt/veriftools/wheels --target /verif/.deps sympy mpmath || true',
        'hooks': {
            'guard': 'ENSPARA_VERIF',
            'enable': 'none: static analysis reads the source; no hooks or instrumentation exist in /repo',
            'baseline_off_cmd': 'cd /repo && /venv/bin/python -m pytest -ra -q -p no:cacheprovider --timeout=900 --continue-on-collection-errors',
            'source_commits': [],
            'add_only': True,
        },
        'engines': [{
            'name': 'sa',
            'path': 'sa/',
            'serves_properties': [c['property_id'] for c in checks],
            'kind_free_text': 'repo-specific static analysis: ast + Cython-parser front ends, statement CFG, reaching definitions, interprocedural alias/effects, per-property rule modules',
        }],
        'checks': checks,
        'notes': 'Every check decides its verdict from /repo\'s current source without importing or running enspara. Exit 0 holds / known findings only; 1 VIOLATION; 2 ANALYSIS-INCOMPLETE (anchor vanished). See DESIGN.md.',
        'not_applicable': na,
    }
    with open(os.path.join(HERE, 'MANIFEST.json'), 'w') as f:
        json.dump(m, f, indent=1)
    print('claimed:', [c['property_id'] for c in checks])
    print('not claimed:', [n['property_id'] for n in na])


if __name__ == '__main__':
    main()

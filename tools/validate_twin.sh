#!/bin/bash
# validate_twin.sh <worktree> <R1|R2|R3> : confirm a behaviour-preserving refactoring in its scratch worktree.
wt=$1; v=$2
cd "$wt" || exit 2
git checkout -q -- . 2>/dev/null
pyx=$(grep -c '^+++ .*\.pyx' seed/$v/patch.diff)
PY=/venv/bin/python
timeout 900 $PY seed/$v/demo.py > seed/$v/demo_clean.log 2>&1; dc=$?
if ! git apply seed/$v/patch.diff 2> seed/$v/apply.log; then echo "{\"seed\":\"$wt/$v\",\"apply\":\"FAILED\"}"; exit 1; fi
if [ "$pyx" != "0" ]; then $PY setup.py build_ext --inplace > seed/$v/build.log 2>&1; fi
$PY -m pytest -q -p no:cacheprovider --timeout=900 enspara/test/test_ra.py enspara/test/test_tpt_fluxes.py enspara/test/test_rotamer.py > seed/$v/tests_patched.log 2>&1
tp=$(tail -1 seed/$v/tests_patched.log)
timeout 900 $PY seed/$v/demo.py > seed/$v/demo_patched.log 2>&1; dp=$?
git checkout -q -- .
if [ "$pyx" != "0" ]; then $PY setup.py build_ext --inplace > seed/$v/build2.log 2>&1; rm -rf build; fi
echo "{\"seed\":\"$wt/$v\",\"demo_clean\":$dc,\"tests_patched\":\"$tp\",\"demo_patched\":$dp,\"pyx\":$pyx}"

#!/venv/bin/python
"""tools/gen_author_prompts.py <worktree-root> <mutant-tags> <twin-tags>
   e.g. tools/gen_author_prompts.py /tmp/wt8 K,L R12,R13

Writes <root>/prompts/Cxx.txt: the task description handed to the independent author of one property's
seeded changes (two mutants, two refactorings).  The author sees the property text (from
properties.jsonl), the list of what earlier mutants did (so that a new one differs in mechanism), and its
own scratch worktree <root>/Cxx - never /verif."""
import glob
import json
import os
import sys

HERE = os.path.dirname(os.path.dirname(os.path.abspath(__file__)))

TEMPLATE = '''You are working in a scratch git worktree of the Python/Cython library bowman-lab/enspara located at %(wt)s . Do ALL your work inside %(wt)s; never read or modify /repo, /verif, or any other directory under /tmp (those belong to other people). There is no network.

## Environment facts
- Python: /venv/bin/python (3.12; numpy, scipy, mdtraj, sklearn, Cython, pytest installed). Run everything from inside %(wt)s so that `import enspara` resolves to the worktree copy (check `enspara.__file__`).
- The three Cython extensions (enspara/geometry/libdist, enspara/info_theory/libinfo, enspara/msm/libmsm) are already built in place (.so files, git-ignored). If you change a .pyx file, rebuild with `/venv/bin/python setup.py build_ext --inplace` (about 30 s) and remember the .so then reflects your change (rebuild again after reverting).
- Scripts run by path do NOT get the worktree on sys.path (an unrelated enspara copy is installed in site-packages): start every demo with `import sys, os; sys.modules['mpi4py'] = None; sys.path.insert(0, os.getcwd())`, run it from the worktree root and assert that `enspara.__file__` lies under the worktree.
- There is no MPI library: put `import sys; sys.modules['mpi4py'] = None` BEFORE the first `import enspara...` in any script, otherwise the import fails. enspara.mpi then falls back to a single-rank dummy communicator. (A demonstration that needs several ranks may simulate them, e.g. by monkey-patching enspara.mpi.rank/size/comm with a thread-based fake communicator.)
- The project's pinned test suite is: `cd %(wt)s && /venv/bin/python -m pytest -q -p no:cacheprovider --timeout=900 enspara/test/test_ra.py enspara/test/test_tpt_fluxes.py enspara/test/test_rotamer.py` . On the unmodified tree it gives 47 passed and 1 failed (test_rotamer_assignment fails only because a data file was emptied in this sandbox; ignore it). All other test modules fail at collection in this sandbox and are not part of the pinned suite.

## The property (a semantic guarantee users of enspara rely on)
ID: %(pid)s
Title: %(title)s

Statement: %(statement)s

Quantified over: %(quant)s

Why the existing tests cannot settle it: %(why)s

Where it lives (files): %(files)s
Mechanisms meant to make it hold:
%(mechs)s
Observe at: %(observe)s

NOTE: the source in your worktree is the CURRENT state of the project: about 70 small repairs were committed recently, so line numbers in the list above may be off by a few lines; locate the functions by name.

## Part 1: two property-BREAKING changes ("mutant %(m1)s" and "mutant %(m2)s")
Earlier authors already produced the changes summarised below; yours must differ from ALL of them in mechanism (a different function, clause or kind of slip); do not produce variants of these:
%(earlier)s

Produce TWO independent changes to the enspara *source* (not the tests), each of which BREAKS the property above while: (1) still compiling/importing (rebuild .pyx if touched); (2) leaving the pinned test suite's outcome unchanged (the same 47 tests pass); (3) being realistic - the kind of slip or well-meant refactor a developer could really make and a reviewer could miss; small diffs (1-10 lines) are best; (4) being subtle - the breakage needs something specific to manifest and is NOT exposed by ordinary simple use. The two mutants should attack different clauses/mechanisms (ideally different functions). Think beyond operator flips: stale state, aliasing instead of copying, wrong default, dtype/shape conversions, an early exit, a guard that covers one path but not its sibling, an off-by-one at a boundary, swapped roles of two similar arguments, a cache that is not invalidated, an optimisation that is only valid for one container/branch.
For EACH mutant write seed/<%(m1)s|%(m2)s>/demo.py (run as `/venv/bin/python seed/%(m1)s/demo.py` from %(wt)s): exits 0 on the unmodified tree and non-zero (assertion failure with a clear message) on the mutated tree, checking the property's observable behaviour (not the source text).

## Part 2: two behaviour-PRESERVING refactorings ("%(t1)s" and "%(t2)s")
Produce TWO independent refactorings of the code that implements this property (the functions named under "Mechanisms" and their direct helpers), each leaving the behaviour EXACTLY unchanged for every input (a careful reviewer would accept it as a pure cleanup):
- %(t1)s "local cleanup": rename locals / loop variables (not public names or parameters), introduce or inline temporaries, split or merge statements, replace idioms by exactly equivalent ones, tuple unpacking <-> indexing, keyword <-> positional arguments, comprehension <-> loop, De Morgan rewrites, comments/log statements;
- %(t2)s "restructuring": branch inversion, guard clauses / early returns, reordering of independent statements, merging or splitting loops or conditionals, hoisting an invariant, extracting one or more small private helper functions (or inlining an existing private helper), turning a flag-controlled loop into a break-controlled one or vice versa.
Make each substantial (10-40 changed lines, several of the mechanisms if possible). Do NOT change public names, signatures, defaults, return order, error types/messages, or anything observable; beware of near-equivalences that are not exact (NaN with negated comparisons, list vs ndarray, sparse matrices and len(), in-place vs copy on arguments, dtype of results).
For EACH refactoring write seed/<%(t1)s|%(t2)s>/demo.py: an equivalence demo that exercises the refactored functions on many random and edge-case inputs, checks the property's observable behaviour and compares with values recorded from the unmodified tree; it must exit 0 BOTH on the unmodified and on the refactored tree.

## Deliverables (inside %(wt)s/seed/, which you create)
seed/%(m1)s, seed/%(m2)s, seed/%(t1)s, seed/%(t2)s, each with patch.diff, demo.py, meta.json.
- patch.diff: output of `git diff` (relative to HEAD, run from %(wt)s) containing ONLY enspara source changes for that item; must apply with `git apply` on a clean checkout.
- meta.json: {"property": "%(pid)s", "kind": "mutant" | "refactoring", "summary": "...what was changed...", "clause_broken" (mutants) / "why_equivalent" (refactorings): "...", "needs_to_manifest": "..." (mutants), "files_changed": [...], "results": {"pinned_tests_with_patch": "...", "demo_without_patch": "exit 0", "demo_with_patch": "..."}}

## You must verify yourself, for each of the four items
(a) clean tree: demo exits 0; (b) `git apply` the patch (rebuild if .pyx): pinned suite still 47 passed (+ the 1 known failure); demo exits non-zero for mutants / 0 for refactorings; (c) `git checkout -- .` (rebuild if .pyx, delete build/) so the tree is clean before the next item and at the end. Never use `git stash`; never `pkill`/`killall` by pattern (kill only PIDs you started). Demos should set OMP_NUM_THREADS=2 (os.environ.setdefault before importing numpy/enspara): the machine is shared. Leave only the untracked seed/ directory behind.

Your final reply: 3-5 lines per item (what changed, which clause it breaks / why equivalent, what it needs to manifest, verification results).
'''


def main():
    root = sys.argv[1]
    m1, m2 = sys.argv[2].split(',')
    t1, t2 = sys.argv[3].split(',')
    os.makedirs(os.path.join(root, 'prompts'), exist_ok=True)
    for line in open(os.path.join(HERE, 'properties.jsonl')):
        p = json.loads(line)
        pid = p['id']
        earlier = []
        for d in sorted(glob.glob(os.path.join(HERE, 'seeded', pid + '*'))):
            name = os.path.basename(d)
            tag = name[3:]
            if tag.startswith('R') or not os.path.exists(os.path.join(d, 'meta.json')):
                continue
            try:
                m = json.load(open(os.path.join(d, 'meta.json')))
            except Exception:
                continue
            a = m.get('author') or {}
            if not isinstance(a, dict):
                a = {'summary': a}
            s = a.get('summary') or m.get('summary') or m.get('description') or ''
            if isinstance(s, list):
                s = ' '.join(s)
            s = ' '.join(str(s).split())
            if s:
                earlier.append('- ' + s[:420])
        an = p['anchors']
        txt = TEMPLATE % {
            'wt': os.path.join(root, pid), 'pid': pid, 'title': p['title'], 'statement': p['statement'],
            'quant': p['quantifier']['text'], 'why': p['why_tests_cant'], 'files': ', '.join(an['files']),
            'mechs': '\n'.join('  - ' + json.dumps(x) for x in an.get('mechanism', [])),
            'observe': an.get('observe_at'), 'm1': m1, 'm2': m2, 't1': t1, 't2': t2,
            'earlier': '\n'.join(earlier) or '- (none yet)'}
        open(os.path.join(root, 'prompts', pid + '.txt'), 'w').write(txt)
        print(pid, len(earlier), 'earlier mutants listed')


if __name__ == '__main__':
    main()

#!/venv/bin/python
"""tools/try_seed.py <seed-dir> <PID> [PID ...] : full check output for a seeded change, on the tree
sa/seedlib.py would evaluate it on (current tree, or the seed's pinned base commit with that tree as
naming reference).  Scratch trees under /tmp are removed afterwards."""
import json, os, shutil, subprocess, sys, tempfile
HERE = os.path.dirname(os.path.dirname(os.path.abspath(__file__)))
sys.path.insert(0, HERE)
from sa import seedlib
d = os.path.abspath(sys.argv[1]); pids = sys.argv[2:]
patch = os.path.join(d, 'patch.diff')
meta = json.load(open(os.path.join(d, 'meta.json'))) if os.path.exists(os.path.join(d, 'meta.json')) else {}
pinned = meta.get('base_commit')
files = [l.split()[1][2:] for l in open(patch) if l.startswith('+++ b/')]
sc = tempfile.mkdtemp(prefix='ts-', dir='/tmp'); ref = None
try:
    unchanged = pinned and subprocess.run(['git', '-C', '/repo', 'diff', '--quiet', pinned, '--'] + files).returncode == 0
    ok = False
    if unchanged or not pinned:
        seedlib._rsync_current(sc); ok = seedlib._patch(sc, patch); label = 'current tree'
    if not ok:
        shutil.rmtree(sc); os.makedirs(sc); seedlib._archive(pinned, sc)
        if not seedlib._patch(sc, patch):
            print('PATCH-FAILED on', pinned); sys.exit(3)
        ref = tempfile.mkdtemp(prefix='tr-', dir='/tmp'); seedlib._archive(pinned, ref); label = 'base ' + pinned[:7]
    print('[evaluated on %s]' % label)
    env = dict(os.environ, ENSPARA_REPO=sc, VERIF_EVIDENCE_DIR=os.path.join(sc, 'evidence'))
    if ref: env['VERIF_REFERENCE'] = ref
    for pid in pids:
        r = subprocess.run([os.path.join(HERE, 'check'), pid], cwd=HERE, env=env, capture_output=True, text=True)
        print(r.stdout.replace(sc + '/', ''), end=''); print('[%s exit=%d]' % (pid, r.returncode))
finally:
    shutil.rmtree(sc, ignore_errors=True)
    if ref: shutil.rmtree(ref, ignore_errors=True)

#!/venv/bin/python
"""Validate and collect one seeding round from the authors' scratch worktrees.

usage: tools/collect_round.py <worktree-root> <mutant-tags> <twin-tags> [PID ...]
   e.g. tools/collect_round.py /tmp/wt5 E,F R6,R7

For every <root>/<PID>/seed/<tag>: run tools/validate_seed.sh (mutants) or
tools/validate_twin.sh (twins) IN THAT WORKTREE (never in /repo), and when the
outcome is the required one (mutant: demo 0 clean / non-zero patched, pinned
tests unchanged; twin: demo 0 on both) copy patch.diff, demo.py (+ recorded
data files the demo reads) and a meta.json with the validation record to
seeded/<PID><tag>/.  Seeds that fail validation are reported and NOT collected.
"""
import concurrent.futures as cf
import glob
import json
import os
import shutil
import subprocess
import sys

HERE = os.path.dirname(os.path.dirname(os.path.abspath(__file__)))
SKIP = {'demo_clean.log', 'demo_patched.log', 'apply.log', 'build.log', 'build2.log', 'tests_patched.log', '__pycache__'}


def one_worktree(root, pid, mut, twin, rnd):
    wt = os.path.join(root, pid)
    out = []
    head = subprocess.run(['git', 'rev-parse', 'HEAD'], cwd=wt, capture_output=True, text=True).stdout.strip()
    for tag in mut + twin:
        sd = os.path.join(wt, 'seed', tag)
        if not os.path.exists(os.path.join(sd, 'patch.diff')):
            out.append((pid + tag, 'absent', None))
            continue
        script = 'validate_seed.sh' if tag in mut else 'validate_twin.sh'
        env = dict(os.environ, OMP_NUM_THREADS='2')
        r = subprocess.run([os.path.join(HERE, 'tools', script), wt, tag], capture_output=True, text=True, env=env)
        try:
            v = json.loads(r.stdout.strip().splitlines()[-1])
        except Exception:
            out.append((pid + tag, 'validator-broke: ' + (r.stdout + r.stderr)[-200:], None))
            continue
        tests_ok = '47 passed' in v.get('tests_patched', '') and '1 failed' in v.get('tests_patched', '')
        if tag in mut:
            good = v.get('demo_clean') == 0 and v.get('demo_patched') not in (0, None) and tests_ok
        else:
            good = v.get('demo_clean') == 0 and v.get('demo_patched') == 0 and tests_ok
        if not good:
            out.append((pid + tag, 'REJECTED ' + json.dumps(v), None))
            continue
        dst = os.path.join(HERE, 'seeded', pid + tag)
        shutil.rmtree(dst, ignore_errors=True)
        os.makedirs(dst)
        for f in os.listdir(sd):
            if f in SKIP or f.endswith('.log'):
                continue
            p = os.path.join(sd, f)
            if os.path.isdir(p):
                shutil.copytree(p, os.path.join(dst, f), ignore=shutil.ignore_patterns('__pycache__'))
            elif f != 'meta.json':
                shutil.copy(p, dst)
        try:
            author = json.load(open(os.path.join(sd, 'meta.json')))
        except Exception as e:
            author = {'unparsed': open(os.path.join(sd, 'meta.json')).read()[:4000] if os.path.exists(os.path.join(sd, 'meta.json')) else str(e)}
        meta = {
            'id': pid + tag, 'property': pid,
            'kind': ('mutant' if tag in mut else 'twin (behaviour-preserving refactoring)') + ' (round %s, written from the property text only)' % rnd,
            'validated': {'where': 'scratch worktree of /repo at ' + head[:7],
                          'demo_exit_unpatched': v['demo_clean'], 'demo_exit_patched': v['demo_patched'],
                          'pinned_suite_patched': v['tests_patched'], 'touches_pyx': bool(v.get('pyx'))},
            'author': author, 'base_commit': head,
        }
        json.dump(meta, open(os.path.join(dst, 'meta.json'), 'w'), indent=1)
        out.append((pid + tag, 'collected', v))
    return out


def main():
    root, mut, twin = sys.argv[1], sys.argv[2].split(','), sys.argv[3].split(',')
    pids = sys.argv[4:] or sorted(os.path.basename(d) for d in glob.glob(os.path.join(root, 'C[0-9][0-9]')))
    rnd = os.environ.get('ROUND', '4')
    with cf.ThreadPoolExecutor(max_workers=int(os.environ.get('JOBS', '8'))) as ex:
        for res in ex.map(lambda p: one_worktree(root, p, mut, twin, rnd), pids):
            for name, status, v in res:
                print(name, status, '' if v is None else json.dumps(v))
    return 0


if __name__ == '__main__':
    sys.exit(main())

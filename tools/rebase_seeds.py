#!/venv/bin/python
"""Keep the seeded patches applicable to /repo's HEAD after a `fix:` commit.

For every seeded/<id>/patch.diff that no longer applies to HEAD: find the most
recent commit of /repo it does apply to, apply it there in a throw-away clone
(under /tmp, removed afterwards), cherry-pick the later commits on top and
write the re-diffed patch back; meta.json gets a `rebased` note.  Conflicts
are reported (the seed is left untouched) and must be resolved by hand.

usage: tools/rebase_seeds.py [--dry-run]
"""
import glob
import json
import os
import shutil
import subprocess
import sys
import tempfile

HERE = os.path.dirname(os.path.dirname(os.path.abspath(__file__)))
G = ['git', '-c', 'user.name=verif', '-c', 'user.email=verif@localhost']


def sh(args, cwd=None, check=False):
    return subprocess.run(args, cwd=cwd, capture_output=True, text=True, check=check)


def applies(patch, cwd='/repo'):
    return sh(['git', 'apply', '--check', patch], cwd=cwd).returncode == 0


def main():
    dry = '--dry-run' in sys.argv
    head = sh(['git', 'rev-parse', 'HEAD'], cwd='/repo').stdout.strip()
    commits = sh(['git', 'log', '--format=%H', '-n', '40'], cwd='/repo').stdout.split()
    todo = [d for d in sorted(glob.glob(os.path.join(HERE, 'seeded', 'C*')))
            if os.path.exists(os.path.join(d, 'patch.diff')) and not applies(os.path.join(d, 'patch.diff'))]
    if not todo:
        print('all seeded patches apply to', head[:7])
        return 0
    clone = tempfile.mkdtemp(prefix='rb-', dir='/tmp')
    failed = []
    try:
        sh(['git', 'clone', '-q', '/repo', clone], check=True)
        for d in todo:
            name = os.path.basename(d)
            patch = os.path.join(d, 'patch.diff')
            base = None
            for c in commits[1:]:
                sh(['git', 'checkout', '-q', '-f', c], cwd=clone)
                sh(['git', 'clean', '-qfd'], cwd=clone)
                if applies(patch, clone):
                    base = c
                    break
            if base is None:
                print('NO BASE', name)
                failed.append(name)
                continue
            sh(['git', 'apply', patch], cwd=clone, check=True)
            sh(G + ['commit', '-qam', 'seed'], cwd=clone, check=True)
            later = list(reversed(commits[:commits.index(base)]))
            ok = True
            for c in later:
                r = sh(G + ['cherry-pick', c], cwd=clone)
                if r.returncode != 0:
                    ok = False
                    print('CONFLICT', name, 'at', c[:7], ':', sh(['git', 'diff', '--name-only', '--diff-filter=U'], cwd=clone).stdout.split())
                    sh(['git', 'cherry-pick', '--abort'], cwd=clone)
                    break
            if not ok:
                failed.append(name)
                continue
            new = sh(['git', 'diff', head, 'HEAD'], cwd=clone).stdout
            tmp = os.path.join(clone, '.new.diff')
            with open(tmp, 'w') as f:
                f.write(new)
            if not new.strip() or not applies(tmp):
                print('REBASED PATCH DOES NOT APPLY', name)
                failed.append(name)
                continue
            print('rebased', name, 'from', base[:7], 'to', head[:7])
            if not dry:
                shutil.copy(tmp, patch)
                mp = os.path.join(d, 'meta.json')
                try:
                    m = json.load(open(mp))
                except Exception:
                    m = {}
                m['rebased'] = (m.get('rebased', '') + ' | patch rebased from %s onto /repo %s by tools/rebase_seeds.py' % (base[:7], head[:7])).strip(' |')
                json.dump(m, open(mp, 'w'), indent=1)
    finally:
        shutil.rmtree(clone, ignore_errors=True)
    if failed:
        print('NEEDS MANUAL REBASE:', failed)
        return 1
    return 0


if __name__ == '__main__':
    sys.exit(main())

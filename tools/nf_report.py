#!/venv/bin/python
"""tools/nf_report.py <seed-dir> [-v] : which functions changed by a seeded patch does the
normalising front end recognise as equivalent to the reference (normal forms equal -> the
reference spelling is analysed), and for the others the diff of the two normal forms.
Scratch tree under /tmp, removed afterwards.  Diagnostic only; not used by any check."""
import ast
import copy
import difflib
import os
import shutil
import subprocess
import sys
import tempfile

HERE = os.path.dirname(os.path.dirname(os.path.abspath(__file__)))
sys.path.insert(0, HERE)


def main():
    d = os.path.abspath(sys.argv[1])
    verbose = '-v' in sys.argv
    sc = tempfile.mkdtemp(prefix='nfr-', dir='/tmp')
    try:
        from sa import seedlib
        seedlib._rsync_current(sc)
        ref = None
        if not seedlib._patch(sc, os.path.join(d, 'patch.diff')):
            import json
            base = json.load(open(os.path.join(d, 'meta.json'))).get('base_commit')
            shutil.rmtree(sc); os.makedirs(sc); seedlib._archive(base, sc)
            if not seedlib._patch(sc, os.path.join(d, 'patch.diff')):
                print('patch does not apply to the current tree nor to its base')
                return 2
            ref = tempfile.mkdtemp(prefix='nfq-', dir='/tmp'); seedlib._archive(base, ref)
            os.environ['VERIF_REFERENCE'] = ref
            print('  [on base %s]' % base[:7])
        os.environ['ENSPARA_REPO'] = sc
        from sa import core, normal, rename, inline
        repo = core.Repo(sc)
        repo._load_pyx()
        files = [l.split()[1][2:] for l in open(os.path.join(d, 'patch.diff')) if l.startswith('+++ b/')]
        sigs = repo._ref_signatures()
        n_eq = n_ne = 0
        for rel in files:
            if rel not in repo.modules:
                continue
            cur = repo.modules[rel]
            ref_path = os.path.join(rename.REFERENCE, rel)
            rsrc = open(ref_path).read()
            if rel.endswith('.pyx'):
                from sa import pyxfront
                rtree = core._canon_tree(pyxfront.parse_pyx(ref_path, rel))
            else:
                rtree = core._canon_tree(ast.parse(rsrc))
            ref_fns = dict(core._all_functions(rtree))
            eq = set(repo.equivalent.get(rel, []))
            for key, (fn, holder, idx) in core._all_functions(cur.tree):
                if key not in ref_fns:
                    print('  NEW   %s:%s' % (rel, key[0]))
                    continue
                rfn = ref_fns[key][0]
                if ast.dump(fn) == ast.dump(rfn):
                    if key[0] in eq:
                        n_eq += 1
                        print('  EQUIV %s:%s' % (rel, key[0]))
                    continue
                n_ne += 1
                print('  DIFF  %s:%s   inlined=%s renames=%s' % (rel, key[0], repo.inlined.get(rel, {}).get(key[0]), repo.renames.get(rel, {}).get(key[0]) if isinstance(repo.renames.get(rel), dict) else ''))
                if verbose:
                    try:
                        a = ast.unparse(normal.normal_form(rfn, sigs)).splitlines()
                        b = ast.unparse(normal.normal_form(fn, sigs)).splitlines()
                        print('\n'.join('      ' + l for l in difflib.unified_diff(a, b, 'ref', 'cur', lineterm='', n=0)))
                    except Exception as e:
                        print('      normal form failed:', repr(e))
        print('%s: %d equivalent, %d different' % (os.path.basename(d), n_eq, n_ne))
    finally:
        shutil.rmtree(sc, ignore_errors=True)
        if os.environ.get('VERIF_REFERENCE', '').startswith('/tmp/nfq-'):
            shutil.rmtree(os.environ['VERIF_REFERENCE'], ignore_errors=True)


if __name__ == '__main__':
    sys.exit(main())

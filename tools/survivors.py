#!/venv/bin/python
"""tools/survivors.py <PID> [N] [outdir] : generic AST mutants of the functions the <PID> check analyses
(the thorough tier's generator, sa/thorough.py) that the check does NOT flag.

Each survivor is written as a unified diff against /repo's working tree to <outdir>/<PID>/sNNN.diff
(default outdir /tmp/surv) together with INDEX.txt (one line per mutant: status, description).  The
mutants are applied to scratch copies only; nothing in /repo is touched.  Triage tool: a survivor is an
equivalent mutant, an edit outside the decided clauses, or a blind spot of the rules."""
import concurrent.futures as cf
import difflib
import os
import random
import shutil
import subprocess
import sys
import ast

HERE = os.path.dirname(os.path.dirname(os.path.abspath(__file__)))
sys.path.insert(0, HERE)


def main():
    pid = sys.argv[1]
    n = int(sys.argv[2]) if len(sys.argv) > 2 else 120
    out = os.path.join(sys.argv[3] if len(sys.argv) > 3 else '/tmp/surv', pid)
    shutil.rmtree(out, ignore_errors=True)
    os.makedirs(out)
    from sa import thorough
    from sa.core import Repo
    from sa.report import Checker
    import importlib
    repo = Repo()
    ck = Checker(pid, 'quick', repo, 0)
    importlib.import_module('sa.rules.%s' % pid).check(ck)
    muts = thorough.enumerate_mutants(thorough.REPO, sorted(ck.functions))
    rnd = random.Random(20260928 + int(pid[1:]))
    total = len(muts)
    if len(muts) > n:
        muts = sorted(rnd.sample(muts, n))

    def one(m):
        rel, q, i, j, desc = m
        status = thorough._one_mutant(pid, m)
        patch = ''
        if status[1] == 'survived':
            # regenerate the mutated source for the diff
            path = os.path.join(thorough.REPO, rel)
            src0 = open(path, encoding='utf-8').read()
            tree = ast.parse(src0)
            target = None
            for qq, fn in thorough._function_nodes(tree, {q}):
                for k, node in enumerate(ast.walk(fn)):
                    if k == i:
                        target = node
                        break
                break
            if target is not None:
                new = thorough._Apply(target, thorough._ops_for(target)[j][1]).visit(tree)
                ast.fix_missing_locations(new)
                # diff against the unparsed original so that only the mutation shows
                a = ast.unparse(ast.parse(src0)).splitlines(keepends=True)
                b = ast.unparse(new).splitlines(keepends=True)
                patch = ''.join(difflib.unified_diff(a, b, 'a/' + rel + ' (normalised by ast.unparse)', 'b/' + rel, n=4))
        return desc, status[1], status[2], patch
    with cf.ThreadPoolExecutor(max_workers=int(os.environ.get('JOBS', '12'))) as ex:
        res = list(ex.map(one, muts))
    k = 0
    lines = ['# %s: %d mutation sites in the analysed functions, %d run' % (pid, total, len(muts))]
    tally = {}
    for desc, st, rules, patch in res:
        tally[st] = tally.get(st, 0) + 1
        tag = ''
        if st == 'survived':
            k += 1
            tag = 's%03d' % k
            open(os.path.join(out, tag + '.diff'), 'w').write('# %s\n%s' % (desc, patch))
        lines.append('%-10s %-5s %s %s' % (st, tag, desc, ','.join(rules[:2])))
    lines.append('# tally: %s' % tally)
    open(os.path.join(out, 'INDEX.txt'), 'w').write('\n'.join(lines) + '\n')
    print(pid, tally, '->', out)


if __name__ == '__main__':
    main()

#!/venv/bin/python
"""Record in every seeded/<id>/meta.json the EARLIEST /repo commit (from 3d2c4e1, the
commit the first seeds were validated on, forward) its patch applies to strictly
(`base_commit`): that is the tree the seed was written and validated for (or was
mechanically rebased onto).  tools/seedlib.py evaluates a seed on the current tree
only while the files it touches are unchanged since that commit."""
import glob
import json
import os
import subprocess

HERE = os.path.dirname(os.path.dirname(os.path.abspath(__file__)))
head = subprocess.run(['git', '-C', '/repo', 'rev-parse', 'HEAD'], capture_output=True, text=True).stdout.strip()
FIRST = subprocess.run(['git', '-C', '/repo', 'rev-parse', '3d2c4e1'], capture_output=True, text=True).stdout.strip()
commits = subprocess.run(['git', '-C', '/repo', 'log', '--format=%H', '-n', '200'], capture_output=True, text=True).stdout.split()
clone = '/tmp/pin-clone'
subprocess.run(['rm', '-rf', clone])
subprocess.run(['git', 'clone', '-q', '/repo', clone], check=True)
n = moved = 0
for d in sorted(glob.glob(os.path.join(HERE, 'seeded', 'C*'))):
    patch = os.path.join(d, 'patch.diff')
    mp = os.path.join(d, 'meta.json')
    if not os.path.exists(patch):
        continue
    try:
        m = json.load(open(mp))
    except Exception:
        m = {}
    base = None
    keep = m.get('base_commit')
    if keep:
        # a base recorded at collection time (the commit the author wrote the change on) stays
        # as long as the patch still applies there strictly
        subprocess.run(['git', 'checkout', '-q', '-f', keep], cwd=clone)
        if subprocess.run(['git', 'apply', '--check', patch], cwd=clone, capture_output=True).returncode == 0:
            n += 1
            continue
    for c in reversed(commits[:commits.index(FIRST) + 1] if FIRST in commits else commits):
        subprocess.run(['git', 'checkout', '-q', '-f', c], cwd=clone)
        if subprocess.run(['git', 'apply', '--check', patch], cwd=clone, capture_output=True).returncode == 0:
            base = c
            break
    if base is None:
        print('NO BASE FOUND', os.path.basename(d))
        continue
    n += 1
    if m.get('base_commit') != base:
        m['base_commit'] = base
        json.dump(m, open(mp, 'w'), indent=1)
        moved += 1
subprocess.run(['rm', '-rf', clone])
print('pinned %d seeds (%d updated); HEAD %s' % (n, moved, head[:7]))

"""Obligation bookkeeping, known findings, evidence and verdict lines."""
import hashlib
import json
import os
import time

from .core import AnalysisIncomplete, norm_text, u

VERIF = os.path.dirname(os.path.dirname(os.path.abspath(__file__)))
KNOWN_FILE = os.path.join(VERIF, 'known_findings.txt')
EVIDENCE_DIR = os.environ.get('VERIF_EVIDENCE_DIR') or os.path.join(VERIF, 'evidence')


def load_known():
    """known_findings.txt -> {(property, key): description}. Never written
    at run time. `fixed:` lines are informational and suppress nothing."""
    known = {}
    if not os.path.exists(KNOWN_FILE):
        return known
    with open(KNOWN_FILE, encoding='utf-8') as f:
        for line in f:
            line = line.strip()
            if not line.startswith('known:'):
                continue
            rest = line[len('known:'):].strip()
            # known: property=<id> key=<key...> :: <description>
            try:
                prop_part, rest2 = rest.split(' ', 1)
                pid = prop_part.split('=', 1)[1]
                key_part, desc = rest2.split(' :: ', 1)
                key = key_part.split('=', 1)[1].strip()
            except (ValueError, IndexError):
                continue
            known[(pid, norm_text(key))] = desc.strip()
    return known


class Checker:
    def __init__(self, pid, tier, repo, seed=0):
        self.pid = pid
        self.tier = tier
        self.repo = repo
        self.seed = seed
        self.t0 = time.time()
        self.obligations = []      # every evaluated obligation
        self.violations = []
        self.known_hits = []
        self.observations = []
        self.incomplete = []
        self.assumptions = []
        self.functions = set()
        self.rule_counts = {}
        self.notes = {}
        self.known = load_known()

    # -- recording -------------------------------------------------------
    def analysed(self, mod, fn):
        name = fn if isinstance(fn, str) else mod.qualname(fn)
        self.functions.add('%s::%s' % (mod.rel, name))

    def _site(self, mod, node):
        return mod.loc(node) if node is not None else mod.rel

    def ok(self, rule, mod, node, what, detail=''):
        self.obligations.append({
            'rule': rule, 'site': self._site(mod, node),
            'construct': norm_text(what)[:200], 'status': 'discharged',
            'detail': norm_text(detail)[:300]})
        self.rule_counts[rule] = self.rule_counts.get(rule, 0) + 1

    def bad(self, rule, mod, node, function, construct, detail, witness=None):
        """A definitely broken obligation at a named construct."""
        construct_n = norm_text(construct)[:240]
        key = norm_text('%s|%s|%s|%s' % (rule, mod.rel, function, construct_n))
        rec = {'rule': rule, 'site': self._site(mod, node),
               'module': mod.rel, 'function': function,
               'construct': construct_n, 'status': 'VIOLATED',
               'detail': norm_text(detail)[:600], 'key': key}
        if witness:
            rec['witness'] = witness
        self.obligations.append(rec)
        self.rule_counts[rule] = self.rule_counts.get(rule, 0) + 1
        if (self.pid, key) in self.known:
            rec['status'] = 'KNOWN-FINDING'
            rec['known'] = self.known[(self.pid, key)]
            self.known_hits.append(rec)
        else:
            self.violations.append(rec)

    def check(self, cond, rule, mod, node, function, construct, detail_ok='',
              detail_bad='', witness=None):
        if cond:
            self.ok(rule, mod, node, construct, detail_ok)
        else:
            self.bad(rule, mod, node, function, construct,
                     detail_bad or detail_ok, witness)
        return bool(cond)

    def decide(self, verdict, rule, mod, node, function, construct, detail_ok='', detail_bad=''):
        """Record the outcome of match.classify(): 'match' discharges the
        obligation, 'near' is a violation at the named construct, 'far' means
        the construct was not recognised (analysis incomplete, exit 2) - a
        restructured implementation is never reported as a violation merely
        because its shape is unfamiliar."""
        kind = verdict[0] if isinstance(verdict, tuple) else verdict
        if kind == 'match':
            self.ok(rule, mod, node, construct, detail_ok)
            return True
        if kind == 'near':
            extra = ''
            if isinstance(verdict, tuple) and len(verdict) >= 3 and verdict[2] is not None:
                extra = ' [closest accepted form: %s; %d position(s) differ]' % (
                    verdict[2] if isinstance(verdict[2], str) else '<pattern>', verdict[1])
            self.bad(rule, mod, node, function, construct, (detail_bad or detail_ok) + extra)
            return False
        self.missing(rule, 'construct not recognised at %s: %s  (%s)' % (
            self._site(mod, node), norm_text(construct)[:160], (detail_bad or detail_ok)[:160]))
        return False

    def observe(self, rule, mod, node, text):
        self.observations.append({'rule': rule, 'site': self._site(mod, node),
                                  'text': norm_text(text)[:300]})

    def assume(self, text):
        if text not in self.assumptions:
            self.assumptions.append(text)

    def missing(self, rule, what):
        """A positive anchor was not found at all: cannot decide."""
        self.incomplete.append('%s: %s' % (rule, what))

    def floor(self, rule, found, minimum, what=''):
        if found < minimum:
            self.incomplete.append(
                '%s: found %d instance(s) of %s, expected at least %d '
                '(anchor vanished or idiom not recognised)'
                % (rule, found, what or rule, minimum))
        self.notes.setdefault('instance_floors', {})[rule] = {
            'found': found, 'floor': minimum}

    # -- output ----------------------------------------------------------
    def finish(self, explanation, level='other'):
        wall = time.time() - self.t0
        distinct = {(o['rule'], o['site'], o['construct'])
                    for o in self.obligations}
        discharged = sum(1 for o in self.obligations
                         if o['status'] == 'discharged')
        samples = []
        seen_rules = set()
        for o in self.obligations:
            if o['rule'] not in seen_rules or o['status'] != 'discharged':
                seen_rules.add(o['rule'])
                samples.append(o)
        samples = samples[:60]
        ev = {
            'property_id': self.pid,
            'tier': self.tier,
            'seed': int(self.seed),
            'level': level,
            'coverage': {
                'explanation': explanation,
                'obligations': len(self.obligations),
                'discharged': discharged,
                'evaluations': len(self.obligations),
                'distinct_nontrivial': len(distinct),
                'rule': 'one evaluation per (rule, source construct) pair '
                        'found by the analysis on the current tree; distinct '
                        '= distinct (rule, file:line, normalised construct); '
                        'every one is non-trivial in the sense that it '
                        'matched a real construct of /repo',
                'samples': samples,
                'checker_cmd': './check %s --tier %s' % (self.pid, self.tier),
                'trusted_base': [
                    'CPython ast parser', "Cython's parser (pipeline cut "
                    'after ParallelRangeTransform)',
                    'frozen numpy/scipy transfer tables in sa/',
                ],
                'units_parsed': len(self.repo.units),
                'functions_analysed': sorted(self.functions),
                'rule_instances': dict(sorted(self.rule_counts.items())),
                'known_findings_reported': [
                    {'key': k['key'], 'what': k.get('known', '')}
                    for k in self.known_hits],
                'observations': self.observations[:40],
                'incomplete': self.incomplete,
                'violation_keys': sorted({v['key'] for v in self.violations}),
                'functions_equivalent_to_reference_modulo_normal_form': getattr(self.repo, 'equivalent', {}),
                'locals_renamed_to_reference': {k: v for k, v in getattr(self.repo, 'renames', {}).items()},
                'new_private_helpers_inlined': getattr(self.repo, 'inlined', {}),
                'exhaustive': False,
            },
            'assumptions': self.assumptions,
            'wall_s': round(wall, 3),
            'violations': len(self.violations),
        }
        ev['coverage'].update(self.notes)
        os.makedirs(EVIDENCE_DIR, exist_ok=True)
        path = os.path.join(EVIDENCE_DIR, '%s.json' % self.pid)
        with open(path, 'w', encoding='utf-8') as f:
            json.dump(ev, f, indent=1, sort_keys=False, default=str)
        return ev

    def verdict(self):
        """Print verdict lines; return the exit code."""
        for o in self.observations[:20]:
            print('OBSERVATION property=%s rule=%s %s %s' % (
                self.pid, o['rule'], o['site'], o['text']))
        for k in self.known_hits:
            print('KNOWN-FINDING: property=%s %s %s :: %s' % (
                self.pid, k['site'], k['key'], k.get('known', '')))
        code = 0
        if self.violations:
            vdir = os.path.join(EVIDENCE_DIR, 'violations')
            os.makedirs(vdir, exist_ok=True)
            for v in self.violations:
                digest = hashlib.sha256(v['key'].encode()).hexdigest()[:12]
                rel = 'evidence/violations/%s-%s.json' % (self.pid, digest)
                with open(os.path.join(vdir, '%s-%s.json' % (self.pid, digest)), 'w') as f:
                    json.dump({'property': self.pid, 'tier': self.tier,
                               'violation': v}, f, indent=1, default=str)
                print('  %s rule=%s function=%s' % (
                    v['site'], v['rule'], v['function']))
                print('    construct: %s' % v['construct'])
                print('    why: %s' % v['detail'])
                if v.get('witness'):
                    print('    witness: %s' % v['witness'])
                print('VIOLATION property=%s replay=%s' % (self.pid, rel))
            code = 1
        if self.incomplete:
            for i in self.incomplete:
                print('ANALYSIS-INCOMPLETE property=%s %s' % (self.pid, i))
            if code == 0:
                code = 2
        if code == 0:
            print('HOLDS property=%s tier=%s obligations=%d known=%d' % (
                self.pid, self.tier, len(self.obligations),
                len(self.known_hits)))
        return code

"""Statement-level control-flow graph for one function, with dominators,
post-dominators, reaching definitions and possibly-unbound analysis.

Nodes are the ``ast.stmt`` objects of the function (a compound statement
stands for the evaluation of its header: test / iterator / context
expression) plus the synthetic ENTRY and EXIT.
"""
import ast

from .core import target_names, walk_expr

ENTRY = 'ENTRY'
EXIT = 'EXIT'

# context managers used by the package that never swallow exceptions
NON_SUPPRESSING_WITH = True


class Assume:
    """Synthetic CFG node at the head of an if-branch: `test` is known to be
    true (polarity=True) or false (polarity=False) from here on."""
    _fields = ()

    def __init__(self, test, polarity, owner):
        self.test = test
        self.polarity = polarity
        self.owner = owner
        self.lineno = getattr(owner, 'lineno', 0)

    def __repr__(self):
        return 'Assume(%s, %s)' % (ast.unparse(self.test), self.polarity)


class CFG:
    def __init__(self, fn, zero_trip=True):
        self.fn = fn
        self.succ = {ENTRY: [], EXIT: []}
        self.pred = {ENTRY: [], EXIT: []}
        self.nodes = [ENTRY]
        self.zero_trip = zero_trip
        self._loop_stack = []
        self._try_stack = []
        body = fn.body if isinstance(fn.body, list) else [ast.Return(fn.body)]
        outs = self._seq(body, [ENTRY])
        for o in outs:
            self._edge(o, EXIT)
        self.nodes.append(EXIT)
        self._dom = None
        self._pdom = None

    # -- construction ----------------------------------------------------
    def _add(self, n):
        if n not in self.succ:
            self.succ[n] = []
            self.pred[n] = []
            self.nodes.append(n)

    def _edge(self, a, b):
        self._add(a)
        self._add(b)
        if b not in self.succ[a]:
            self.succ[a].append(b)
            self.pred[b].append(a)

    def _seq(self, stmts, ins):
        cur = ins
        for s in stmts:
            cur = self._stmt(s, cur)
        return cur

    def _to_handlers(self, node):
        """An exception raised at `node` may reach the innermost handlers."""
        if self._try_stack:
            for h in self._try_stack[-1]:
                self._edge(node, h)

    def _stmt(self, s, ins):
        self._add(s)
        for i in ins:
            self._edge(i, s)
        if isinstance(s, ast.If):
            at = Assume(s.test, True, s)
            af = Assume(s.test, False, s)
            self._edge(s, at)
            self._edge(s, af)
            b = self._seq(s.body, [at])
            e = self._seq(s.orelse, [af]) if s.orelse else [af]
            return b + e
        if isinstance(s, (ast.While,)):
            infinite = isinstance(s.test, ast.Constant) and bool(s.test.value)
            self._loop_stack.append((s, []))
            b = self._seq(s.body, [s])
            for o in b:
                self._edge(o, s)
            _, breaks = self._loop_stack.pop()
            outs = []
            if not infinite:
                outs = self._seq(s.orelse, [s]) if s.orelse else [s]
            return outs + breaks
        if isinstance(s, (ast.For, ast.AsyncFor)):
            self._loop_stack.append((s, []))
            b = self._seq(s.body, [s])
            for o in b:
                self._edge(o, s)
            _, breaks = self._loop_stack.pop()
            outs = self._seq(s.orelse, [s]) if s.orelse else [s]
            return outs + breaks
        if isinstance(s, ast.Break):
            if self._loop_stack:
                self._loop_stack[-1][1].append(s)
            return []
        if isinstance(s, ast.Continue):
            if self._loop_stack:
                self._edge(s, self._loop_stack[-1][0])
            return []
        if isinstance(s, ast.Return):
            self._edge(s, EXIT)
            return []
        if isinstance(s, ast.Raise):
            if self._try_stack:
                self._to_handlers(s)
            else:
                self._edge(s, EXIT)
            return []
        if isinstance(s, (ast.With, ast.AsyncWith)):
            return self._seq(s.body, [s])
        if isinstance(s, ast.Try) or type(s).__name__ == 'TryStar':
            handler_heads = []
            for h in s.handlers:
                self._add(h)
                handler_heads.append(h)
            self._try_stack.append(handler_heads)
            # an exception may occur before any statement of the body ran
            for h in handler_heads:
                self._edge(s, h)
            b_outs = []
            cur = [s]
            for st in s.body:
                cur = self._stmt(st, cur)
                for h in handler_heads:
                    self._edge(st, h)
            b_outs = cur
            self._try_stack.pop()
            if s.orelse:
                b_outs = self._seq(s.orelse, b_outs)
            h_outs = []
            for h in s.handlers:
                h_outs += self._seq(h.body, [h])
            outs = b_outs + h_outs
            if s.finalbody:
                outs = self._seq(s.finalbody, outs)
            return outs
        # simple statement (Assign, AugAssign, AnnAssign, Expr, Assert,
        # Import, Pass, Delete, Global, FunctionDef, ClassDef ...)
        return [s]

    # -- dominance -------------------------------------------------------
    def _dominators(self, succ, pred, root):
        nodes = [n for n in self.nodes if n in succ]
        # reachable set from root
        reach = set()
        stack = [root]
        while stack:
            n = stack.pop()
            if n in reach:
                continue
            reach.add(n)
            stack.extend(succ[n])
        dom = {n: set(reach) for n in reach}
        dom[root] = {root}
        changed = True
        order = [n for n in nodes if n in reach]
        while changed:
            changed = False
            for n in order:
                if n == root:
                    continue
                ps = [p for p in pred[n] if p in reach]
                if not ps:
                    continue
                new = set.intersection(*(dom[p] for p in ps)) | {n}
                if new != dom[n]:
                    dom[n] = new
                    changed = True
        return dom

    @property
    def dom(self):
        if self._dom is None:
            self._dom = self._dominators(self.succ, self.pred, ENTRY)
        return self._dom

    @property
    def pdom(self):
        if self._pdom is None:
            self._pdom = self._dominators(self.pred, self.succ, EXIT)
        return self._pdom

    def dominates(self, a, b):
        """Every path ENTRY -> b passes through a."""
        return b in self.dom and a in self.dom[b]

    def postdominates(self, a, b):
        """Every path b -> EXIT passes through a."""
        return b in self.pdom and a in self.pdom[b]

    def reachable(self, a, b, avoiding=()):
        """Is there a path a ->+ b that avoids the given nodes?"""
        avoid = set(avoiding)
        stack = list(self.succ.get(a, []))
        seen = set()
        while stack:
            n = stack.pop()
            if n in seen or n in avoid:
                continue
            seen.add(n)
            if n is b or n == b:
                return True
            stack.extend(self.succ.get(n, []))
        return False

    def path(self, a, b, avoiding=()):
        """A witness path a -> b (list of nodes) avoiding nodes, or None."""
        avoid = set(avoiding)
        prev = {a: None}
        queue = [a]
        while queue:
            n = queue.pop(0)
            for m in self.succ.get(n, []):
                if m in prev or m in avoid:
                    continue
                prev[m] = n
                if m is b or m == b:
                    out = [m]
                    while prev[out[-1]] is not None:
                        out.append(prev[out[-1]])
                    return list(reversed(out))
                queue.append(m)
        return None

    def describe(self, n):
        if n in (ENTRY, EXIT):
            return n
        if isinstance(n, Assume):
            return 'L%s:assume(%s is %s)' % (n.lineno, ast.unparse(n.test)[:40],
                                             n.polarity)
        return 'L%s:%s' % (getattr(n, 'lineno', '?'), type(n).__name__)


# ---------------------------------------------------------------------------
# definitions and uses

def stmt_defs(s):
    """Names (re)bound by executing the header of statement s."""
    out = []
    if isinstance(s, ast.Assign):
        for t in s.targets:
            out += target_names(t)
    elif isinstance(s, ast.AugAssign):
        out += target_names(s.target)
    elif isinstance(s, ast.AnnAssign):
        if s.value is not None:
            out += target_names(s.target)
    elif isinstance(s, (ast.For, ast.AsyncFor)):
        out += target_names(s.target)
    elif isinstance(s, (ast.With, ast.AsyncWith)):
        for it in s.items:
            if it.optional_vars is not None:
                out += target_names(it.optional_vars)
    elif isinstance(s, (ast.Import, ast.ImportFrom)):
        for a in s.names:
            out.append((a.asname or a.name).split('.')[0])
    elif isinstance(s, (ast.FunctionDef, ast.AsyncFunctionDef, ast.ClassDef)):
        out.append(s.name)
    elif isinstance(s, ast.ExceptHandler):
        if s.name:
            out.append(s.name)
    # walrus
    for e in header_exprs(s):
        for n in walk_expr(e):
            if isinstance(n, ast.NamedExpr):
                out += target_names(n.target)
    return out


def header_exprs(s):
    """Expressions evaluated when control is *at* statement s (not its body)."""
    if isinstance(s, ast.Assign):
        return [s.value] + list(s.targets)
    if isinstance(s, ast.AugAssign):
        return [s.value, s.target]
    if isinstance(s, ast.AnnAssign):
        return [x for x in (s.value, s.target) if x is not None]
    if isinstance(s, (ast.For, ast.AsyncFor)):
        return [s.iter, s.target]
    if isinstance(s, (ast.While, ast.If)):
        return [s.test]
    if isinstance(s, (ast.With, ast.AsyncWith)):
        out = []
        for it in s.items:
            out.append(it.context_expr)
            if it.optional_vars is not None:
                out.append(it.optional_vars)
        return out
    if isinstance(s, ast.Return):
        return [s.value] if s.value is not None else []
    if isinstance(s, ast.Expr):
        return [s.value]
    if isinstance(s, ast.Assert):
        return [x for x in (s.test, s.msg) if x is not None]
    if isinstance(s, ast.Raise):
        return [x for x in (s.exc, s.cause) if x is not None]
    if isinstance(s, ast.Delete):
        return list(s.targets)
    if isinstance(s, ast.ExceptHandler):
        return [s.type] if s.type is not None else []
    return []


def header_uses(s):
    """Name nodes *read* when control is at statement s."""
    out = []
    for e in header_exprs(s):
        for n in walk_expr(e):
            if isinstance(n, ast.Name) and isinstance(n.ctx, (ast.Load, ast.Del)):
                out.append(n)
    if isinstance(s, ast.AugAssign) and isinstance(s.target, ast.Name):
        out.append(s.target)
    return out


class ReachingDefs:
    """Reaching definitions over a CFG.

    A definition is a pair (name, site) where site is a statement, the
    string 'PARAM', or 'UNBOUND' (the pseudo-definition present at ENTRY for
    every local that is not a parameter)."""

    def __init__(self, cfg, param_names):
        self.cfg = cfg
        self.params = list(param_names)
        self.locals = set(self.params)
        for n in cfg.nodes:
            if n in (ENTRY, EXIT):
                continue
            self.locals.update(stmt_defs(n))
        self.IN = {}
        self.OUT = {}
        self._solve()

    def _gen(self, n):
        return stmt_defs(n)

    def _solve(self):
        cfg = self.cfg
        entry = set()
        for v in self.locals:
            entry.add((v, 'PARAM' if v in self.params else 'UNBOUND'))
        IN = {n: set() for n in cfg.nodes}
        OUT = {n: set() for n in cfg.nodes}
        OUT[ENTRY] = entry
        work = [n for n in cfg.nodes if n != ENTRY]
        while work:
            n = work.pop(0)
            new_in = set()
            for p in cfg.pred.get(n, []):
                new_in |= OUT[p]
            gen = self._gen(n) if n not in (ENTRY, EXIT) else []
            if gen:
                g = set(gen)
                new_out = {d for d in new_in if d[0] not in g}
                for v in g:
                    new_out.add((v, n))
            else:
                new_out = new_in
            IN[n] = new_in
            if new_out != OUT[n]:
                OUT[n] = new_out
                for s in cfg.succ.get(n, []):
                    if s not in work:
                        work.append(s)
        self.IN, self.OUT = IN, OUT

    def defs_at(self, stmt, name):
        """Definition sites of `name` that reach the *use* side of stmt."""
        return {site for (v, site) in self.IN.get(stmt, ()) if v == name}

    def defs_after(self, stmt, name):
        return {site for (v, site) in self.OUT.get(stmt, ()) if v == name}

    def possibly_unbound(self, stmt, name):
        return 'UNBOUND' in self.defs_at(stmt, name)

    def single_def(self, stmt, name):
        d = self.defs_at(stmt, name)
        if len(d) == 1:
            return next(iter(d))
        return None


class FuncInfo:
    """CFG + reaching definitions + a node->statement index for a function."""

    def __init__(self, mod, fn):
        from .core import params
        self.mod = mod
        self.fn = fn
        self.cfg = CFG(fn)
        self.rd = ReachingDefs(self.cfg, params(fn))
        self.stmt_of = {}
        for s in self.cfg.nodes:
            if s in (ENTRY, EXIT):
                continue
            for e in header_exprs(s):
                for n in walk_expr(e):
                    self.stmt_of.setdefault(n, s)
            self.stmt_of[s] = s

    def stmt(self, node):
        s = self.stmt_of.get(node)
        if s is None:
            s = self.mod.enclosing_stmt(node)
            while s is not None and s not in self.cfg.succ:
                s = self.mod.enclosing_stmt(self.mod.parent.get(s))
        return s

    def defs_of_use(self, name_node):
        """Definition sites reaching a Name(Load) node."""
        s = self.stmt(name_node)
        return self.rd.defs_at(s, name_node.id)

    def same_value(self, a, b):
        """Two Name uses denote the same value on every execution: they are
        reached by the same set of definitions and no definition of the
        name can execute between the two uses."""
        if not (isinstance(a, ast.Name) and isinstance(b, ast.Name)):
            return False
        if a.id != b.id:
            return False
        da, db = self.defs_of_use(a), self.defs_of_use(b)
        if not da or da != db or 'UNBOUND' in da:
            return False
        if len(da) == 1:
            return True
        sa, sb = self.stmt(a), self.stmt(b)
        if sa is sb:
            return True
        sites = [d for d in da if d not in ('PARAM', 'UNBOUND')]
        for x, y in ((sa, sb), (sb, sa)):
            if not self.cfg.reachable(x, y):
                continue
            # is some definition site on a path x -> y ?
            for d in sites:
                if d is x or d is y:
                    # the use statement itself redefines the name
                    if d is x and d is not y:
                        return False
                    continue
                if self.cfg.reachable(x, d, avoiding=[y]) and \
                        self.cfg.reachable(d, y, avoiding=[x]):
                    return False
        return True

    def def_value(self, site, name):
        """The expression assigned to `name` at a definition site, if simple."""
        if isinstance(site, ast.Assign):
            for t in site.targets:
                if isinstance(t, ast.Name) and t.id == name:
                    return site.value
                if isinstance(t, (ast.Tuple, ast.List)) and isinstance(
                        site.value, (ast.Tuple, ast.List)) and len(
                            t.elts) == len(site.value.elts):
                    for te, ve in zip(t.elts, site.value.elts):
                        if isinstance(te, ast.Name) and te.id == name:
                            return ve
        if isinstance(site, ast.AnnAssign) and isinstance(
                site.target, ast.Name) and site.target.id == name:
            return site.value
        return None

    def resolve(self, expr, depth=6):
        """Follow single-definition Name chains: returns the defining
        expression (or the expr itself)."""
        seen = 0
        while isinstance(expr, ast.Name) and seen < depth:
            defs = self.defs_of_use(expr)
            if len(defs) != 1:
                break
            site = next(iter(defs))
            if site in ('PARAM', 'UNBOUND'):
                break
            v = self.def_value(site, expr.id)
            if v is None:
                break
            expr = v
            seen += 1
        return expr

    # ---- expansion of temporaries (recognition modulo naming of sub-expressions)
    def _mutation_sites(self):
        if getattr(self, '_muts', None) is None:
            from .normal import _mutated_names
            muts = {}
            for s in self.cfg.nodes:
                if s in (ENTRY, EXIT) or isinstance(s, Assume):
                    continue
                if isinstance(s, (ast.Assign, ast.AugAssign, ast.AnnAssign, ast.Expr, ast.Delete, ast.Return)):
                    for _, nm in _mutated_names([s]):
                        # plain rebinding of a Name is tracked by reaching definitions
                        muts.setdefault(nm, []).append(s)
            self._muts = muts
        return self._muts

    def _module_aliases(self):
        """Names bound by `import x [as y]` at module level and not rebound in this function."""
        al = getattr(self, '_mod_aliases', None)
        if al is None:
            al = set()
            for n in self.mod.tree.body:
                if isinstance(n, ast.Import):
                    for a in n.names:
                        al.add((a.asname or a.name).split('.')[0])
            for n in ast.walk(self.fn):
                if isinstance(n, ast.Name) and isinstance(n.ctx, (ast.Store, ast.Del)) and n.id in al:
                    al.discard(n.id)
                elif isinstance(n, ast.arg) and n.arg in al:
                    al.discard(n.arg)
            self._mod_aliases = al
        return al

    def _mutated_in_place(self, name):
        """Statements that mutate the object bound to `name` in place
        (subscript/attribute stores, augmented stores, mutating methods, out=)."""
        out = []
        if name in self._module_aliases():
            return out      # np.append(...) / np.sort(...) are functions of a module, not methods of an object
        for s in self._mutation_sites().get(name, []):
            plain = False
            if isinstance(s, ast.Assign):
                plain = all(isinstance(t, ast.Name) or (isinstance(t, (ast.Tuple, ast.List)) and all(
                    isinstance(e, ast.Name) for e in t.elts)) for t in s.targets)
                if plain:
                    # still in place if a MUTATING method of the object is called in the value
                    from .normal import MUTATING_METHODS
                    plain = not any(isinstance(c, ast.Call) and isinstance(c.func, ast.Attribute) and
                                    c.func.attr in MUTATING_METHODS and
                                    isinstance(c.func.value, ast.Name) and c.func.value.id == name for c in ast.walk(s.value))
                    if plain:
                        plain = not any(isinstance(c, ast.Call) and any(
                            k.arg == 'out' and isinstance(k.value, ast.Name) and k.value.id == name for k in c.keywords)
                            for c in ast.walk(s.value))
            elif isinstance(s, ast.AnnAssign):
                plain = isinstance(s.target, ast.Name)
            elif isinstance(s, ast.AugAssign):
                # `x op= v` on a bare name is tracked as a definition of x by
                # the reaching-definitions analysis
                plain = isinstance(s.target, ast.Name)
            if not plain:
                out.append(s)
        return out

    def temp_value(self, name_node, strict=True, stop=(), allow_self=False):
        """If the Name use denotes a temporary - exactly one reaching
        definition `name = <pure expression>`, the object is never mutated in
        place, and no operand of the expression is rebound or mutated between
        the definition and the use - return the defining expression."""
        from .normal import is_pure
        if not isinstance(name_node, ast.Name) or not isinstance(name_node.ctx, ast.Load):
            return None
        try:
            defs = self.defs_of_use(name_node)
        except Exception:
            return None
        if len(defs) != 1:
            return None
        site = next(iter(defs))
        if site in ('PARAM', 'UNBOUND') or not isinstance(site, (ast.Assign, ast.AnnAssign)):
            return None
        v = self.def_value(site, name_node.id)
        if v is None or isinstance(v, ast.GeneratorExp) or not is_pure(v):
            return None
        if self._mutated_in_place(name_node.id):
            return self._grown_list(name_node, site, v, stop)
        use = self.stmt(name_node)
        in_iter = isinstance(use, (ast.For, ast.AsyncFor)) and any(n is name_node for n in ast.walk(use.iter))
        for m in walk_expr(v):
            if not (isinstance(m, ast.Name) and isinstance(m.ctx, ast.Load)):
                continue
            if allow_self and m.id == name_node.id and not isinstance(use, (ast.For, ast.While, ast.AsyncFor)) \
                    and not self._in_loop_with(site, use):
                # `x = E(x)`: the inner x denotes the PREVIOUS value; the caller (expand) expands it at the
                # definition site and gives up unless it disappears from the result
                continue
            if self.rd.defs_at(site, m.id) != self.rd.defs_at(use, m.id):
                return None
            for ms in (self._mutated_in_place(m.id) if strict else []):
                if ms is use or ms is site:
                    continue
                # a mutation that can execute after the definition and before
                # (some execution of) the use: also one placed after the use in a
                # loop body when the definition sits before the loop
                if in_iter and self._within(ms, use):
                    continue        # the iterable of a for loop is evaluated once, before its body runs
                if self.cfg.reachable(site, ms) and self.cfg.reachable(ms, use, avoiding=[site]):
                    return None
        return v

    def _grown_list(self, name_node, site, v, stop=()):
        """`L = []` followed by ONE loop `for T in IT: [if c:] L.append(E)` that is the only mutation of
        L denotes, at a use the loop dominates, the comprehension `[E for T in IT [if c]]` (the same
        side conditions as for any temporary: pure parts, operands unchanged between loop and use)."""
        from .normal import is_pure
        name = name_node.id
        if not ((isinstance(v, ast.List) and not v.elts) or (isinstance(v, ast.Call) and isinstance(v.func, ast.Name)
                                                            and v.func.id == 'list' and not v.args and not v.keywords)):
            return None
        muts = list(self._mutated_in_place(name))
        if len(muts) != 1:
            return None
        st = muts[0]
        if not (isinstance(st, ast.Expr) and isinstance(st.value, ast.Call) and isinstance(st.value.func, ast.Attribute)
                and st.value.func.attr == 'append' and isinstance(st.value.func.value, ast.Name)
                and st.value.func.value.id == name and len(st.value.args) == 1 and not st.value.keywords
                and not isinstance(st.value.args[0], ast.Starred)):
            return None
        par = self.mod.parent
        cond = None
        holder = par.get(st)
        if isinstance(holder, ast.If) and not holder.orelse and holder.body and holder.body[-1] is st:
            cond = holder.test
            inner = holder
            holder = par.get(holder)
        else:
            inner = st
        loop = holder
        if not (isinstance(loop, ast.For) and not loop.orelse and loop.body and loop.body[-1] is inner):
            return None
        if par.get(loop) is not par.get(site):
            return None
        for n in ast.walk(loop):
            if isinstance(n, (ast.Break, ast.Continue, ast.Return, ast.Yield, ast.YieldFrom)):
                return None
        # the statements before the append may only define pure temporaries
        pre = loop.body[:-1] + (inner.body[:-1] if inner is not st else [])
        for q in pre:
            if not (isinstance(q, ast.Assign) and len(q.targets) == 1 and isinstance(q.targets[0], ast.Name) and is_pure(q.value)):
                return None
        use = self.stmt(name_node)
        if use is None or self._within(use, loop) or use is loop or not self.cfg.dominates(loop, use):
            return None
        tn = set(target_names(loop.target))
        elt = self.expand(st.value.args[0], stop=tuple(tn) + tuple(stop))
        test = self.expand(cond, stop=tuple(tn) + tuple(stop)) if cond is not None else None
        it = loop.iter
        local = {q.targets[0].id for q in pre}
        for part in [elt, it] + ([test] if test is not None else []):
            if not is_pure(part):
                return None
            for m in walk_expr(part):
                if isinstance(m, ast.Name):
                    if m.id == name or m.id in local:
                        return None
                    if m.id in tn:
                        if part is it:
                            return None
                        continue
                    if self.rd.defs_at(loop, m.id) != self.rd.defs_at(use, m.id):
                        return None
                    for ms in self._mutated_in_place(m.id):
                        if self.cfg.reachable(loop, ms) and self.cfg.reachable(ms, use):
                            return None
        for t in tn:
            # the loop variable must not be read after the loop (a comprehension keeps it private)
            for n in ast.walk(self.fn):
                if isinstance(n, ast.Name) and n.id == t and isinstance(n.ctx, ast.Load) and not self._within(n, loop):
                    return None
        # the ORIGINAL element / filter nodes are returned: whoever expands further (fi.expand or a rule's
        # own walker with its own set of names to keep) decides what is expanded inside
        comp = ast.ListComp(elt=st.value.args[0], generators=[ast.comprehension(
            target=loop.target, iter=it, ifs=[cond] if cond is not None else [], is_async=0)])
        return ast.copy_location(comp, st)

    def _in_loop_with(self, site, use):
        """site sits in a loop (so its own result may reach it again)."""
        p = self.mod.parent.get(site)
        while p is not None and p is not self.fn:
            if isinstance(p, (ast.For, ast.While, ast.AsyncFor)):
                return True
            p = self.mod.parent.get(p)
        return False

    def _within(self, node, outer):
        p = self.mod.parent.get(node)
        while p is not None:
            if p is outer:
                return True
            p = self.mod.parent.get(p)
        return False

    def expand(self, expr, depth=8, stop=(), strict=True):
        """A copy of `expr` in which every temporary (see temp_value) is
        replaced by its defining expression, recursively.  Two spellings of a
        computation that differ only in which sub-expressions were given names
        expand to the same tree.  Names in `stop` are left alone.  With
        strict=False an in-place mutation of an operand between definition and
        use is tolerated (the expansion then denotes the value at definition
        time; use only to compare two uses of the same temporary)."""
        import copy as _copy

        def ex(e, d):
            if isinstance(e, ast.Name):
                if d > 0 and e.id not in stop and isinstance(e.ctx, ast.Load):
                    v = self.temp_value(e, strict, stop, allow_self=True)
                    if v is not None:
                        r = ex(v, d - 1)
                        if any(isinstance(n, ast.Name) and n.id == e.id for n in ast.walk(v)) and \
                                any(isinstance(n, ast.Name) and n.id == e.id for n in ast.walk(r)):
                            # a self-rebinding chain `x = E(x)` that does not bottom out in other names:
                            # keep the name (its text would otherwise denote two different values)
                            return ast.copy_location(ast.Name(id=e.id, ctx=e.ctx), e)
                        return r
                return ast.copy_location(ast.Name(id=e.id, ctx=e.ctx), e)
            if not isinstance(e, ast.AST):
                return e
            if isinstance(e, (ast.expr_context, ast.operator, ast.unaryop, ast.boolop, ast.cmpop)):
                return e
            if isinstance(e, ast.Call) and getattr(e, '_from_np_array', False) and isinstance(e.func, ast.Attribute) \
                    and isinstance(e.func.value, ast.Name):
                # `name.copy()` that the front end spelled from np.array(name): once the
                # name is expanded to a non-name expression, spell it np.array(<expr>) again
                inner = ex(e.func.value, d)
                if not isinstance(inner, ast.Name):
                    return ast.copy_location(ast.Call(
                        func=ast.Attribute(value=ast.Name(id='np', ctx=ast.Load()), attr='array', ctx=ast.Load()),
                        args=[inner], keywords=[]), e)
            new = type(e)()
            for f in e._fields:
                val = getattr(e, f, None)
                if isinstance(val, list):
                    setattr(new, f, [ex(x, d) for x in val])
                elif isinstance(val, ast.AST):
                    setattr(new, f, ex(val, d))
                else:
                    setattr(new, f, val)
            for a in ('lineno', 'col_offset', 'end_lineno', 'end_col_offset', '_from_np_array', '_canon_origin'):
                if hasattr(e, a):
                    setattr(new, a, getattr(e, a))
            return new
        return ex(expr, depth)

    def xu(self, expr, stop=(), strict=True):
        """Canonical text of the expanded expression."""
        from .match import canon
        from .core import u
        n = canon(self.expand(expr, stop=stop, strict=strict))
        return u(n)

    def derives_from(self, expr, depth=8):
        """Backward slice: the set of parameter names and free names the
        value of expr may be computed from, and the call names on the way."""
        params_seen = set()
        calls = set()
        seen = set()

        def visit(e, d):
            for n in walk_expr(e):
                if isinstance(n, ast.Call):
                    from .core import call_name
                    cn = call_name(n)
                    if cn:
                        calls.add(cn)
                if isinstance(n, ast.Name) and isinstance(n.ctx, ast.Load):
                    if n in self.stmt_of or True:
                        try:
                            defs = self.defs_of_use(n)
                        except Exception:
                            defs = set()
                    for site in defs:
                        if site == 'PARAM':
                            params_seen.add(n.id)
                        elif site == 'UNBOUND':
                            pass
                        else:
                            key = (id(site), n.id)
                            if key in seen or d <= 0:
                                continue
                            seen.add(key)
                            v = self.def_value(site, n.id)
                            if v is not None:
                                visit(v, d - 1)
                            else:
                                for e2 in header_exprs(site):
                                    if isinstance(site, (ast.Assign, ast.AugAssign)) \
                                            and e2 in getattr(site, 'targets', [getattr(site, 'target', None)]):
                                        continue
                                    visit(e2, d - 1)
                    if not defs:
                        params_seen.add('<free>' + n.id)
        visit(expr, depth)
        return params_seen, calls

"""A7 (formula part): lift scalar arithmetic from the source into sympy
expressions for canonical comparison.  sympy is used only to expand /
cancel closed-form expressions, never to solve path conditions."""
import ast
import glob
import os
import sys

from .core import AnalysisIncomplete, call_name, u

_sympy = None


def sympy():
    global _sympy
    if _sympy is not None:
        return _sympy
    try:
        import sympy as sp
    except ImportError:
        here = os.path.dirname(os.path.dirname(os.path.abspath(__file__)))
        deps = os.path.join(here, '.deps')
        if os.path.isdir(os.path.join(deps, 'sympy')):
            sys.path.insert(0, deps)
        else:
            for pat in ('mpmath-*.whl', 'sympy-*.whl'):
                for w in sorted(glob.glob(os.path.join('/opt/veriftools/wheels', pat))):
                    sys.path.insert(0, w)
        try:
            import sympy as sp
        except ImportError as e:
            raise AnalysisIncomplete('sympy is not available (%s): run MANIFEST.setup_cmd' % e)
    _sympy = sp
    return sp


FUNCS = {'sqrt': 'sqrt', 'np.sqrt': 'sqrt', 'math.sqrt': 'sqrt',
         'np.log': 'LOG', 'log': 'LOG', 'log10': 'LOG', 'math.log': 'LOG',
         'np.log10': 'LOG', 'abs': 'Abs', 'fabs': 'Abs', 'np.abs': 'Abs'}


def lift(e, env=None, rename=None):
    """ast expression -> sympy expression.  Subscripts/names become symbols;
    `rename` maps source text to canonical text (e.g. 'len(C)' -> 'n')."""
    sp = sympy()
    env = env or {}
    rename = rename or {}

    def sym(text):
        text = rename.get(text, text)
        return sp.Symbol(text.replace(' ', ''), real=True)

    def go(n):
        if isinstance(n, ast.Constant) and isinstance(n.value, (int, float)) \
                and not isinstance(n.value, bool):
            return sp.Integer(n.value) if isinstance(n.value, int) else sp.Float(n.value)
        if isinstance(n, ast.Name):
            if n.id in env:
                return env[n.id]
            return sym(n.id)
        if isinstance(n, ast.Subscript):
            base = u(n.value)
            idx = n.slice.elts if isinstance(n.slice, ast.Tuple) else [n.slice]
            return sym('%s[%s]' % (rename.get(base, base), ','.join(rename.get(u(i), u(i)) for i in idx)))
        if isinstance(n, ast.Attribute):
            return sym(u(n))
        if isinstance(n, ast.UnaryOp):
            v = go(n.operand)
            if isinstance(n.op, ast.USub):
                return -v
            if isinstance(n.op, ast.UAdd):
                return v
        if isinstance(n, ast.BinOp):
            a, b = go(n.left), go(n.right)
            if isinstance(n.op, ast.Add):
                return a + b
            if isinstance(n.op, ast.Sub):
                return a - b
            if isinstance(n.op, ast.Mult):
                return a * b
            if isinstance(n.op, ast.Div):
                return a / b
            if isinstance(n.op, ast.Pow):
                return a ** b
        if isinstance(n, ast.Call):
            cn = call_name(n) or ''
            if cn in FUNCS and len(n.args) == 1:
                f = FUNCS[cn]
                if f == 'sqrt':
                    return sp.sqrt(go(n.args[0]))
                if f == 'Abs':
                    return sp.Abs(go(n.args[0]))
                return sp.Function('LOG')(go(n.args[0]))
            if u(n) in rename:
                return sym(u(n))
        raise AnalysisIncomplete('expression outside the lifted vocabulary: %s' % u(n))
    return go(e)


def equal(a, b):
    sp = sympy()
    d = sp.simplify(sp.expand(a - b))
    return d == 0


def parse(text, rename=None):
    return lift(ast.parse(text, mode='eval').body, rename=rename)

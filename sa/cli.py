"""./check <ID|all|replay|selftest|list> [--tier quick|thorough]"""
import argparse
import importlib
import json
import os
import sys
import time
import traceback

from .core import AnalysisIncomplete, Repo
from .report import Checker, VERIF

PIDS = ['C%02d' % i for i in range(1, 21)]


def run_property(pid, tier, repo=None, quiet=False):
    seed = int(os.environ.get('VERIF_SEED', '0') or 0)
    try:
        repo = repo or Repo()
        ck = Checker(pid, tier, repo, seed)
        mod = importlib.import_module('sa.rules.%s' % pid)
        try:
            explanation = mod.check(ck)
        except AnalysisIncomplete as e:
            ck.incomplete.append(str(e))
            explanation = getattr(mod, 'EXPLANATION', '') or str(e)
        if tier == 'thorough' and os.environ.get('VERIF_SELFVALIDATION', '1') != '0':
            try:
                from . import thorough
                thorough.run(ck, jobs=int(os.environ.get('VERIF_JOBS', '16')))
            except Exception as e:      # self-validation must never decide the verdict
                ck.notes['thorough'] = {'error': repr(e)}
        ck.finish(explanation or getattr(mod, 'EXPLANATION', ''))
        return ck.verdict()
    except AnalysisIncomplete as e:
        print('ANALYSIS-INCOMPLETE property=%s %s' % (pid, e))
        return 2
    except Exception:
        print('ANALYSIS-ERROR property=%s' % pid)
        traceback.print_exc()
        return 2


def main(argv=None):
    ap = argparse.ArgumentParser(prog='check')
    ap.add_argument('what')
    ap.add_argument('path', nargs='?')
    ap.add_argument('--tier', default=os.environ.get('VERIF_TIER', 'quick'),
                    choices=['quick', 'thorough'])
    ap.add_argument('--replay', default=None)
    ap.add_argument('--jobs', type=int, default=16)
    args = ap.parse_args(argv)

    if args.what == 'list':
        print(' '.join(PIDS))
        return 0
    if args.what == 'replay' or args.replay:
        path = args.replay or args.path
        if not os.path.isabs(path):
            path = os.path.join(VERIF, path)
        with open(path) as f:
            rec = json.load(f)
        pid = rec['property']
        print('replaying %s: rule=%s construct=%s' % (
            pid, rec['violation']['rule'], rec['violation']['construct']))
        return run_property(pid, rec.get('tier', 'quick'))
    if args.what == 'selftest':
        from . import selftest
        return selftest.main(args)
    if args.what == 'all':
        repo = Repo()
        worst = 0
        for pid in PIDS:
            code = run_property(pid, args.tier, repo)
            worst = max(worst, code) if code != 1 and worst != 1 else 1
        return worst
    pid = args.what.upper()
    if pid not in PIDS:
        print('unknown property %s' % pid)
        return 2
    return run_property(pid, args.tier)


if __name__ == '__main__':
    sys.exit(main())

"""Inlining of small private helpers (front-end normalisation).

"Extract a private helper" / "inline a helper" is one of the commonest
behaviour-preserving restructurings.  Rules that look at one function at a
time then find their anchors gone.  This pass undoes the extraction: a call
to a module-level private function (or a private method called on `self`)
that does NOT exist in the reference snapshot is replaced by the helper's
body, when that can be done faithfully:

  * the call is a whole statement (`h(..)`), the whole right-hand side of a
    simple assignment (`x = h(..)`, `a, b = h(..)`), the whole value of a
    `return`, or - for helpers whose body is a single `return <expr>` - any
    sub-expression;
  * the helper takes no *args/**kwargs, is not a generator, is not recursive,
    and every `return` of it is in tail position of its if/else structure
    (no return inside a loop/try/with);
  * arguments bind to parameters positionally / by keyword / by default; a
    parameter that the helper never rebinds and whose argument is a plain
    name or constant is substituted directly, otherwise it becomes a fresh
    temporary assigned before the body (evaluation order of the arguments
    is preserved);
  * the helper's other locals are renamed apart (suffix `__iN`); inlining is
    refused if a free name of the helper is a local of the caller.

The result has the same behaviour as the call for every input (the usual
inlining argument; exceptions, side effects and their order are unchanged
because statements are copied verbatim and arguments are evaluated first,
in order).  The pass never decides a verdict: it only changes the spelling
the rules get to see, and what was inlined is listed in the evidence.
"""
import ast
import copy

from .core import params


class _Refuse(Exception):
    pass


def _is_docstring(s):
    return isinstance(s, ast.Expr) and isinstance(s.value, ast.Constant) and isinstance(s.value.value, str)


def _body(fn):
    return [s for i, s in enumerate(fn.body) if not (i == 0 and _is_docstring(s))]


def _has_yield(fn):
    for n in ast.walk(fn):
        if isinstance(n, (ast.Yield, ast.YieldFrom, ast.Await)):
            return True
    return False


def _assigned_names(fn):
    out = set()
    for n in ast.walk(fn):
        if isinstance(n, (ast.FunctionDef, ast.AsyncFunctionDef, ast.Lambda)) and n is not fn:
            continue
        if isinstance(n, ast.Name) and isinstance(n.ctx, (ast.Store, ast.Del)):
            out.add(n.id)
        elif isinstance(n, ast.ExceptHandler) and n.name:
            out.add(n.name)
        elif isinstance(n, (ast.Import, ast.ImportFrom)):
            for a in n.names:
                out.add((a.asname or a.name).split('.')[0])
        elif isinstance(n, (ast.Global, ast.Nonlocal)):
            raise _Refuse('global/nonlocal in helper')
    return out


def _loaded_names(node):
    return {n.id for n in ast.walk(node) if isinstance(n, ast.Name) and isinstance(n.ctx, ast.Load)}


def _returns_in_tail_only(stmts):
    """Every Return is the last statement of the list or of an if/else arm in
    tail position."""
    for i, s in enumerate(stmts):
        last = i == len(stmts) - 1
        if isinstance(s, ast.Return):
            if not last:
                return False
            continue
        if isinstance(s, (ast.With, ast.AsyncWith)) and last and any(isinstance(n, ast.Return) for n in ast.walk(s)):
            if not _returns_in_tail_only(s.body):
                return False
            continue
        if isinstance(s, ast.If):
            has_ret = any(isinstance(n, ast.Return) for n in ast.walk(s))
            if not has_ret:
                continue
            # a returning `if` is fine when the rest of the list can become its else-arm
            if not _returns_in_tail_only(s.body):
                return False
            if s.orelse and not _returns_in_tail_only(s.orelse):
                return False
            # body must END in return if anything follows and body contains a return
            continue
        if any(isinstance(n, ast.Return) for n in ast.walk(s) if not isinstance(n, (ast.FunctionDef, ast.Lambda))):
            return False
    return True


def _ends(stmts):
    """Does every path through stmts end in return/raise?"""
    if not stmts:
        return False
    s = stmts[-1]
    if isinstance(s, (ast.Return, ast.Raise)):
        return True
    if isinstance(s, ast.If) and s.orelse:
        return _ends(s.body) and _ends(s.orelse)
    if isinstance(s, (ast.With, ast.AsyncWith)):
        return _ends(s.body)
    return False


def _rewrite_returns(stmts, make_result):
    """Turn tail returns into `make_result(expr)` statements; a returning
    `if` without else that is followed by more statements takes them as its
    else-arm (guard-clause form)."""
    out = []
    for i, s in enumerate(stmts):
        rest = stmts[i + 1:]
        if isinstance(s, ast.Return):
            out.extend(make_result(s.value))
            return out
        if isinstance(s, (ast.With, ast.AsyncWith)) and any(isinstance(n, ast.Return) for n in ast.walk(s)):
            new = copy.copy(s)
            new.body = _rewrite_returns(s.body, make_result) or [ast.Pass()]
            out.append(new)
            if rest:
                raise _Refuse('statements after a returning with-block')
            return out
        if isinstance(s, ast.If) and any(isinstance(n, ast.Return) for n in ast.walk(s)):
            body_ends = _ends(s.body)
            new = copy.copy(s)
            new.body = _rewrite_returns(s.body, make_result) or [ast.Pass()]
            if s.orelse:
                else_ends = _ends(s.orelse)
                new.orelse = _rewrite_returns(s.orelse, make_result)
                if rest:
                    if body_ends and else_ends:
                        out.append(new)
                        return out
                    if body_ends and not else_ends:
                        new.orelse = new.orelse + _rewrite_returns(rest, make_result)
                        out.append(new)
                        return out
                    if else_ends and not body_ends:
                        new.body = (new.body if not (len(new.body) == 1 and isinstance(new.body[0], ast.Pass)) else []) + \
                            _rewrite_returns(rest, make_result)
                        out.append(new)
                        return out
                    raise _Refuse('return in a non-terminating arm followed by statements')
                out.append(new)
                continue
            if rest:
                if not body_ends:
                    raise _Refuse('conditional return that does not end its arm')
                new.orelse = _rewrite_returns(rest, make_result)
                out.append(new)
                return out
            out.append(new)
            continue
        out.append(s)
    return out


class _RenameLocals(ast.NodeTransformer):
    def __init__(self, mapping, subst):
        self.mapping = mapping        # local name -> fresh name
        self.subst = subst            # param name -> expression (Name/Constant/Attribute) substituted directly

    def visit_Name(self, node):
        if node.id in self.subst and isinstance(node.ctx, ast.Load):
            return ast.copy_location(copy.deepcopy(self.subst[node.id]), node)
        if node.id in self.mapping:
            return ast.copy_location(ast.Name(id=self.mapping[node.id], ctx=node.ctx), node)
        return node

    def visit_ExceptHandler(self, node):
        if node.name and node.name in self.mapping:
            node.name = self.mapping[node.name]
        self.generic_visit(node)
        return node

    def visit_FunctionDef(self, node):
        return node            # nested defs keep their own scope (refused earlier if they capture renamed names)

    visit_AsyncFunctionDef = visit_FunctionDef

    def visit_Lambda(self, node):
        inner = set(params(node))
        sub = _RenameLocals({k: v for k, v in self.mapping.items() if k not in inner},
                            {k: v for k, v in self.subst.items() if k not in inner})
        node.body = sub.visit(node.body)
        return node


def _bind(helper, call, is_method):
    a = helper.args
    if a.vararg or a.kwarg or a.posonlyargs:
        raise _Refuse('*args/**kwargs/positional-only')
    names = [x.arg for x in a.args]
    if is_method:
        names = names[1:]
    if any(isinstance(x, ast.Starred) for x in call.args) or any(k.arg is None for k in call.keywords):
        raise _Refuse('star arguments at the call')
    bound = {}
    order = []
    if len(call.args) > len(names):
        raise _Refuse('too many positional arguments')
    for nm, arg in zip(names, call.args):
        bound[nm] = arg
        order.append(nm)
    kwonly = [x.arg for x in a.kwonlyargs]
    for k in call.keywords:
        if k.arg in bound or (k.arg not in names and k.arg not in kwonly):
            raise _Refuse('bad keyword %s' % k.arg)
        bound[k.arg] = k.value
        order.append(k.arg)
    defaults = dict(zip(names[len(names) - len(a.defaults):] if not is_method else [x.arg for x in a.args][len(a.args) - len(a.defaults):], a.defaults))
    for nm in names:
        if nm not in bound:
            if nm in defaults:
                bound[nm] = defaults[nm]
                order.append(nm)
            else:
                raise _Refuse('missing argument %s' % nm)
    for nm, d in zip(kwonly, a.kw_defaults):
        if nm not in bound:
            if d is None:
                raise _Refuse('missing keyword-only argument %s' % nm)
            bound[nm] = d
            order.append(nm)
    return bound, order


_counter = [0]


def expand_call(helper, call, caller_locals, is_method=False, receiver=None, result_name=None, pure_direct=False, any_returns=False):
    """(prelude statements, body statements with `return e` rewritten through
    `make_result`, result-expression-or-None).  The caller decides what to do
    with the result."""
    if _has_yield(helper):
        raise _Refuse('generator')
    if helper.decorator_list and not (len(helper.decorator_list) == 1 and u_(helper.decorator_list[0]) == 'staticmethod'
                                      and not is_method):
        raise _Refuse('decorated helper')
    body = copy.deepcopy(_body(helper))
    if not any_returns and not _returns_in_tail_only(body):
        raise _Refuse('return not in tail position')
    for n in ast.walk(helper):
        if isinstance(n, ast.Call) and isinstance(n.func, ast.Name) and n.func.id == helper.name:
            raise _Refuse('recursive helper')
        if isinstance(n, (ast.FunctionDef, ast.AsyncFunctionDef, ast.ClassDef)) and n is not helper:
            raise _Refuse('nested definition in helper')
    bound, order = _bind(helper, call, is_method)
    hparams = set(params(helper))
    locs = _assigned_names(helper)
    free = _loaded_names(helper) - locs - hparams
    if free & caller_locals:
        raise _Refuse('free name of the helper is a local of the caller: %s' % sorted(free & caller_locals)[:3])
    _counter[0] += 1
    tag = '__i%d' % _counter[0]
    rebound = {p for p in hparams if p in locs}
    subst = {}
    prelude = []
    mapping = {l: l + tag for l in locs if l not in hparams}
    if result_name is not None:
        # `T = h(..)` where h returns its local R: build the result under the name T directly
        # (no alias `T = R__iN` is left behind), when that cannot capture anything
        rets = [n.value for n in ast.walk(helper) if isinstance(n, ast.Return) and n.value is not None]
        rnames = {r.id for r in rets if isinstance(r, ast.Name)}
        arg_names = set()
        for a in list(call.args) + [k.value for k in call.keywords]:
            arg_names |= _loaded_names(a)
        if len(rnames) == 1:
            R = next(iter(rnames))
            if R in locs and R not in hparams and result_name not in free and result_name not in arg_names \
                    and (result_name not in locs or result_name == R) and result_name not in hparams:
                mapping[R] = result_name
    if is_method:
        selfname = helper.args.args[0].arg
        if selfname in rebound or not isinstance(receiver, ast.Name):
            raise _Refuse('method receiver')
        subst[selfname] = receiver
    for p in order:
        arg = bound[p]
        simple = isinstance(arg, (ast.Name, ast.Constant)) or (
            isinstance(arg, ast.Attribute) and isinstance(arg.value, ast.Name) and arg.value.id in ('self', 'np'))
        if not simple and pure_direct:
            # a pure argument may be written where the parameter stood (single-expression helpers in
            # positions that cannot take a prelude: loop/branch headers, comprehensions)
            from .normal import is_pure
            simple = is_pure(arg) and not (_loaded_names(arg) & (locs | set(mapping)))
        if p not in rebound and simple and not (isinstance(arg, ast.Name) and arg.id in locs):
            subst[p] = arg
        else:
            fresh = p + tag
            mapping[p] = fresh
            prelude.append(ast.copy_location(ast.Assign(targets=[ast.Name(id=fresh, ctx=ast.Store())], value=copy.deepcopy(arg)), call))
    # a directly substituted Name argument must not be rebound inside the helper body under another role
    rn = _RenameLocals(mapping, subst)
    body = [rn.visit(s) for s in body]
    return prelude, body, tag


def _single_expr_helper(helper):
    b = _body(helper)
    return len(b) == 1 and isinstance(b[0], ast.Return) and b[0].value is not None


class Inliner:
    """Inline calls to the functions in `helpers` ({name: FunctionDef} for
    module-level helpers, {(class, name): FunctionDef} for private methods)
    inside one function."""

    def __init__(self, helpers, methods=None, cls=None):
        self.helpers = helpers
        self.methods = methods or {}
        self.cls = cls
        self.done = []

    def _target(self, call):
        if isinstance(call.func, ast.Name) and call.func.id in self.helpers:
            return self.helpers[call.func.id], False, None
        if isinstance(call.func, ast.Attribute) and isinstance(call.func.value, ast.Name) and self.cls is not None \
                and (self.cls, call.func.attr) in self.methods and call.func.value.id in ('self', 'cls'):
            h = self.methods[(self.cls, call.func.attr)]
            if [u_(d) for d in h.decorator_list] == ['staticmethod']:
                # self._h(x) of a @staticmethod is the plain function call _h(x)
                return h, False, None
            if any(u_(d) in ('staticmethod', 'classmethod', 'property') for d in h.decorator_list):
                return None
            return h, True, call.func.value
        return None

    def run(self, fn, depth=3):
        changed_any = False
        for _ in range(depth):
            caller_locals = _assigned_names(fn) | set(params(fn))
            new_body, changed = self._block(fn.body, caller_locals)
            if not changed:
                break
            fn.body = new_body
            changed_any = True
        if changed_any:
            ast.fix_missing_locations(fn)
        return changed_any

    def _block(self, stmts, caller_locals):
        out = []
        changed = False
        for s in stmts:
            rep = None
            try:
                rep = self._stmt(s, caller_locals)
            except _Refuse:
                rep = None
            if rep is not None:
                out.extend(rep)
                changed = True
                continue
            for f in ('body', 'orelse', 'finalbody'):
                b = getattr(s, f, None)
                if isinstance(b, list) and b and isinstance(b[0], ast.stmt) and not isinstance(s, (ast.FunctionDef, ast.AsyncFunctionDef, ast.ClassDef)):
                    nb, ch = self._block(b, caller_locals)
                    if ch:
                        setattr(s, f, nb)
                        changed = True
            if isinstance(s, ast.Try):
                for h in s.handlers:
                    nb, ch = self._block(h.body, caller_locals)
                    if ch:
                        h.body = nb
                        changed = True
            out.append(s)
        return out, changed

    def _stmt(self, s, caller_locals):
        # whole-statement forms
        call = None
        kind = None
        if isinstance(s, ast.Expr) and isinstance(s.value, ast.Call):
            call, kind = s.value, 'expr'
        elif isinstance(s, ast.Assign) and isinstance(s.value, ast.Call) and len(s.targets) == 1:
            call, kind = s.value, 'assign'
        elif isinstance(s, ast.Return) and isinstance(s.value, ast.Call):
            call, kind = s.value, 'return'
        if call is not None:
            t = self._target(call)
            if t is not None:
                helper, is_method, recv = t
                rn = s.targets[0].id if kind == 'assign' and isinstance(s.targets[0], ast.Name) else None
                # `return h(..)`: the helper's returns ARE the caller's returns, wherever they stand (early returns, returns
                # inside loops): the body is copied verbatim
                prelude, body, tag = expand_call(helper, call, caller_locals, is_method, recv, result_name=rn,
                                                 any_returns=(kind == 'return'))
                verbatim = kind == 'return' and not _returns_in_tail_only(body)
                if kind == 'return' and not verbatim:
                    try:
                        _rewrite_returns(copy.deepcopy(body), lambda e: [ast.Return(value=e)])
                    except _Refuse:
                        verbatim = True
                if verbatim:
                    if not _ends(body):
                        body = body + [ast.copy_location(ast.Return(value=None), s)]
                    self.done.append(helper.name)
                    res = _drop_self_assign(prelude + body)
                    return res or [ast.copy_location(ast.Pass(), s)]
                if kind == 'expr':
                    body = _rewrite_returns(body, lambda e: [] if e is None or isinstance(e, (ast.Constant, ast.Name)) else [ast.copy_location(ast.Expr(value=e), s)])
                elif kind == 'assign':
                    if not _ends(body):
                        raise _Refuse('helper can fall off its end while its value is used')
                    tgt = s.targets[0]
                    body = _rewrite_returns(body, lambda e: [ast.copy_location(ast.Assign(
                        targets=[copy.deepcopy(tgt)], value=e if e is not None else ast.Constant(value=None)), s)])
                else:
                    body = _rewrite_returns(body, lambda e: [ast.copy_location(ast.Return(value=e), s)])
                    if not _ends(body):
                        body = body + [ast.copy_location(ast.Return(value=None), s)]
                self.done.append(helper.name)
                res = _drop_self_assign(prelude + body)
                for n in res:
                    ast.copy_location(n, s) if not hasattr(n, 'lineno') else None
                return res or [ast.copy_location(ast.Pass(), s)]
        # single-expression helpers anywhere inside a simple statement, or in the header of a compound one
        header = None
        if isinstance(s, (ast.If, ast.While, ast.Assert)):
            header = 'test'
        elif isinstance(s, ast.For):
            header = 'iter'
        elif isinstance(s, ast.Raise) and s.exc is not None:
            header = 'exc'
        if isinstance(s, (ast.Expr, ast.Assign, ast.AugAssign, ast.Return, ast.AnnAssign)) or header:
            prel = []
            me = self

            class Sub(ast.NodeTransformer):
                strict = 0      # > 0: no prelude possible here (comprehension, lambda-free header of a while)

                def visit_Call(self, node):
                    self.generic_visit(node)
                    t = me._target(node)
                    if t is None:
                        return node
                    helper, is_method, recv = t
                    if not _single_expr_helper(helper):
                        return node
                    try:
                        prelude, body, tag = expand_call(helper, node, caller_locals, is_method, recv, pure_direct=self.strict > 0)
                    except _Refuse:
                        return node
                    if self.strict > 0 and prelude:
                        return node
                    if self.strict > 0:
                        # comprehension variables of the helper expression must not capture names of the arguments
                        hv = {n.id for c in ast.walk(body[0].value) if isinstance(c, ast.comprehension) for n in ast.walk(c.target) if isinstance(n, ast.Name)}
                        av = set()
                        for a in list(node.args) + [k.value for k in node.keywords]:
                            av |= _loaded_names(a)
                        if hv & av:
                            return node
                    prel.extend(prelude)
                    me.done.append(helper.name)
                    return ast.copy_location(body[0].value, node)

                def visit_Lambda(self, node):
                    return node

                def visit_ListComp(self, node):
                    self.strict += 1
                    try:
                        self.generic_visit(node)
                    finally:
                        self.strict -= 1
                    return node

                visit_SetComp = visit_DictComp = visit_GeneratorExp = visit_ListComp
            before = len(self.done)
            if header:
                sub = Sub()
                if isinstance(s, ast.While):
                    sub.strict = 1
                e = getattr(s, header)
                ne = sub.visit(copy.deepcopy(e))
                if len(self.done) > before:
                    s2 = copy.copy(s)
                    setattr(s2, header, ne)
                    return prel + [s2]
                return None
            new = Sub().visit(copy.deepcopy(s))
            if len(self.done) > before:
                return prel + [new]
        return None


def _drop_self_assign(stmts):
    out = []
    for s in stmts:
        if isinstance(s, ast.Assign) and len(s.targets) == 1 and isinstance(s.targets[0], ast.Name) and \
                isinstance(s.value, ast.Name) and s.value.id == s.targets[0].id:
            continue
        for f in ('body', 'orelse', 'finalbody'):
            b = getattr(s, f, None)
            if isinstance(b, list) and b and isinstance(b[0], ast.stmt) and not isinstance(s, (ast.FunctionDef, ast.AsyncFunctionDef, ast.ClassDef)):
                nb = _drop_self_assign(b)
                setattr(s, f, nb if (nb or f != 'body') else [ast.copy_location(ast.Pass(), s)])
        if isinstance(s, ast.If) and len(s.body) == 1 and isinstance(s.body[0], ast.Pass) and s.orelse:
            s.test = ast.copy_location(ast.UnaryOp(op=ast.Not(), operand=s.test), s.test)
            s.body, s.orelse = s.orelse, []
        out.append(s)
    return out


def _any_result(body, tgt):
    for n in body:
        for m in ast.walk(n):
            if isinstance(m, ast.Assign) and ast.dump(m.targets[0]) == ast.dump(tgt):
                return True
    return False


def _ends_with_assign_on_all_paths(body, tgt):
    return _any_result(body, tgt)


def u_(n):
    try:
        return ast.unparse(n)
    except Exception:
        return ''


def new_private_helpers(cur_tree, ref_tree):
    """Module-level functions and methods of cur that are private (leading
    underscore, not dunder) and absent from the reference."""
    def table(tree):
        funcs, meths = {}, {}
        for s in tree.body:
            if isinstance(s, (ast.FunctionDef, ast.AsyncFunctionDef)):
                funcs[s.name] = s
            elif isinstance(s, ast.ClassDef):
                for b in s.body:
                    if isinstance(b, (ast.FunctionDef, ast.AsyncFunctionDef)):
                        meths[(s.name, b.name)] = b
        return funcs, meths
    cf, cm = table(cur_tree)
    rf, rm = table(ref_tree)
    priv = lambda n: n.startswith('_') and not (n.startswith('__') and n.endswith('__'))
    return ({k: v for k, v in cf.items() if k not in rf and priv(k)},
            {k: v for k, v in cm.items() if k not in rm and priv(k[1])})



def _dispatch_sites(fn):
    """Call through a function-valued local: a statement list holding `if c: ...; f = h1 [elif ...] else: ...; f = h2`
    immediately followed by the single use of `f`, the statement `f(args)` / `x = f(args)` - yields
    (block, position of the if, f, [(arm statement list, helper name)])."""
    def arms_of(s):
        out = []
        while True:
            out.append(s.body)
            if len(s.orelse) == 1 and isinstance(s.orelse[0], ast.If):
                s = s.orelse[0]
                continue
            if not s.orelse:
                return None
            out.append(s.orelse)
            return out
    for node in ast.walk(fn):
        for field in ('body', 'orelse', 'finalbody'):
            blk = getattr(node, field, None)
            if not isinstance(blk, list):
                continue
            for k in range(len(blk) - 1):
                s, c = blk[k], blk[k + 1]
                if not isinstance(s, ast.If):
                    continue
                call = c.value if isinstance(c, (ast.Expr, ast.Assign)) else None
                if not (isinstance(call, ast.Call) and isinstance(call.func, ast.Name)):
                    continue
                f = call.func.id
                arms = arms_of(s)
                if arms is None:
                    continue
                hs = []
                for a in arms:
                    last = a[-1] if a else None
                    if isinstance(last, ast.Assign) and len(last.targets) == 1 and isinstance(last.targets[0], ast.Name) \
                            and last.targets[0].id == f and isinstance(last.value, ast.Name):
                        hs.append((a, last.value.id))
                uses = [n for n in ast.walk(fn) if isinstance(n, ast.Name) and n.id == f]
                if len(hs) == len(arms) and len(uses) == len(arms) + 1:
                    yield blk, k, f, hs


def devirtualise(fn, helper_names):
    """Pre-pass of the inliner (behaviour preserving): a call through a local that every arm of the immediately preceding
    if/else binds, as its last statement, to one of the new private helpers is moved into the arms as a direct call - the test
    is evaluated first, then the arguments, exactly as before, and the local has no other use.  Returns the helpers made
    directly called (the Inliner then treats them like any statement-level call)."""
    used = set()
    for blk, k, f, hs in list(_dispatch_sites(fn)):
        if not all(h in helper_names for _, h in hs):
            continue
        c = blk[k + 1]
        if any(isinstance(n, ast.Name) and n.id == f for a in list(c.value.args) + [kw.value for kw in c.value.keywords]
               for n in ast.walk(a)):
            continue
        for arm, h in hs:
            d = copy.deepcopy(c)
            d.value.func = ast.copy_location(ast.Name(id=h, ctx=ast.Load()), d.value.func)
            arm[-1] = d
            used.add(h)
        del blk[k + 1]
    if used:
        ast.fix_missing_locations(fn)
    return used

"""Import resolution and call-graph for the enspara package (source only)."""
import ast
import os

from .core import call_name, dotted, walk_local


class Target:
    """What a name resolves to."""
    __slots__ = ('kind', 'rel', 'qual', 'ext')

    def __init__(self, kind, rel=None, qual=None, ext=None):
        self.kind = kind      # 'mod' | 'func' | 'class' | 'ext' | 'var'
        self.rel = rel
        self.qual = qual
        self.ext = ext

    def __repr__(self):
        if self.kind == 'ext':
            return 'ext:%s' % self.ext
        return '%s:%s%s' % (self.kind, self.rel,
                            '::' + self.qual if self.qual else '')

    def key(self):
        return (self.kind, self.rel, self.qual, self.ext)


class Resolver:
    def __init__(self, repo):
        self.repo = repo
        repo.all_modules()
        self._tables = {}

    # -- module path helpers --------------------------------------------
    def _mod_rel(self, dotted_name):
        """'enspara.cluster.util' -> rel path of module file, if in repo."""
        parts = dotted_name.split('.')
        base = os.path.join(*parts)
        for cand in (base + '.py', base + '.pyx',
                     os.path.join(base, '__init__.py')):
            if cand in self.repo.modules:
                return cand
        return None

    def _pkg_of(self, rel):
        parts = rel.split('/')
        if parts[-1].startswith('__init__.'):
            return parts[:-1]
        return parts[:-1]

    def _abs_module(self, rel, module, level):
        if level == 0:
            return module or ''
        pkg = self._pkg_of(rel)
        if level > 1:
            pkg = pkg[:-(level - 1)] if level - 1 <= len(pkg) else []
        base = '.'.join(pkg)
        if module:
            return base + '.' + module if base else module
        return base

    # -- per-module name table ------------------------------------------
    def table(self, rel, _stack=()):
        if rel in self._tables:
            return self._tables[rel]
        m = self.repo.modules.get(rel)
        tab = {}
        self._tables[rel] = tab
        if m is None:
            return tab
        for node in ast.walk(m.tree):
            if isinstance(node, (ast.FunctionDef, ast.AsyncFunctionDef)) \
                    and m.parent.get(node) is m.tree:
                tab[node.name] = Target('func', rel, node.name)
            elif isinstance(node, ast.ClassDef) and m.parent.get(node) is m.tree:
                tab[node.name] = Target('class', rel, node.name)
        for node in ast.walk(m.tree):
            if m.enclosing_function(node) is not None:
                continue
            if isinstance(node, ast.Import):
                for a in node.names:
                    local = a.asname or a.name.split('.')[0]
                    full = a.name if a.asname else a.name.split('.')[0]
                    r = self._mod_rel(full)
                    tab[local] = Target('mod', r) if r else Target('ext', ext=full)
            elif isinstance(node, ast.ImportFrom):
                absmod = self._abs_module(rel, node.module, node.level)
                src_rel = self._mod_rel(absmod) if absmod else None
                for a in node.names:
                    if a.name == '*':
                        if src_rel and src_rel not in _stack:
                            for k, v in self.table(
                                    src_rel, _stack + (rel,)).items():
                                if not k.startswith('_'):
                                    tab.setdefault(k, v)
                        continue
                    local = a.asname or a.name
                    if src_rel is None:
                        tab[local] = Target('ext', ext=(absmod + '.' + a.name)
                                            if absmod else a.name)
                        continue
                    sub = self._mod_rel(absmod + '.' + a.name)
                    if sub:
                        tab[local] = Target('mod', sub)
                        continue
                    if src_rel in _stack:
                        continue
                    t = self.table(src_rel, _stack + (rel,)).get(a.name)
                    tab[local] = t if t is not None else Target(
                        'var', src_rel, a.name)
        return tab

    def resolve_dotted(self, rel, name):
        """Resolve 'util.assign_to_nearest_center' seen in module rel."""
        if not name:
            return None
        parts = name.split('.')
        cur = self.table(rel).get(parts[0])
        if cur is None:
            return None
        for i, p in enumerate(parts[1:], 1):
            if cur.kind == 'ext':
                return Target('ext', ext=cur.ext + '.' + '.'.join(parts[i:]))
            if cur.kind == 'mod':
                nxt = self.table(cur.rel).get(p)
                if nxt is None:
                    # submodule not imported explicitly in __init__
                    pkgparts = cur.rel.split('/')
                    if pkgparts[-1].startswith('__init__.'):
                        base = '.'.join(pkgparts[:-1]) + '.' + p
                        r = self._mod_rel(base)
                        if r:
                            nxt = Target('mod', r)
                if nxt is None:
                    return None
                cur = nxt
            elif cur.kind == 'class':
                q = cur.qual + '.' + p
                mod = self.repo.modules.get(cur.rel)
                if mod and q in mod.functions:
                    cur = Target('func', cur.rel, q)
                else:
                    return None
            else:
                return None
        return cur

    def resolve_call(self, mod, call, cls=None):
        """Resolve a Call node to a package function Target (or ext/None).

        `cls` is the enclosing class qualname for self.method resolution."""
        name = call_name(call)
        if name is None:
            return None
        if cls and name.startswith('self.') and name.count('.') == 1:
            q = cls + '.' + name.split('.', 1)[1]
            if q in mod.functions:
                return Target('func', mod.rel, q)
            return None
        t = self.resolve_dotted(mod.rel, name)
        if t is not None and t.kind == 'class':
            q = t.qual + '.__init__'
            m2 = self.repo.modules.get(t.rel)
            if m2 and q in m2.functions:
                return Target('func', t.rel, q)
        return t

    def function_node(self, target):
        if target is None or target.kind != 'func':
            return None, None
        m = self.repo.modules.get(target.rel)
        if m is None:
            return None, None
        return m, m.functions.get(target.qual)


def enclosing_class(mod, fn):
    q = mod.qualname(fn)
    if '.' in q and '<locals>' not in q:
        return q.rsplit('.', 1)[0]
    return None

"""Structural pattern matching over ast with metavariables, used to make rules
independent of local variable names and of equivalent spellings.

Pattern syntax: ordinary Python expression/statement text in which a name
starting with `_` followed by an upper-case letter (`_X`, `_Arr`) is a
metavariable that matches any expression and must bind consistently.
`__` matches anything without binding.

`canon(node)` rewrites a tree into a canonical spelling so that equivalent
idioms compare equal:
  np.argmax(x) -> x.argmax()        (same for argmin/max/min/sum/copy/flatten)
  a > b  -> b < a ;  a >= b -> b <= a
  x[:, np.newaxis] -> x[:, None] ; x.reshape(-1, 1) / x.reshape((-1, 1)) -> x[:, None]
  np.flatnonzero(m) -> np.where(m)[0]
  np.copy(x) / np.array(x) (no kwargs) -> x.copy()
  len(x) is kept (it differs from x.shape[0] for lists)
"""
import ast
import copy

from .core import call_name, dotted, u

_METHODS = {'argmax', 'argmin', 'max', 'min', 'sum', 'copy', 'flatten', 'mean',
            'ravel', 'all', 'any', 'cumsum', 'argsort'}
_NP_ALIASES = {'amax': 'max', 'amin': 'min'}


class _Canon(ast.NodeTransformer):
    def visit_Call(self, node):
        self.generic_visit(node)
        cn = call_name(node) or ''
        if cn.startswith('np.') or cn.startswith('numpy.'):
            f = cn.split('.', 1)[1]
            f = _NP_ALIASES.get(f, f)
            if f in _METHODS and node.args and not isinstance(node.args[0], ast.Starred):
                recv = node.args[0]
                return ast.copy_location(ast.Call(
                    func=ast.Attribute(value=recv, attr=f, ctx=ast.Load()),
                    args=node.args[1:], keywords=node.keywords), node)
            if f == 'flatnonzero' and len(node.args) == 1:
                w = ast.Call(func=ast.Attribute(value=ast.Name(id='np', ctx=ast.Load()), attr='where', ctx=ast.Load()),
                             args=node.args, keywords=[])
                new = ast.Subscript(value=w, slice=ast.Constant(value=0), ctx=ast.Load())
                new._canon_origin = 'flatnonzero'       # equal to where(m)[0] for 1-D masks only
                return ast.copy_location(new, node)
            if f == 'array' and len(node.args) == 1 and not node.keywords and isinstance(node.args[0], ast.Name):
                # np.array(name) is spelled name.copy() FOR RULE MATCHING (both make a fresh
                # array from an ndarray).  The node is tagged: sa/normal.py keeps the two apart,
                # because they differ when `name` is a list.
                new = ast.Call(func=ast.Attribute(value=node.args[0], attr='copy', ctx=ast.Load()), args=[], keywords=[])
                new._from_np_array = True
                return ast.copy_location(new, node)
        if isinstance(node.func, ast.Attribute) and node.func.attr == 'reshape':
            a = [u(x) for x in node.args]
            if a in (['-1', '1'], ['(-1, 1)']):
                sl = ast.Tuple(elts=[ast.Slice(lower=None, upper=None, step=None), ast.Constant(value=None)], ctx=ast.Load())
                new = ast.Subscript(value=node.func.value, slice=sl, ctx=ast.Load())
                new._canon_origin = 'reshape'           # equal to x[:, None] for 1-D x only
                return ast.copy_location(new, node)
        return node

    def visit_UnaryOp(self, node):
        self.generic_visit(node)
        # not (a is b) -> a is not b ; not (a in b) -> a not in b   (exact for every operand type)
        if isinstance(node.op, ast.Not) and isinstance(node.operand, ast.Compare) and len(node.operand.ops) == 1:
            flip = {ast.Is: ast.IsNot, ast.IsNot: ast.Is, ast.In: ast.NotIn, ast.NotIn: ast.In}.get(type(node.operand.ops[0]))
            if flip is not None:
                return ast.copy_location(ast.Compare(left=node.operand.left, ops=[flip()], comparators=node.operand.comparators), node)
        # -<number> as one constant (the Cython front end delivers Constant(-1))
        if isinstance(node.op, ast.USub) and isinstance(node.operand, ast.Constant) and \
                isinstance(node.operand.value, (int, float)) and not isinstance(node.operand.value, bool):
            return ast.copy_location(ast.Constant(value=-node.operand.value), node)
        return node

    def visit_Compare(self, node):
        self.generic_visit(node)
        if len(node.ops) == 1 and isinstance(node.ops[0], (ast.Gt, ast.GtE)):
            op = ast.Lt() if isinstance(node.ops[0], ast.Gt) else ast.LtE()
            return ast.copy_location(ast.Compare(left=node.comparators[0], ops=[op], comparators=[node.left]), node)
        return node

    def visit_Attribute(self, node):
        self.generic_visit(node)
        if dotted(node) in ('np.newaxis', 'numpy.newaxis'):
            return ast.copy_location(ast.Constant(value=None), node)
        return node

    def visit_If(self, node):
        self.generic_visit(node)
        # `if x is not None: A else: B`  ->  `if x is None: B else: A`   (plain if/else only)
        if isinstance(node.test, ast.Compare) and len(node.test.ops) == 1 and isinstance(node.test.ops[0], ast.IsNot) \
                and isinstance(node.test.comparators[0], ast.Constant) and node.test.comparators[0].value is None \
                and node.orelse and not (len(node.orelse) == 1 and isinstance(node.orelse[0], ast.If)):
            node.test = ast.copy_location(ast.Compare(left=node.test.left, ops=[ast.Is()], comparators=node.test.comparators), node.test)
            node.body, node.orelse = node.orelse, node.body
        # `if not c: B else: A`  ->  `if c: A else: B`   (only plain if/else)
        if isinstance(node.test, ast.UnaryOp) and isinstance(node.test.op, ast.Not) and node.orelse \
                and not (len(node.orelse) == 1 and isinstance(node.orelse[0], ast.If)):
            node.test = node.test.operand
            node.body, node.orelse = node.orelse, node.body
        return node

    def visit_IfExp(self, node):
        self.generic_visit(node)
        if isinstance(node.test, ast.UnaryOp) and isinstance(node.test.op, ast.Not):
            node.test = node.test.operand
            node.body, node.orelse = node.orelse, node.body
        return node


def canon(node):
    n = _Canon().visit(copy.deepcopy(node))
    ast.fix_missing_locations(n)
    return n


def canon_inplace(tree):
    """Canonicalise a whole module tree in place (front-end pass)."""
    n = _Canon().visit(tree)
    ast.fix_missing_locations(n)
    return n


def cu(node):
    """Canonical text."""
    return u(canon(node))


def _is_meta(name):
    return len(name) >= 2 and name[0] == '_' and (name[1].isupper() or name == '__')


_pat_cache = {}


def _parse(pat):
    if pat not in _pat_cache:
        t = ast.parse(pat).body[0]
        if isinstance(t, ast.Expr):
            t = t.value
        _pat_cache[pat] = canon(t)
    return _pat_cache[pat]


def match(pat, node, binds=None, canonical=True):
    """Match pattern text against an ast node. Returns bindings dict or None."""
    p = _parse(pat) if isinstance(pat, str) else pat
    n = canon(node) if canonical else node
    b = dict(binds or {})
    return b if _m(p, n, b) else None


def _m(p, n, b):
    if isinstance(p, ast.Name) and _is_meta(p.id):
        if p.id == '__':
            return True
        if p.id in b:
            return u(b[p.id]) == u(n) if isinstance(b[p.id], ast.AST) else b[p.id] == u(n)
        b[p.id] = n
        return True
    if type(p) is not type(n):
        return False
    if isinstance(p, ast.Constant):
        return p.value == n.value and type(p.value) is type(n.value)
    for f in p._fields:
        if f in ('ctx', 'type_comment', 'kind', 'lineno', 'col_offset', 'end_lineno', 'end_col_offset', 'type_params'):
            continue
        pv, nv = getattr(p, f, None), getattr(n, f, None)
        if isinstance(pv, list):
            if not isinstance(nv, list) or len(pv) != len(nv):
                return False
            if f == 'keywords':
                nk = {k.arg: k for k in nv}
                for k in pv:
                    if k.arg not in nk or not _m(k.value, nk[k.arg].value, b):
                        return False
                continue
            for x, y in zip(pv, nv):
                if isinstance(x, ast.AST):
                    if not _m(x, y, b):
                        return False
                elif x != y:
                    return False
        elif isinstance(pv, ast.AST):
            if not isinstance(nv, ast.AST) or not _m(pv, nv, b):
                return False
        else:
            if pv != nv:
                return False
    return True


def match_any(pats, node, binds=None):
    for p in pats:
        b = match(p, node, binds)
        if b is not None:
            return b
    return None


def find(pat, root, binds=None):
    """All (node, bindings) under root (not descending into nested defs)."""
    from .core import walk_local
    out = []
    it = walk_local(root) if isinstance(root, (ast.FunctionDef, ast.AsyncFunctionDef)) else ast.walk(root)
    for n in it:
        b = match(pat, n, binds)
        if b is not None:
            out.append((n, b))
    return out


def _size(n):
    return sum(1 for x in ast.walk(n) if not isinstance(x, (ast.expr_context, ast.operator, ast.unaryop, ast.boolop, ast.cmpop)))


_SKIP = ('ctx', 'type_comment', 'kind', 'lineno', 'col_offset', 'end_lineno', 'end_col_offset', 'type_params')


def distance(p, n, b=None):
    """Edit distance between a (canonical) pattern tree and a (canonical)
    node: 0 iff the pattern matches.  Metavariables cost nothing; a differing
    operator, name, attribute or constant costs 1; a subtree present on one
    side only costs its size."""
    b = {} if b is None else b
    if isinstance(p, ast.Name) and _is_meta(p.id):
        if p.id == '__':
            return 0
        if p.id in b:
            return 0 if u(b[p.id]) == u(n) else 1
        b[p.id] = n
        return 0
    if not isinstance(p, ast.AST) or not isinstance(n, ast.AST):
        return 0 if p == n else 1
    if type(p) is not type(n):
        if isinstance(p, (ast.operator, ast.unaryop, ast.boolop, ast.cmpop, ast.expr_context)):
            return 1
        return _size(p) + _size(n)
    d = 0
    for f in p._fields:
        if f in _SKIP:
            continue
        pv, nv = getattr(p, f, None), getattr(n, f, None)
        if isinstance(pv, list) or isinstance(nv, list):
            pv, nv = pv or [], nv or []
            if f == 'keywords':
                nk = {k.arg: k for k in nv}
                pk = {k.arg: k for k in pv}
                for a in pk:
                    d += distance(pk[a].value, nk[a].value, b) if a in nk else _size(pk[a].value)
                for a in nk:
                    if a not in pk:
                        d += _size(nk[a].value)
                continue
            for x, y in zip(pv, nv):
                d += distance(x, y, b)
            for extra in pv[len(nv):] + nv[len(pv):]:
                d += _size(extra) if isinstance(extra, ast.AST) else 1
        elif isinstance(pv, ast.AST) or isinstance(nv, ast.AST):
            if pv is None or nv is None:
                d += _size(pv if pv is not None else nv)
            else:
                d += distance(pv, nv, b)
        elif pv != nv:
            d += 1
    return d


_NEUTRAL = {'np', 'numpy', 'math', 'int', 'float', 'len', 'list', 'tuple', 'range', 'bool', 'abs', 'min', 'max', 'sum',
            'True', 'False', 'None', 'slice', 'sorted', 'reversed', 'enumerate', 'zip', 'any', 'all', 'set'}


def _closed_over(node, scope):
    """The expression is a function of the names in `scope` only, built from
    numpy/builtin operations the analysis knows to be pure."""
    from .normal import is_pure
    if not is_pure(node):
        return False
    bound = set()
    for x in ast.walk(node):
        if isinstance(x, ast.comprehension):
            for t in ast.walk(x.target):
                if isinstance(t, ast.Name):
                    bound.add(t.id)
    for x in ast.walk(node):
        if isinstance(x, ast.Name) and x.id not in scope and x.id not in _NEUTRAL and x.id not in bound:
            return False
    return True


def classify(node, patterns, binds=None, near=3, scope=None):
    """Three-valued recognition of an expression against the accepted forms
    of an obligation whose construct has already been located by its role:
      ('match', bindings)      some accepted form matches;
      ('near', dist, pattern)  not an accepted form, but positively a
                               DIFFERENT computation in the same role -> a
                               violation.  With `scope` (a set of names): the
                               expression is a pure function of exactly the
                               operands the accepted forms use, i.e. another
                               function of the same inputs.  Without scope: a
                               small edit (<= near positions) of an accepted
                               form.
      ('far', dist, pattern)   the expression involves operands or helpers
                               the rule cannot see through (or is an
                               unfamiliar shape) -> the analysis cannot
                               decide (incomplete), never a violation."""
    n = canon(node)
    best = None
    for pat in patterns:
        p = _parse(pat) if isinstance(pat, str) else pat
        b = dict(binds or {})
        d = distance(p, n, b)
        if d == 0:
            return ('match', b)
        if best is None or d < best[0]:
            best = (d, pat)
    if best is None:
        return ('far', 10 ** 6, None)
    if scope is not None:
        return ('near' if _closed_over(n, set(scope)) else 'far', best[0], best[1])
    return ('near' if best[0] <= near else 'far', best[0], best[1])


def C(text):
    """Canonical text of a literal source pattern (rules compare against the
    canonicalised trees the front end produces)."""
    t = ast.parse(text).body[0]
    if isinstance(t, ast.Expr):
        t = t.value
    return u(canon(t))


def CS(*texts):
    return tuple(C(t) for t in texts)

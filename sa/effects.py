"""A4: argument-mutation (effects) analysis.

Forward may-alias dataflow per function over the statement CFG, with
per-function summaries (which parameters a function may mutate; which
parameters its return value may alias) computed to a fixed point over the
package call graph.

Abstract value of an expression = frozenset of tags
    ('P', p)   may share storage with parameter p (p itself, a view, a row)
    ('C', p)   a fresh container whose *elements* may alias p / p's elements
Absent tags = freshly allocated / scalar / unknown-but-assumed-fresh.
The transfer tables below are frozen and explicit; anything not listed as
view-making is treated as copy-making (so the analysis can miss, but a report
always names a store whose target provably derives from a parameter through
listed view-making steps only).
"""
import ast

from .cfg import CFG, ENTRY, EXIT, Assume, header_exprs, stmt_defs
from .core import (base_name, call_name, dotted, params, target_names, u,
                   walk_expr, walk_local)
from .resolve import enclosing_class

# attribute reads that hand out the same storage
VIEW_ATTRS = {'T', 'real', 'imag', 'flat', '_data', '_array', 'lengths',
              'xyz', 'data', 'A', 'A1', 'base', 'centers', 'assignments',
              'distances', 'center_indices', 'result_', 'centers_',
              'labels_', 'distances_', 'center_indices_', 'tcounts_',
              'tprobs_', 'eq_probs_', 'mapping_', 'to_original'}
# attribute reads that yield fresh scalars / tuples
FRESH_ATTRS = {'shape', 'dtype', 'size', 'ndim', 'nnz', 'itemsize', 'name',
               'n_atoms', 'n_frames', 'top', 'topology', 'starts'}
# methods returning a view of (or the very) receiver
VIEW_METHODS = {'reshape', 'ravel', 'squeeze', 'view', 'transpose',
                'swapaxes', 'tolil', 'tocsr', 'tocsc', 'tocoo', 'todia',
                'tobsr', 'todok', 'asfptype', 'asformat', 'get', 'setdefault',
                'get_node', 'slice', 'conj', 'conjugate', 'newbyteorder',
                'diagonal', '__getitem__', 'values', 'items'}
# methods returning fresh storage
COPY_METHODS = {'copy', 'astype', 'flatten', 'toarray', 'todense', 'tolist',
                'sum', 'mean', 'max', 'min', 'argmax', 'argmin', 'argsort',
                'cumsum', 'dot', 'multiply', 'nonzero', 'any', 'all', 'std',
                'var', 'prod', 'round', 'clip', 'repeat', 'take', 'choose',
                'compress', 'searchsorted', 'format', 'split', 'join',
                'keys', 'count', 'index', 'atom_slice', 'select', 'lower',
                'upper', 'strip', 'pop', 'max', 'item', 'power', 'trace',
                'matvec', 'rmatvec', 'dot', 'partition', 'union', 'tocsr',
                }
COPY_METHODS -= {'tocsr', 'partition'}
# free functions returning a view of their first argument
VIEW_FUNCS = {'np.asarray', 'np.asanyarray', 'np.atleast_1d', 'np.atleast_2d',
              'np.atleast_3d', 'np.transpose', 'np.ravel', 'np.reshape',
              'np.squeeze', 'np.real', 'np.imag', 'np.ascontiguousarray',
              'np.asfortranarray', 'np.swapaxes', 'np.moveaxis',
              'np.broadcast_to', 'np.expand_dims', 'np.diagonal',
              'np.frombuffer', 'scipy.sparse.csr_matrix',
              'scipy.sparse.csc_matrix', 'scipy.sparse.lil_matrix',
              'iter', 'reversed', 'enumerate', 'zip',
              'scipy.sparse.linalg.aslinearoperator'}
# receiver-mutating methods (a call x.m(...) writes x)
MUTATING_METHODS = {'append', 'extend', 'insert', 'pop', 'remove', 'sort',
                    'reverse', 'clear', 'update', 'fill', 'put', 'itemset',
                    'resize', 'setdiag', 'partition', 'popitem',
                    'setdefault', 'center_coordinates', 'superpose',
                    'setflags', 'eliminate_zeros', 'sum_duplicates',
                    'sort_indices', 'byteswap', 'image_molecules',
                    'make_molecules_whole', 'smooth', 'add', 'discard'}
# free functions that write their first argument
MUTATING_FUNCS_ARG0 = {'np.fill_diagonal', 'np.put', 'np.copyto', 'np.place',
                       'np.putmask', 'np.put_along_axis', 'random.shuffle',
                       'np.random.shuffle', 'np.add.at', 'np.subtract.at',
                       'np.maximum.at', 'np.minimum.at'}


def _np_array_copy_false(call):
    for k in call.keywords:
        if k.arg == 'copy' and isinstance(k.value, ast.Constant) \
                and k.value.value is False:
            return True
    return False


class FnSummary:
    def __init__(self):
        self.mutates = {}        # param name -> example (loc, construct)
        self.ret = set()         # tags of the return value (in param terms)
        self.ret_pos = {}        # tuple position -> tags


class EffectsAnalysis:
    def __init__(self, repo, resolver):
        self.repo = repo
        self.res = resolver
        self.summaries = {}      # (rel, qual) -> FnSummary
        self.stores = {}         # (rel, qual) -> list of store records
        self.unknown_index = []
        self._fns = []
        for m in repo.all_modules():
            for q, fn in m.functions.items():
                self._fns.append((m, q, fn))
                self.summaries[(m.rel, q)] = FnSummary()
        self._array_kind_cache = {}
        self._solve()

    # -- index kind inference -------------------------------------------
    def _index_is_basic(self, idx, env_kinds):
        """True if idx is a basic index (ints/slices/None/Ellipsis): view."""
        if isinstance(idx, ast.Tuple):
            # three-valued: one advanced component makes a copy; otherwise one unknown
            # component leaves the question open (x[i, :] with i of unknown kind may be a view)
            rs = [self._index_is_basic(e, env_kinds) for e in idx.elts]
            if any(r is False for r in rs):
                return False
            if any(r is None for r in rs):
                return None
            return True
        if isinstance(idx, ast.Slice):
            return True
        if isinstance(idx, ast.Constant):
            return isinstance(idx.value, (int, type(None), type(Ellipsis))) \
                and not isinstance(idx.value, bool)
        if isinstance(idx, ast.UnaryOp) and isinstance(idx.op, ast.USub):
            return self._index_is_basic(idx.operand, env_kinds)
        if isinstance(idx, ast.Name):
            k = env_kinds.get(idx.id)
            if k == 'int':
                return True
            if k == 'array':
                return False
            return None   # unknown
        if isinstance(idx, ast.Attribute) and dotted(idx) in (
                'np.newaxis', 'numpy.newaxis'):
            return True
        if isinstance(idx, ast.BinOp):
            a = self._index_is_basic(idx.left, env_kinds)
            b = self._index_is_basic(idx.right, env_kinds)
            if a is True and b is True:
                return True
            if a is False or b is False:
                return False
            return None
        if isinstance(idx, (ast.Compare, ast.List, ast.ListComp, ast.BoolOp)):
            return False
        if isinstance(idx, ast.Call):
            cn = call_name(idx) or ''
            if cn in ('len', 'int', 'min', 'max', 'abs', 'sum') or \
                    cn.endswith('.argmax') or cn.endswith('.argmin') or \
                    cn in ('np.argmax', 'np.argmin'):
                return True
            if cn in ('np.where', 'np.ix_', 'np.arange', 'np.array',
                      'np.nonzero', 'np.diag_indices_from', 'np.triu_indices',
                      'np.tril_indices', 'range', 'list', 'slice', 'tuple',
                      'np.isnan', 'np.logical_not', 'np.logical_and',
                      'np.isinf', 'np.unique', 'np.flatnonzero'):
                return cn == 'slice'
            return None
        if isinstance(idx, ast.Subscript):
            return None
        return None

    def _kinds(self, fn):
        """Cheap local 'int' / 'array' kind inference for names in fn."""
        key = id(fn)
        if key in self._array_kind_cache:
            return self._array_kind_cache[key]
        kinds = {}
        for n in walk_local(fn):
            if isinstance(n, (ast.For,)):
                it = n.iter
                if isinstance(it, ast.Call) and call_name(it) in ('range', 'prange'):
                    for t in target_names(n.target):
                        kinds[t] = 'int'
                elif isinstance(it, ast.Call) and call_name(it) == 'enumerate' \
                        and isinstance(n.target, ast.Tuple) and n.target.elts \
                        and isinstance(n.target.elts[0], ast.Name):
                    kinds[n.target.elts[0].id] = 'int'
            elif isinstance(n, ast.Assign) and len(n.targets) == 1 \
                    and isinstance(n.targets[0], ast.Name):
                v = n.value
                name = n.targets[0].id
                k = None
                if isinstance(v, ast.Constant) and isinstance(v.value, int) \
                        and not isinstance(v.value, bool):
                    k = 'int'
                elif isinstance(v, ast.Call):
                    cn = call_name(v) or ''
                    if cn in ('len', 'int') or cn.endswith('argmax') \
                            or cn.endswith('argmin'):
                        k = 'int'
                    elif cn in ('np.where', 'np.array', 'np.arange',
                                'np.append', 'np.unique', 'np.nonzero',
                                'np.zeros', 'np.ones', 'np.concatenate',
                                'np.argsort', 'np.ix_', 'list') or \
                            cn.endswith('.flatten') or cn.endswith('.astype') or (
                                isinstance(v.func, ast.Attribute) and v.func.attr in (
                                    'flatten', 'ravel', 'astype', 'reshape', 'nonzero', 'argsort', 'cumsum', 'tolist')):
                        k = 'array'
                elif isinstance(v, (ast.Compare, ast.List, ast.ListComp)):
                    k = 'array'
                elif isinstance(v, ast.BinOp) and isinstance(
                        v.op, (ast.BitAnd, ast.BitOr)):
                    k = 'array'
                elif isinstance(v, ast.Subscript) and isinstance(
                        v.value, ast.Call) and call_name(v.value) == 'np.where':
                    k = 'array'
                if k:
                    if kinds.get(name, k) != k:
                        kinds[name] = 'mixed'
                    else:
                        kinds[name] = k
        kinds = {k: v for k, v in kinds.items() if v != 'mixed'}
        self._array_kind_cache[key] = kinds
        return kinds

    # -- abstract evaluation --------------------------------------------
    def av(self, e, st, ctx):
        """Abstract value (frozenset of tags) of expression e in state st."""
        if e is None:
            return frozenset()
        if isinstance(e, ast.Name):
            return st.get(e.id, frozenset())
        if isinstance(e, ast.Attribute):
            if e.attr in FRESH_ATTRS:
                return frozenset()
            if e.attr in VIEW_ATTRS or True:
                base = self.av(e.value, st, ctx)
                # attribute of `self` inside a method: storage owned by self
                return base
        if isinstance(e, ast.Subscript):
            base = self.av(e.value, st, ctx)
            if not base:
                return base
            if isinstance(e.slice, ast.Tuple) and all(k == 'C' for (k, p) in base):
                # multi-dimensional subscript => ndarray, whose copy() is deep
                return frozenset()
            basic = self._index_is_basic(e.slice, ctx['kinds'])
            if basic is False:
                # advanced indexing copies; but elements of a container of
                # objects are still the same objects
                return frozenset(('P', p) for (k, p) in base if k == 'C')
            if basic is None:
                ctx['unknown_index'].append(e)
                # an integer index into a list/array: element (alias)
            return frozenset(('P', p) for (k, p) in base)
        if isinstance(e, ast.Starred):
            return self.av(e.value, st, ctx)
        if isinstance(e, ast.IfExp):
            return self.av(e.body, st, ctx) | self.av(e.orelse, st, ctx)
        if isinstance(e, ast.BoolOp):
            out = frozenset()
            for v in e.values:
                out |= self.av(v, st, ctx)
            return out
        if isinstance(e, ast.NamedExpr):
            return self.av(e.value, st, ctx)
        if isinstance(e, (ast.Tuple, ast.List, ast.Set)):
            out = set()
            for el in e.elts:
                for (k, p) in self.av(el, st, ctx):
                    out.add(('C', p))
            return frozenset(out)
        if isinstance(e, ast.Dict):
            out = set()
            for el in e.values:
                for (k, p) in self.av(el, st, ctx):
                    out.add(('C', p))
            return frozenset(out)
        if isinstance(e, (ast.ListComp, ast.GeneratorExp, ast.SetComp)):
            st2 = dict(st)
            for gen in e.generators:
                it = self.av(gen.iter, st2, ctx)
                elem = frozenset(('P', p) for (k, p) in it)
                for t in target_names(gen.target):
                    st2[t] = elem
            out = set()
            for (k, p) in self.av(e.elt, st2, ctx):
                out.add(('C', p))
            return frozenset(out)
        if isinstance(e, ast.Call):
            return self._av_call(e, st, ctx)
        # BinOp, UnaryOp, Compare, Constant, JoinedStr, Lambda ... fresh
        return frozenset()

    def _av_call(self, call, st, ctx):
        cn = call_name(call) or ''
        # method calls
        if isinstance(call.func, ast.Attribute):
            meth = call.func.attr
            recv = call.func.value
            t = self.res.resolve_call(ctx['mod'], call, ctx['cls'])
            if t is None or t.kind not in ('func', 'ext', 'mod', 'class'):
                rv = self.av(recv, st, ctx)
                if meth in COPY_METHODS and meth != 'copy':
                    return frozenset()
                if meth == 'copy':
                    # shallow copy of a list keeps element identity
                    return frozenset(('C', p) for (k, p) in rv)
                if meth in VIEW_METHODS:
                    return frozenset(('P', p) for (k, p) in rv)
                return frozenset()
        t = self.res.resolve_call(ctx['mod'], call, ctx['cls'])
        if t is not None and t.kind == 'func':
            summ = self.summaries.get((t.rel, t.qual))
            m2, fn2 = self.res.function_node(t)
            if summ is not None and fn2 is not None:
                binding = self._bind_args(call, fn2, t)
                out = set()
                for (k, p) in summ.ret:
                    for (k2, q) in self.av(binding.get(p), st, ctx) \
                            if binding.get(p) is not None else ():
                        out.add(('C', q) if 'C' in (k, k2) else ('P', q))
                return frozenset(out)
            return frozenset()
        full = cn
        if t is not None and t.kind == 'ext':
            full = t.ext
        short = self._short(full)
        if short in ('np.array', 'np.asarray_chkfinite'):
            if _np_array_copy_false(call) and call.args:
                return frozenset(('P', p) for (k, p) in
                                 self.av(call.args[0], st, ctx))
            # copy=<param>: may alias when the flag is false
            ck = [k for k in call.keywords if k.arg == 'copy']
            if ck and not isinstance(ck[0].value, ast.Constant) and call.args:
                return frozenset(('P', p) for (k, p) in
                                 self.av(call.args[0], st, ctx))
            return frozenset()
        if short in VIEW_FUNCS and call.args:
            out = set()
            for a in call.args if short in ('zip',) else call.args[:1]:
                out |= set(self.av(a, st, ctx))
            return frozenset(out)
        if short in ('copy.copy',) and call.args:
            rv = self.av(call.args[0], st, ctx)
            return frozenset(('C', p) for (k, p) in rv)
        if short in ('list', 'tuple', 'sorted', 'set', 'dict') and call.args:
            rv = self.av(call.args[0], st, ctx)
            return frozenset(('C', p) for (k, p) in rv)
        if short == 'getattr' and call.args:
            return self.av(call.args[0], st, ctx)
        return frozenset()

    @staticmethod
    def _short(full):
        if full.startswith('numpy.'):
            return 'np.' + full[len('numpy.'):]
        if full == 'numpy':
            return 'np'
        return full

    def _bind_args(self, call, fn2, target):
        """Map callee parameter name -> actual argument expression."""
        ps = params(fn2)
        binding = {}
        offset = 0
        if '.' in target.qual and ps and ps[0] in ('self', 'cls'):
            # bound method / constructor: receiver is call.func.value
            if isinstance(call.func, ast.Attribute) and not target.qual.endswith('__init__'):
                binding[ps[0]] = call.func.value
            offset = 1
        for i, a in enumerate(call.args):
            if isinstance(a, ast.Starred):
                break
            if i + offset < len(ps):
                binding[ps[i + offset]] = a
        for k in call.keywords:
            if k.arg and k.arg in ps:
                binding[k.arg] = k.value
        return binding

    # -- per-function transfer ------------------------------------------
    def _analyse(self, m, q, fn):
        summ = self.summaries[(m.rel, q)]
        cfg = CFG(fn)
        ps = params(fn)
        ctx = {'mod': m, 'cls': enclosing_class(m, fn), 'fn': fn,
               'kinds': self._kinds(fn), 'unknown_index': []}
        init = {p: frozenset([('P', p)]) for p in ps}
        if fn.args.kwarg is not None:
            # **kwargs is a fresh dict built by the call
            init[fn.args.kwarg.arg] = frozenset()
        IN = {n: None for n in cfg.nodes}
        OUT = {n: None for n in cfg.nodes}
        OUT[ENTRY] = init
        work = [n for n in cfg.nodes if n != ENTRY]
        stores = []
        changed_summary = False

        def join(a, b):
            if a is None:
                return dict(b)
            out = dict(a)
            for k, v in b.items():
                out[k] = out.get(k, frozenset()) | v
            return out

        iters = 0
        while work and iters < 20000:
            iters += 1
            n = work.pop(0)
            st = None
            for p in cfg.pred.get(n, []):
                if OUT[p] is not None:
                    st = join(st, OUT[p])
            if st is None:
                continue
            IN[n] = st
            new = self._transfer(n, dict(st), ctx) if n != EXIT else st
            if new != OUT[n]:
                OUT[n] = new
                for s in cfg.succ.get(n, []):
                    if s not in work:
                        work.append(s)
        # collect stores / mutations / returns with the final IN states
        ret = set()
        ret_pos = {}
        for n in cfg.nodes:
            if n in (ENTRY, EXIT) or IN[n] is None or isinstance(n, Assume):
                continue
            st = IN[n]
            for rec in self._stores_at(n, st, ctx):
                stores.append(rec)
            if isinstance(n, ast.Return) and n.value is not None:
                ret |= set(self.av(n.value, st, ctx))
                if isinstance(n.value, ast.Tuple):
                    for i, el in enumerate(n.value.elts):
                        ret_pos.setdefault(i, set()).update(
                            self.av(el, st, ctx))
        mut = {}
        for rec in stores:
            for p in rec['params']:
                mut.setdefault(p, rec)
        if set(mut) != set(summ.mutates) or ret != summ.ret:
            changed_summary = True
        summ.mutates = mut
        summ.ret = ret
        summ.ret_pos = ret_pos
        self.stores[(m.rel, q)] = stores
        self.unknown_index += [(m, fn, e) for e in ctx['unknown_index']]
        return changed_summary

    def _assign(self, target, val_tags, st, ctx, value_expr=None):
        if isinstance(target, ast.Name):
            st[target.id] = val_tags
        elif isinstance(target, (ast.Tuple, ast.List)):
            # unpacking: elements of the value
            elems = None
            if isinstance(value_expr, (ast.Tuple, ast.List)) and len(
                    value_expr.elts) == len(target.elts):
                elems = [self.av(e, st, ctx) for e in value_expr.elts]
            elif isinstance(value_expr, ast.Call):
                t = self.res.resolve_call(ctx['mod'], value_expr, ctx['cls'])
                if t is not None and t.kind == 'func':
                    summ = self.summaries.get((t.rel, t.qual))
                    m2, fn2 = self.res.function_node(t)
                    if summ and fn2 is not None and summ.ret_pos:
                        binding = self._bind_args(value_expr, fn2, t)
                        elems = []
                        for i in range(len(target.elts)):
                            out = set()
                            for (k, p) in summ.ret_pos.get(i, ()):
                                a = binding.get(p)
                                if a is not None:
                                    for (k2, q) in self.av(a, st, ctx):
                                        out.add(('C', q) if 'C' in (k, k2)
                                                else ('P', q))
                            elems.append(frozenset(out))
            for i, t in enumerate(target.elts):
                if elems is not None and i < len(elems):
                    self._assign(t, elems[i], st, ctx)
                else:
                    self._assign(t, frozenset(('P', p) for (k, p) in val_tags),
                                 st, ctx)
        elif isinstance(target, ast.Starred):
            self._assign(target.value, val_tags, st, ctx)
        # Attribute / Subscript targets do not rebind a name

    @staticmethod
    def _none_facts(test, polarity):
        """Names known to be None when `test` has truth value `polarity`."""
        out = []
        if isinstance(test, ast.Compare) and len(test.ops) == 1 and \
                isinstance(test.left, ast.Name) and isinstance(
                    test.comparators[0], ast.Constant) and \
                test.comparators[0].value is None:
            if isinstance(test.ops[0], (ast.Is, ast.Eq)) and polarity:
                out.append(test.left.id)
            if isinstance(test.ops[0], (ast.IsNot, ast.NotEq)) and not polarity:
                out.append(test.left.id)
        elif isinstance(test, ast.BoolOp):
            if isinstance(test.op, ast.And) and polarity:
                for v in test.values:
                    out += EffectsAnalysis._none_facts(v, True)
            if isinstance(test.op, ast.Or) and not polarity:
                for v in test.values:
                    out += EffectsAnalysis._none_facts(v, False)
        elif isinstance(test, ast.UnaryOp) and isinstance(test.op, ast.Not):
            out += EffectsAnalysis._none_facts(test.operand, not polarity)
        return out

    def _transfer(self, n, st, ctx):
        if isinstance(n, Assume):
            for name in self._none_facts(n.test, n.polarity):
                st[name] = frozenset()
            return st
        if isinstance(n, ast.Assign):
            v = self.av(n.value, st, ctx)
            for t in n.targets:
                self._assign(t, v, st, ctx, n.value)
        elif isinstance(n, ast.AnnAssign):
            if n.value is not None:
                self._assign(n.target, self.av(n.value, st, ctx), st, ctx,
                             n.value)
        elif isinstance(n, ast.AugAssign):
            # x op= v: in place for arrays (x keeps its tags); rebinding for
            # immutables (tags irrelevant). Keep tags.
            pass
        elif isinstance(n, (ast.For, ast.AsyncFor)):
            it = n.iter
            tags = self.av(it, st, ctx)
            elem = frozenset(('P', p) for (k, p) in tags)
            if isinstance(it, ast.Call) and call_name(it) == 'enumerate' and \
                    isinstance(n.target, ast.Tuple) and len(n.target.elts) == 2:
                self._assign(n.target.elts[0], frozenset(), st, ctx)
                self._assign(n.target.elts[1], elem, st, ctx)
            elif isinstance(it, ast.Call) and call_name(it) == 'zip' and \
                    isinstance(n.target, ast.Tuple) and \
                    len(n.target.elts) == len(it.args):
                for t, a in zip(n.target.elts, it.args):
                    self._assign(t, frozenset(
                        ('P', p) for (k, p) in self.av(a, st, ctx)), st, ctx)
            elif isinstance(it, ast.Call) and call_name(it) in ('range', 'prange'):
                self._assign(n.target, frozenset(), st, ctx)
            else:
                self._assign(n.target, elem, st, ctx)
        elif isinstance(n, (ast.With, ast.AsyncWith)):
            for item in n.items:
                if item.optional_vars is not None:
                    self._assign(item.optional_vars,
                                 self.av(item.context_expr, st, ctx), st, ctx)
        elif isinstance(n, (ast.Import, ast.ImportFrom, ast.FunctionDef,
                            ast.ClassDef)):
            for name in stmt_defs(n):
                st[name] = frozenset()
        elif isinstance(n, ast.ExceptHandler):
            if n.name:
                st[n.name] = frozenset()
        elif isinstance(n, ast.Delete):
            for t in n.targets:
                if isinstance(t, ast.Name):
                    st[t.id] = frozenset()
        for e in header_exprs(n):
            for sub in walk_expr(e):
                if isinstance(sub, ast.NamedExpr):
                    self._assign(sub.target, self.av(sub.value, st, ctx),
                                 st, ctx)
        return st

    # -- store detection -------------------------------------------------
    def _stores_at(self, n, st, ctx):
        recs = []
        m = ctx['mod']

        def rec(kind, target_expr, tags, construct_node, via=None):
            ps = sorted({p for (k, p) in tags if k == 'P'})
            if not ps:
                return
            recs.append({'kind': kind, 'params': ps, 'node': construct_node,
                         'line': getattr(construct_node, 'lineno', 0),
                         'construct': u(construct_node)[:200],
                         'target': u(target_expr), 'via': via})

        def store_target(t, stmt):
            if isinstance(t, ast.Subscript):
                rec('subscript-store', t.value, self.av(t.value, st, ctx), stmt)
            elif isinstance(t, ast.Attribute):
                rec('attribute-store', t.value, self.av(t.value, st, ctx), stmt)
            elif isinstance(t, (ast.Tuple, ast.List)):
                for e in t.elts:
                    store_target(e, stmt)
            elif isinstance(t, ast.Starred):
                store_target(t.value, stmt)

        if isinstance(n, ast.Assign):
            for t in n.targets:
                store_target(t, n)
        elif isinstance(n, ast.AnnAssign) and n.value is not None:
            store_target(n.target, n)
        elif isinstance(n, ast.AugAssign):
            if isinstance(n.target, ast.Name):
                if self._arraylike(n.target.id, ctx, n):
                    rec('augassign-inplace', n.target,
                        st.get(n.target.id, frozenset()), n)
            else:
                store_target(n.target, n)
        elif isinstance(n, ast.Delete):
            for t in n.targets:
                if isinstance(t, (ast.Subscript, ast.Attribute)):
                    store_target(t, n)
        elif isinstance(n, (ast.For, ast.AsyncFor)):
            store_target(n.target, n)
        # calls anywhere in the header
        for e in header_exprs(n):
            for c in walk_expr(e):
                if not isinstance(c, ast.Call):
                    continue
                cn = call_name(c) or ''
                t = self.res.resolve_call(m, c, ctx['cls'])
                full = t.ext if (t is not None and t.kind == 'ext') else cn
                short = self._short(full)
                # out= keyword of numpy calls
                for k in c.keywords:
                    if k.arg == 'out' and (t is None or t.kind == 'ext'):
                        rec('out=', k.value, self.av(k.value, st, ctx), c)
                if short in MUTATING_FUNCS_ARG0 and c.args:
                    rec('mutating-func', c.args[0],
                        self.av(c.args[0], st, ctx), c)
                if isinstance(c.func, ast.Attribute) and (
                        t is None or t.kind not in ('func', 'class', 'mod')):
                    if c.func.attr in MUTATING_METHODS and not (
                            t is not None and t.kind == 'ext'):
                        recv = c.func.value
                        tags = self.av(recv, st, ctx)
                        if c.func.attr == 'pop' and isinstance(recv, ast.Name) \
                                and ctx['fn'].args.kwarg is not None and \
                                recv.id == ctx['fn'].args.kwarg.arg:
                            tags = frozenset()
                        rec('mutating-method', recv, tags, c)
                if t is not None and t.kind == 'func':
                    summ = self.summaries.get((t.rel, t.qual))
                    m2, fn2 = self.res.function_node(t)
                    if summ and fn2 is not None and summ.mutates:
                        binding = self._bind_args(c, fn2, t)
                        for p, why in summ.mutates.items():
                            a = binding.get(p)
                            if a is None:
                                continue
                            rec('callee-mutates', a, self.av(a, st, ctx), c,
                                via='%s::%s mutates %s at %s: %s' % (
                                    t.rel, t.qual, p, why.get('line'),
                                    why.get('construct')))
        return recs

    def _arraylike(self, name, ctx, aug=None):
        """Is `name op= v` an in-place update of array storage?  It is unless
        there is evidence that `name` holds an immutable scalar: its
        parameter default is a number/bool/str, or the augmented operand is
        a numeric literal and the name is never subscripted, or the name is
        a loop counter / result of len()/int()."""
        fn = ctx['fn']
        from .core import param_default
        d = param_default(fn, name)
        if isinstance(d, ast.Constant) and isinstance(
                d.value, (int, float, str, bool)) and d.value is not None:
            return False
        if ctx['kinds'].get(name) == 'int':
            return False
        subscripted = False
        for n in walk_local(fn):
            if isinstance(n, ast.Subscript) and isinstance(n.value, ast.Name) \
                    and n.value.id == name:
                subscripted = True
        if aug is not None and not subscripted:
            from .core import const_value
            v = const_value(aug.value)
            if isinstance(v, (int, float)):
                return False
        if not subscripted and self._branched_on(name, ctx, aug):
            return False
        return True

    _ORDER_OPS = (ast.Lt, ast.LtE, ast.Gt, ast.GtE)

    def _branched_on(self, name, ctx, aug=None):
        """Scalar evidence for a bare name: `name` is a direct operand of an
        ordering comparison (< <= > >=) whose result is used as a truth
        value (test of if / while / assert / conditional expression /
        comprehension filter, possibly under and/or/not).  The truth value of
        an elementwise comparison of an ndarray with more than one element
        raises ValueError, and the name is never subscripted and has no
        method called on it, so it holds a Python / numpy scalar, which
        `name op= v` rebinds.  Lists order lexicographically into a plain
        bool and implement `+=` / `*=` in place, so for those two operators
        the comparison must be against a numeric literal; equality tests are
        no evidence at all (`lst == []`).  (A one-element array would pass
        the test; the analysis may miss in that corner, like every entry of
        the transfer tables.)"""
        from .core import const_value
        listy = aug is None or isinstance(aug.op, (ast.Add, ast.Mult))
        fn = ctx['fn']
        parent = ctx['mod'].parent
        for n in walk_local(fn):
            if isinstance(n, ast.Attribute) and isinstance(n.value, ast.Name) \
                    and n.value.id == name and isinstance(
                        parent.get(n), ast.Call) and parent.get(n).func is n:
                return False
        for c in walk_local(fn):
            if not isinstance(c, ast.Compare):
                continue
            if not all(isinstance(o, self._ORDER_OPS) for o in c.ops):
                continue
            operands = [c.left] + list(c.comparators)
            if not any(isinstance(o, ast.Name) and o.id == name
                       for o in operands):
                continue
            if listy and not any(isinstance(const_value(o), (int, float))
                                 and not isinstance(const_value(o), bool)
                                 for o in operands):
                continue
            cur = c
            par = parent.get(cur)
            while isinstance(par, ast.BoolOp) or (
                    isinstance(par, ast.UnaryOp) and isinstance(par.op, ast.Not)):
                cur, par = par, parent.get(par)
            if isinstance(par, (ast.If, ast.While, ast.Assert, ast.IfExp)) \
                    and par.test is cur:
                return True
            if isinstance(par, ast.comprehension) and cur in par.ifs:
                return True
        return False

    def _solve(self):
        for _ in range(12):
            changed = False
            for (m, q, fn) in self._fns:
                try:
                    if self._analyse(m, q, fn):
                        changed = True
                except RecursionError:
                    continue
            if not changed:
                break

    # -- queries ---------------------------------------------------------
    def mutated_params(self, rel, qual):
        s = self.summaries.get((rel, qual))
        return dict(s.mutates) if s else {}

    def store_records(self, rel, qual):
        return list(self.stores.get((rel, qual), []))

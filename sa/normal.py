"""Normal form of a function body, used to recognise behaviour-preserving
refactorings of the pinned implementation.

N(f) applies only semantics-preserving rewrites:
  1. canonical spellings of equivalent idioms (sa/match.py canon + the table
     below): comparison direction, method/function forms, np.newaxis,
     reshape(-1, 1), np.identity/np.eye, np.concatenate((a, b))/np.append(a, b)
     for two operands, x.transpose()/x.T, x[(a, b)]/x[a, b], dtype='O'/object,
     reshape((a, b))/reshape(a, b), keyword/positional arguments of calls to
     functions with known signatures, `if not c: B else: A`;
  2. removal of statements without effect on results: docstrings, `pass`,
     logger/logging calls;
  3. guard-clause form: `if c: <...return/raise/continue/break>` followed by a
     tail is the same as `if c: ... else: <tail>`;
  4. forward substitution of single-definition locals bound to a pure
     expression whose operands are neither rebound nor mutated between the
     definition and the uses (temporaries introduced or removed by a
     refactoring);
  5. alpha-renaming of locals (and of the parameters of private helpers) in
     order of first occurrence.
If N(current) == N(reference) the current function is a refactoring of the
reference function and every obligation established for the reference
carries over.  Otherwise the function is analysed as it stands.
"""
import ast
import copy
import os

from .core import call_name, dotted, params, target_names, u
from .match import canon
from .rename import local_names

PURE_FUNCS = {'len', 'range', 'int', 'float', 'abs', 'min', 'max', 'sum', 'sorted', 'list', 'tuple', 'zip',
              'enumerate', 'isinstance', 'type', 'hasattr', 'getattr', 'str', 'bool', 'set', 'dict', 'repr',
              'slice', 'callable', 'any', 'all', 'reversed', 'round', 'divmod', '__cy_cast__', 'fabs'}
PURE_METHODS = {'sum', 'max', 'min', 'argmax', 'argmin', 'copy', 'astype', 'reshape', 'flatten', 'ravel', 'toarray',
                'todense', 'tolil', 'tocsr', 'tocsc', 'tocoo', 'transpose', 'mean', 'all', 'any', 'cumsum', 'argsort',
                'dot', 'multiply', 'squeeze', 'items', 'keys', 'values', 'get', 'format', 'tolist', 'nonzero',
                'asfptype', 'count', 'index', 'startswith', 'endswith', 'split', 'join', 'select', 'atom_slice',
                'slice', 'conj', 'diagonal', 'view', 'clip', 'round', 'std', 'var', 'prod', 'rmatvec', 'matvec'}
IMPURE_NP = {'np.copyto', 'np.fill_diagonal', 'np.put', 'np.place', 'np.putmask', 'np.random.shuffle', 'np.save',
             'np.savetxt', 'np.load', 'np.loadtxt', 'np.random.seed'}
MUTATING_METHODS = {'append', 'extend', 'insert', 'pop', 'remove', 'sort', 'reverse', 'clear', 'update', 'fill',
                    'put', 'itemset', 'resize', 'setdiag', 'partition', 'add', 'discard', 'center_coordinates',
                    'setdefault', 'popitem', 'write', 'writerow', 'writerows', 'close'}
LOG_BASES = {'logger', 'logging', 'log'}

# positional parameter names of frequently used library calls (for keyword
# <-> positional normalisation)
SIGNATURES = {
    'np.zeros': ['shape', 'dtype'], 'np.ones': ['shape', 'dtype'], 'np.empty': ['shape', 'dtype'],
    'np.full': ['shape', 'fill_value', 'dtype'], 'np.array': ['object', 'dtype'], 'np.asarray': ['a', 'dtype'],
    'np.digitize': ['x', 'bins'], 'np.concatenate': ['arrays', 'axis'], 'np.frombuffer': ['buffer', 'dtype'],
    'np.arange': None, 'np.where': None,
    'warnings.warn': ['message', 'category'], 'scipy.sparse.linalg.eigs': ['A', 'k'],
    'scipy.sparse.dia_matrix': ['arg1', 'shape'], 'scipy.sparse.coo_matrix': ['arg1', 'shape'],
    'ra.RaggedArray': ['array', 'lengths'], 'RaggedArray': ['array', 'lengths'],
    'connected_components': ['csgraph', 'directed', 'connection', 'return_labels'],
}


def is_pure(e):
    """Conservative purity of an expression (no side effects, deterministic)."""
    for n in ast.walk(e):
        if isinstance(n, (ast.Yield, ast.YieldFrom, ast.Await, ast.NamedExpr, ast.Lambda)):
            return False
        if isinstance(n, ast.Call):
            cn = call_name(n) or ''
            if isinstance(n.func, ast.Name):
                if n.func.id not in PURE_FUNCS:
                    return False
            elif cn in ('mpi.rank', 'mpi.size') and not n.args and not n.keywords:
                pass        # enspara.mpi: the rank and the size of the world are constants of the process
            elif isinstance(n.func, ast.Attribute):
                if cn.startswith('np.') or cn.startswith('numpy.') or cn.startswith('scipy.') or cn.startswith('math.'):
                    if cn in IMPURE_NP or '.random.' in cn:
                        return False
                elif n.func.attr in PURE_METHODS:
                    pass
                else:
                    return False
            else:
                return False
    return True


class _Extra(ast.NodeTransformer):
    """Extra canonical spellings beyond sa.match.canon."""

    def __init__(self, sigs=None):
        self.sigs = sigs or {}

    def visit_Call(self, node):
        self.generic_visit(node)
        cn = call_name(node) or ''
        if cn in ('np.identity',) and len(node.args) == 1 and not node.keywords:
            node.func = ast.Attribute(value=ast.Name(id='np', ctx=ast.Load()), attr='eye', ctx=ast.Load())
        if cn == 'np.append' and len(node.args) == 2 and not node.keywords:
            return ast.copy_location(ast.Call(
                func=ast.Attribute(value=ast.Name(id='np', ctx=ast.Load()), attr='concatenate', ctx=ast.Load()),
                args=[ast.Tuple(elts=list(node.args), ctx=ast.Load())], keywords=[]), node)
        if cn in ('np.row_stack', 'np.vstack', 'np.hstack', 'np.concatenate', 'np.stack', 'np.dstack', 'np.column_stack') \
                and node.args and isinstance(node.args[0], ast.List):
            node.args[0] = ast.copy_location(ast.Tuple(elts=node.args[0].elts, ctx=ast.Load()), node.args[0])
        if cn == 'np.array' and len(node.args) == 1 and isinstance(node.args[0], ast.Name) and \
                len(node.keywords) == 1 and node.keywords[0].arg == 'copy' and isinstance(node.keywords[0].value, ast.Constant) \
                and node.keywords[0].value.value is True:
            return ast.copy_location(ast.Call(func=ast.Attribute(value=node.args[0], attr='copy', ctx=ast.Load()), args=[], keywords=[]), node)
        if cn == 'dict' and len(node.args) == 1 and not node.keywords and isinstance(node.args[0], ast.GeneratorExp) \
                and isinstance(node.args[0].elt, ast.Tuple) and len(node.args[0].elt.elts) == 2:
            g = node.args[0]
            return ast.copy_location(ast.DictComp(key=g.elt.elts[0], value=g.elt.elts[1], generators=g.generators), node)
        if isinstance(node.func, ast.Attribute) and node.func.attr in ('argmax', 'argmin', 'max', 'min', 'sum') and \
                isinstance(node.func.value, ast.Call) and call_name(node.func.value) in ('np.asarray', 'np.array') and \
                len(node.func.value.args) == 1 and not node.func.value.keywords:
            node.func.value = node.func.value.args[0]
        if cn in ('np.real', 'np.imag') and len(node.args) == 1 and not node.keywords:
            return ast.copy_location(ast.Attribute(value=node.args[0], attr=cn[3:], ctx=ast.Load()), node)
        if isinstance(node.func, ast.Attribute) and node.func.attr == 'dot' and len(node.args) == 1 and not node.keywords \
                and not (isinstance(node.func.value, ast.Name) and node.func.value.id in ('np', 'numpy')):
            return ast.copy_location(ast.BinOp(left=node.func.value, op=ast.MatMult(), right=node.args[0]), node)
        if cn == 'np.nonzero' and len(node.args) == 1 and not node.keywords:
            node.func = ast.Attribute(value=ast.Name(id='np', ctx=ast.Load()), attr='where', ctx=ast.Load())
        if isinstance(node.func, ast.Attribute) and node.func.attr == 'transpose' and not node.args and not node.keywords:
            return ast.copy_location(ast.Attribute(value=node.func.value, attr='T', ctx=ast.Load()), node)
        if isinstance(node.func, ast.Attribute) and node.func.attr == 'reshape' and len(node.args) == 1 \
                and isinstance(node.args[0], ast.Tuple) and not node.keywords:
            node.args = list(node.args[0].elts)
        if cn == 'np.reshape' and len(node.args) == 2 and not node.keywords:
            shp = node.args[1]
            return self.visit(ast.copy_location(ast.Call(
                func=ast.Attribute(value=node.args[0], attr='reshape', ctx=ast.Load()),
                args=list(shp.elts) if isinstance(shp, ast.Tuple) else [shp], keywords=[]), node))
        # keyword <-> positional
        sig = SIGNATURES.get(cn) or self.sigs.get(cn) or self.sigs.get(cn.split('.')[-1])
        if sig:
            new_kw = []
            args = list(node.args)
            if not any(isinstance(a, ast.Starred) for a in args) and not any(k.arg is None for k in node.keywords):
                kws = {k.arg: k.value for k in node.keywords}
                for i, a in enumerate(args):
                    if i < len(sig):
                        kws.setdefault(sig[i], a)
                    else:
                        return node
                node.args = []
                node.keywords = [ast.keyword(arg=k, value=v) for k, v in sorted(kws.items())]
        else:
            node.keywords = sorted(node.keywords, key=lambda k: k.arg or '')
        return node

    def visit_Subscript(self, node):
        self.generic_visit(node)
        # x[a::1] -> x[a:]
        def fix(sl):
            if isinstance(sl, ast.Slice) and isinstance(sl.step, ast.Constant) and sl.step.value == 1:
                sl.step = None
            return sl
        if isinstance(node.slice, ast.Slice):
            fix(node.slice)
        elif isinstance(node.slice, ast.Tuple):
            for e in node.slice.elts:
                fix(e)
        # (X.shape[0] is NOT rewritten to len(X): len() raises for scipy sparse matrices - finding F11)
        return node

    def visit_ListComp(self, node):
        self.generic_visit(node)
        # [E for _ in range(n)]  ->  [E] * n   (E does not depend on the loop variable)
        if len(node.generators) == 1 and not node.generators[0].ifs and isinstance(node.generators[0].iter, ast.Call) \
                and call_name(node.generators[0].iter) == 'range' and len(node.generators[0].iter.args) == 1:
            tv = set(target_names(node.generators[0].target))
            if not (tv & {n.id for n in ast.walk(node.elt) if isinstance(n, ast.Name)}) and isinstance(node.elt, (ast.Name, ast.Constant)):
                return ast.copy_location(ast.BinOp(left=ast.List(elts=[node.elt], ctx=ast.Load()), op=ast.Mult(),
                                                   right=node.generators[0].iter.args[0]), node)
        return node

    def visit_Lambda(self, node):
        self.generic_visit(node)
        a = node.args
        if len(a.args) == 1 and not a.defaults and isinstance(node.body, ast.Subscript) and isinstance(node.body.value, ast.Name) \
                and node.body.value.id == a.args[0].arg and isinstance(node.body.slice, ast.Constant):
            return ast.copy_location(ast.Call(func=ast.Attribute(value=ast.Name(id='operator', ctx=ast.Load()), attr='itemgetter', ctx=ast.Load()),
                                              args=[node.body.slice], keywords=[]), node)
        return node

    def visit_Assign(self, node):
        self.generic_visit(node)
        # x[...] = 0.0  ->  x[...] = 0   (the stored value takes the array dtype)
        if len(node.targets) == 1 and isinstance(node.targets[0], ast.Subscript) and isinstance(node.value, ast.Constant) \
                and isinstance(node.value.value, float) and node.value.value == int(node.value.value):
            node.value = ast.copy_location(ast.Constant(value=int(node.value.value)), node.value)
        return node

    def visit_Constant(self, node):
        if node.value == 'O' and isinstance(node.value, str):
            return ast.copy_location(ast.Name(id='object', ctx=ast.Load()), node)
        return node

    def visit_keyword(self, node):
        self.generic_visit(node)
        return node


class _Mask(ast.NodeTransformer):
    def __init__(self, names):
        self.names = names

    def visit_Name(self, node):
        if node.id in self.names:
            return ast.Name(id='_', ctx=node.ctx)
        return node


class _SymOrder(ast.NodeTransformer):
    """Canonical operand order for symmetric relations (==, !=, is, is not).
    The key ignores the spelling of local names (mask) so that it is stable
    under renaming and forward substitution; constants go right."""

    def __init__(self, mask_names):
        self.mask = mask_names

    def _key(self, e):
        return ast.dump(_Mask(self.mask).visit(copy.deepcopy(e)))

    def visit_Compare(self, node):
        self.generic_visit(node)
        if len(node.ops) == 1 and isinstance(node.ops[0], (ast.Eq, ast.NotEq, ast.Is, ast.IsNot)):
            a, b = node.left, node.comparators[0]
            if isinstance(a, ast.Constant) and not isinstance(b, ast.Constant):
                swap = True
            elif isinstance(b, ast.Constant):
                swap = False
            else:
                ka, kb = self._key(a), self._key(b)
                swap = ka > kb or (ka == kb and ast.dump(a) > ast.dump(b))
            if swap:
                node.left, node.comparators = b, [a]
        return node


def _terminal(stmts):
    if not stmts:
        return False
    s = stmts[-1]
    if isinstance(s, (ast.Return, ast.Raise, ast.Continue, ast.Break)):
        return True
    if isinstance(s, ast.If) and s.orelse:
        return _terminal(s.body) and _terminal(s.orelse)
    return False


def _is_log_stmt(s):
    if isinstance(s, ast.Expr) and isinstance(s.value, ast.Call):
        d = call_name(s.value) or ''
        base = d.split('.')[0]
        if base in LOG_BASES and d.split('.')[-1] in ('debug', 'info', 'warning', 'warn', 'error', 'log', 'critical'):
            return True
    if isinstance(s, ast.Expr) and isinstance(s.value, ast.Constant):
        return True     # docstring / bare constant
    return isinstance(s, ast.Pass)


def _drop_trailing(stmts, kinds):
    """A bare `return` at the end of a function / a `continue` at the end of a loop body does nothing:
    drop it, also at the end of the arms of a trailing if."""
    while stmts:
        t = stmts[-1]
        if (isinstance(t, ast.Continue) and 'continue' in kinds) or (
                'return' in kinds and isinstance(t, ast.Return) and (t.value is None or (isinstance(t.value, ast.Constant) and t.value.value is None))):
            stmts = stmts[:-1]
            continue
        if isinstance(t, ast.If):
            t.body = _drop_trailing(t.body, kinds) or [ast.Pass()]
            t.orelse = _drop_trailing(t.orelse, kinds)
            if all(isinstance(x, ast.Pass) for x in t.body) and t.orelse:
                t.test = ast.copy_location(ast.UnaryOp(op=ast.Not(), operand=t.test), t.test)
                t.body, t.orelse = t.orelse, []
        break
    return stmts


def _loops_trailing(stmts):
    for s in stmts:
        for n in ast.walk(s):
            if isinstance(n, (ast.For, ast.While)):
                n.body = _drop_trailing(n.body, ('continue',)) or [ast.Pass()]


def _clean_block(stmts):
    out = []
    for s in stmts:
        if _is_log_stmt(s):
            continue
        for f in ('body', 'orelse', 'finalbody'):
            b = getattr(s, f, None)
            if isinstance(b, list) and b and isinstance(b[0], ast.stmt) and not isinstance(s, (ast.FunctionDef, ast.ClassDef)):
                setattr(s, f, _clean_block(b))
        if isinstance(s, ast.Try):
            for h in s.handlers:
                h.body = _clean_block(h.body) or [ast.Pass()]
        if isinstance(s, (ast.With,)) and not s.body:
            continue
        out.append(s)
    # guard-clause form
    res = []
    i = 0
    while i < len(out):
        s = out[i]
        if isinstance(s, ast.If) and not s.orelse and _terminal(s.body) and i + 1 < len(out):
            s.orelse = _clean_block(out[i + 1:])
            res.append(s)
            return res
        if isinstance(s, ast.If) and s.orelse and _terminal(s.body) and not _terminal(s.orelse) and i + 1 < len(out):
            s.orelse = _clean_block(s.orelse + out[i + 1:])
            res.append(s)
            return res
        res.append(s)
        i += 1
    # a trailing bare `return` / `return None`
    return res


def _mutated_names(stmts, kinds=False):
    """Names rebound or mutated anywhere in stmts -> list of (stmt index, name)
    [with kinds=True: (stmt index, name, kind), kind 'rebind' | 'element' (x[...] = v, x[...] op= v:
    the shape, dtype and length of an ndarray x are unaffected) | 'other']."""
    res = _mutated_names_k(stmts)
    return res if kinds else [(i, n) for (i, n, k) in res]


def _mutated_names_k(stmts):
    out = []
    for idx, s in enumerate(stmts):
        for n in ast.walk(s):
            if isinstance(n, (ast.Assign, ast.AugAssign, ast.AnnAssign, ast.For, ast.With, ast.Delete)):
                tgts = []
                if isinstance(n, ast.Assign):
                    tgts = n.targets
                elif isinstance(n, (ast.AugAssign, ast.AnnAssign, ast.For)):
                    tgts = [n.target]
                elif isinstance(n, ast.With):
                    tgts = [i.optional_vars for i in n.items if i.optional_vars is not None]
                elif isinstance(n, ast.Delete):
                    tgts = n.targets
                for t in tgts:
                    for el in (t.elts if isinstance(t, (ast.Tuple, ast.List)) else [t]):
                        b = el
                        kind = 'rebind' if isinstance(el, ast.Name) else (
                            'element' if isinstance(el, ast.Subscript) and isinstance(el.value, ast.Name)
                            and isinstance(n, (ast.Assign, ast.AugAssign)) else 'other')
                        while isinstance(b, (ast.Attribute, ast.Subscript, ast.Starred)):
                            b = b.value
                        if isinstance(b, ast.Name):
                            out.append((idx, b.id, kind))
                        elif isinstance(b, (ast.Tuple, ast.List)):
                            for tt in ast.walk(b):
                                if isinstance(tt, ast.Name):
                                    out.append((idx, tt.id, 'rebind'))
            if isinstance(n, ast.Call) and isinstance(n.func, ast.Attribute) and n.func.attr in MUTATING_METHODS:
                b = n.func.value
                while isinstance(b, (ast.Attribute, ast.Subscript)):
                    b = b.value
                if isinstance(b, ast.Name):
                    out.append((idx, b.id, 'other'))
            if isinstance(n, ast.Call):
                for k in n.keywords:
                    if k.arg == 'out':
                        # the object written is the root of the out= expression
                        # (a fresh np.zeros(...) passed as out= mutates nothing nameable)
                        vals = k.value.elts if isinstance(k.value, (ast.Tuple, ast.List)) else [k.value]
                        for b in vals:
                            while isinstance(b, (ast.Attribute, ast.Subscript)):
                                b = b.value
                            if isinstance(b, ast.Name):
                                out.append((idx, b.id, 'other'))
    return out


def _shape_only(e, nm):
    """Every occurrence of nm in e is nm.shape / nm.ndim / nm.dtype / nm.size."""
    ok = True
    par = {}
    for n in ast.walk(e):
        for c in ast.iter_child_nodes(n):
            par[c] = n
    for n in ast.walk(e):
        if isinstance(n, ast.Name) and n.id == nm:
            p = par.get(n)
            if not (isinstance(p, ast.Attribute) and p.attr in ('shape', 'ndim', 'dtype', 'size')):
                ok = False
    return ok


class _Subst(ast.NodeTransformer):
    def __init__(self, name, expr):
        self.name, self.expr = name, expr
        self.count = 0

    def visit_Name(self, node):
        if node.id == self.name and isinstance(node.ctx, ast.Load):
            self.count += 1
            return copy.deepcopy(self.expr)
        return node


def _occurrences(node_or_list, name):
    nodes = node_or_list if isinstance(node_or_list, list) else [node_or_list]
    c = 0
    for n0 in nodes:
        for n in ast.walk(n0):
            if isinstance(n, ast.Name) and n.id == name:
                c += 1
            elif isinstance(n, ast.arg) and n.arg == name:
                c += 1
    return c


def _c_typed(root):
    """Locals with a declared C type (.pyx `cdef T x [= e]`): name -> type text.  Binding such a name is
    an implicit CONVERSION to T, so it is a pure alias of its defining expression only when that expression
    is an explicit cast to the same T."""
    out = {}
    if root is None:
        return out
    for n in ast.walk(root):
        if isinstance(n, ast.AnnAssign) and isinstance(n.target, ast.Name):
            a = n.annotation
            out[n.target.id] = a.value if isinstance(a, ast.Constant) else ast.dump(a)
    return out


def _alias_of_typed(name, e, typed):
    if name not in typed:
        return True
    return isinstance(e, ast.Call) and isinstance(e.func, ast.Name) and e.func.id == '__cy_cast__' and e.args \
        and isinstance(e.args[0], ast.Constant) and e.args[0].value == typed[name]


def _inline_block(stmts, fn_locals, param_names, root=None):
    """Forward-substitute single-definition pure temporaries within a block
    (recursively in nested blocks first)."""
    typed = _c_typed(root)
    for s in stmts:
        for f in ('body', 'orelse', 'finalbody'):
            b = getattr(s, f, None)
            if isinstance(b, list) and b and isinstance(b[0], ast.stmt) and not isinstance(s, (ast.FunctionDef, ast.ClassDef)):
                setattr(s, f, _inline_block(b, fn_locals, param_names, root))
        if isinstance(s, ast.Try):
            for h in s.handlers:
                h.body = _inline_block(h.body, fn_locals, param_names, root)
    changed = True
    guard = 0
    while changed and guard < 200:
        guard += 1
        changed = False
        muts3 = _mutated_names(stmts, kinds=True)
        muts = [(a, b) for (a, b, c) in muts3]
        for i, s in enumerate(stmts):
            if not (isinstance(s, ast.Assign) and len(s.targets) == 1 and isinstance(s.targets[0], ast.Name)):
                continue
            name = s.targets[0].id
            if name in param_names:
                continue
            if fn_locals.get(name, 0) != 1:
                # several definitions in the function: still a block-local
                # temporary if the name does not occur outside stmts[i:]
                if root is None or _occurrences(root, name) != _occurrences(stmts[i:], name):
                    continue
                if sum(1 for (idx, nm) in muts if nm == name and idx > i) > 0:
                    continue
            e = s.value
            if not is_pure(e):
                continue
            if not _alias_of_typed(name, e, typed):
                continue
            if isinstance(e, ast.GeneratorExp):
                continue        # single-shot iterators must not be duplicated
            # uses must all be in later statements of this block
            operands = {n.id for n in ast.walk(e) if isinstance(n, ast.Name)}
            later = stmts[i + 1:]
            uses = []
            for j, t in enumerate(later):
                for n in ast.walk(t):
                    if isinstance(n, ast.Name) and n.id == name:
                        uses.append(j)
            if not uses:
                continue
            last = max(uses)
            # operands (and the name itself) untouched up to the last use
            bad = False
            shape_ops = {nm for nm in operands if _shape_only(e, nm)}
            for (idx, nm, kind) in muts3:
                if kind == 'element' and nm in shape_ops and nm != name:
                    continue
                if i < idx <= i + 1 + last and (nm in operands or nm == name):
                    # a store performed BY the statement of the last use happens
                    # after its operands were evaluated: harmless for simple
                    # statements (x[m] = v, x op= v, y = x.pop(k))
                    if idx == i + 1 + last and isinstance(stmts[idx], (ast.Assign, ast.AugAssign, ast.Expr, ast.Return)) \
                            and nm != name and sum(1 for j in uses if j == last) >= 1 and \
                            not any(j2 == idx for (j2, n2) in muts if n2 == name):
                        continue
                    bad = True
                    break
            if bad:
                continue
            # loops: a use inside a loop whose body mutates an operand
            for j in range(last + 1):
                t = later[j]
                if isinstance(t, (ast.For, ast.While)):
                    inner = _mutated_names([t], kinds=True)
                    if any(nm in operands and not (kind == 'element' and nm in shape_ops) for (_, nm, kind) in inner):
                        bad = True
            if bad:
                continue
            for j in range(last + 1):
                later[j] = _Subst(name, e).visit(later[j])
            stmts = stmts[:i] + later
            changed = True
            break
    return stmts


def _count_defs(fn):
    counts = {}
    for n in ast.walk(fn):
        tg = []
        if isinstance(n, ast.Assign):
            tg = n.targets
        elif isinstance(n, (ast.AugAssign, ast.AnnAssign, ast.For)):
            tg = [n.target]
        elif isinstance(n, ast.With):
            tg = [i.optional_vars for i in n.items if i.optional_vars is not None]
        elif isinstance(n, ast.comprehension):
            tg = [n.target]
        elif isinstance(n, ast.NamedExpr):
            tg = [n.target]
        elif isinstance(n, ast.ExceptHandler) and n.name:
            counts[n.name] = counts.get(n.name, 0) + 1
        for t in tg:
            for nm in target_names(t):
                counts[nm] = counts.get(nm, 0) + 1
            if isinstance(n, ast.AnnAssign) and n.value is None:
                for nm in target_names(t):
                    counts[nm] -= 1
    return counts


class _Alpha(ast.NodeTransformer):
    def __init__(self, names):
        self.names = names
        self.map = {}

    def _get(self, nm):
        if nm in self.names:
            if nm not in self.map:
                self.map[nm] = 'v%d' % len(self.map)
            return self.map[nm]
        return nm

    def visit_Name(self, node):
        node.id = self._get(node.id)
        return node

    def visit_arg(self, node):
        node.arg = self._get(node.arg)
        return node

    def visit_ExceptHandler(self, node):
        if node.name:
            node.name = self._get(node.name)
        self.generic_visit(node)
        return node


def _scope_bound_loads(f):
    """Name loads bound by an enclosing comprehension target or lambda parameter: they belong to that
    inner scope, whatever the statement-level reaching definitions of the same identifier say."""
    out = set()

    def walk(node, bound):
        if isinstance(node, (ast.ListComp, ast.SetComp, ast.GeneratorExp, ast.DictComp)):
            b = set(bound)
            for i, g in enumerate(node.generators):
                walk(g.iter, b if i else bound)      # the first iterable is evaluated in the enclosing scope
                b |= set(target_names(g.target))
                for c in g.ifs:
                    walk(c, b)
            for fld in ('elt', 'key', 'value'):
                v = getattr(node, fld, None)
                if v is not None:
                    walk(v, b)
            return
        if isinstance(node, ast.Lambda):
            a = node.args
            b = set(bound) | {x.arg for x in a.posonlyargs + a.args + a.kwonlyargs} | \
                ({a.vararg.arg} if a.vararg else set()) | ({a.kwarg.arg} if a.kwarg else set())
            for d in a.defaults + [x for x in a.kw_defaults if x is not None]:
                walk(d, bound)
            walk(node.body, b)
            return
        if isinstance(node, ast.Name):
            if isinstance(node.ctx, ast.Load) and node.id in bound:
                out.add(node)
            return
        for c in ast.iter_child_nodes(node):
            walk(c, bound)
    walk(f, set())
    return out


def _ssa_lite(f):
    """Give every simple definition `x = E` whose uses see no other
    definition of x a fresh name (so that re-used variable names do not hide
    temporaries)."""
    from .cfg import FuncInfo
    from .core import Module
    try:
        m = Module('<nf>', '', ast.Module(body=[f], type_ignores=[]), 'py')
        fi = FuncInfo(m, f)
    except Exception:
        return f
    pnames = set(params(f))
    uses = {}
    scoped = _scope_bound_loads(f)
    for n in ast.walk(f):
        if isinstance(n, ast.Name) and isinstance(n.ctx, ast.Load) and n not in scoped:
            try:
                ds = fi.defs_of_use(n)
            except Exception:
                ds = set()
            uses[n] = ds
    k = 0
    # how many definition sites does each name have?
    counts = _count_defs(f)
    for site in list(fi.cfg.nodes):
        if isinstance(site, ast.Assign) and len(site.targets) == 1 and isinstance(site.targets[0], ast.Name):
            tnodes = [site.targets[0]]
        elif isinstance(site, ast.For) and isinstance(site.target, ast.Name):
            tnodes = [site.target]
        elif isinstance(site, ast.For) and isinstance(site.target, ast.Tuple) and all(isinstance(e, ast.Name) for e in site.target.elts):
            tnodes = list(site.target.elts)
        else:
            continue
        for tnode in tnodes:
            name = tnode.id
            if counts.get(name, 0) + (1 if name in pnames else 0) <= 1:
                continue
            reached = [n for n, ds in uses.items() if n.id == name and site in ds]
            if not reached or any(ds != {site} for n, ds in uses.items() if n in reached):
                continue
            if isinstance(site, ast.For) and any(isinstance(n, ast.Name) and n.id == name and isinstance(n.ctx, (ast.Store, ast.Del))
                                                 for b in site.body + site.orelse for n in ast.walk(b)):
                continue
            # the value must not be observable after the function through the name
            fresh = '%s__d%d' % (name, k)
            k += 1
            tnode.id = fresh
            for n in reached:
                n.id = fresh
    return f


class _KeepApart(ast.NodeTransformer):
    """Spellings that sa/match.py identifies for rule MATCHING under a shape
    assumption (1-D operand) are kept distinct in the normal form, which is a
    claim of equivalence for every input."""

    def visit_Subscript(self, node):
        self.generic_visit(node)
        o = getattr(node, '_canon_origin', None)
        if o:
            return ast.copy_location(ast.Call(func=ast.Name(id='__spelled_' + o, ctx=ast.Load()), args=[node], keywords=[]), node)
        return node


def _hoist_declarations(f):
    """Bare C declarations (`cdef double x` -> `x: 'double'`) may stand anywhere before the first use:
    collect them at the top of the function, ordered by the first occurrence of the name in the code."""
    decls = []

    def strip(stmts):
        out = []
        for s in stmts:
            if isinstance(s, ast.AnnAssign) and s.value is None and isinstance(s.target, ast.Name):
                decls.append(s)
                continue
            for fld in ('body', 'orelse', 'finalbody'):
                b = getattr(s, fld, None)
                if isinstance(b, list) and b and isinstance(b[0], ast.stmt) and not isinstance(s, (ast.FunctionDef, ast.ClassDef)):
                    setattr(s, fld, strip(b) or [ast.Pass()])
            out.append(s)
        return out
    body = strip(f.body)
    if not decls:
        return
    order = {}
    for n in ast.walk(ast.Module(body=body, type_ignores=[])):
        if isinstance(n, ast.Name) and n.id not in order:
            order[n.id] = len(order)
    decls.sort(key=lambda d: (order.get(d.target.id, 10 ** 6), d.target.id))
    f.body = decls + (body or [ast.Pass()])


class _LenOfTyped(ast.NodeTransformer):
    """len(v) -> v.shape[0] for arguments declared as typed memoryviews / ndarray buffers (.pyx)."""

    def __init__(self, names):
        self.names = names

    def visit_Call(self, node):
        self.generic_visit(node)
        if isinstance(node.func, ast.Name) and node.func.id == 'len' and len(node.args) == 1 and not node.keywords \
                and isinstance(node.args[0], ast.Name) and node.args[0].id in self.names:
            return ast.copy_location(ast.Subscript(value=ast.Attribute(value=node.args[0], attr='shape', ctx=ast.Load()),
                                                   slice=ast.Constant(value=0), ctx=ast.Load()), node)
        return node


def normal_form(fn, sigs=None):
    f = copy.deepcopy(fn)
    f = canon(f)
    for n in ast.walk(f):
        # np.array(x) was spelled x.copy() for rule matching; as a claim of
        # equivalence that is wrong for lists, so the normal form keeps them apart
        if isinstance(n, ast.Call) and getattr(n, '_from_np_array', False) and isinstance(n.func, ast.Attribute):
            n.args = [n.func.value]
            n.func = ast.Attribute(value=ast.Name(id='np', ctx=ast.Load()), attr='array', ctx=ast.Load())
    f = _KeepApart().visit(f)
    f = _Extra(sigs).visit(f)
    f.decorator_list = list(f.decorator_list)
    f.body = _clean_block(f.body) or [ast.Pass()]
    ast.fix_missing_locations(f)
    name = getattr(f, 'name', '')
    private = name.startswith('_') and not (name.startswith('__') and name.endswith('__'))
    pnames = set(params(f))
    use_idioms = os.environ.get('VERIF_NO_IDIOMS') != '1'
    idi = None
    if use_idioms:
        from .idioms import Idioms
        arrs = [k for k, v in getattr(fn, 'cy_argtypes', {}).items() if '[' in getattr(v, 'text', '') or 'ndarray' in getattr(v, 'text', '')]
        idi = Idioms(f, sigs, is_pure, arrs)
        if arrs:
            _LenOfTyped(set(arrs)).visit(f)
    prev = None
    for _round in range(4):
        if idi is not None:
            idi.exprs()
            f.body = idi.block(f.body, f) or [ast.Pass()]
            ast.fix_missing_locations(f)
        f = _ssa_lite(f)
        counts = _count_defs(f)
        for p in pnames:
            counts[p] = counts.get(p, 0) + 1
        f.body = _inline_block(f.body, counts, pnames, f)
        f.body = _clean_block(f.body) or [ast.Pass()]
        if idi is not None:
            _loops_trailing(f.body)
            f.body = _drop_trailing(f.body, ('return',)) or [ast.Pass()]
        ast.fix_missing_locations(f)
        cur = ast.dump(f)
        if idi is None or cur == prev:
            break
        prev = cur
    if idi is not None:
        f = _Extra(sigs).visit(f)
        _hoist_declarations(f)
    locs = local_names(f)
    if private:
        locs |= pnames
    else:
        locs -= pnames
    locs.discard('self')
    # drop a trailing `return None`/bare return at function end
    if f.body and isinstance(f.body[-1], ast.Return) and (f.body[-1].value is None or (
            isinstance(f.body[-1].value, ast.Constant) and f.body[-1].value.value is None)) and len(f.body) > 1:
        f.body = f.body[:-1]
    f.body = [_SymOrder(locs).visit(st) for st in f.body]
    al = _Alpha(locs)
    for a in f.args.posonlyargs + f.args.args + f.args.kwonlyargs:
        al.visit_arg(a)
    f.body = [al.visit(s) for s in f.body]
    f.body = [_SymOrder(set()).visit(st) for st in f.body]
    ast.fix_missing_locations(f)
    f._alpha_map = dict(al.map)
    return f


def nf_key(fn, sigs=None):
    f = normal_form(fn, sigs)
    parts = [ast.dump(f.args)] + [ast.dump(s) for s in f.body]
    extra = ''
    if hasattr(fn, 'cy_directives'):
        extra = repr(sorted(fn.cy_directives.items())) + repr(sorted((k, v.text) for k, v in fn.cy_argtypes.items()))
    return '\n'.join(parts) + extra


def package_signatures(mods):
    """bare function name -> positional parameter names, for module-level
    functions of the package (names defined with different signatures in
    several modules are dropped)."""
    if not isinstance(mods, (list, tuple)):
        mods = [mods]
    sigs = {}
    amb = set()
    for mod in mods:
        for q, fn in mod.functions.items():
            if '.' in q:
                continue
            a = fn.args
            if a.vararg is not None:
                amb.add(q)
                continue
            sig = [x.arg for x in a.posonlyargs + a.args]
            if q in sigs and sigs[q] != sig:
                amb.add(q)
            sigs[q] = sig
    for q in amb:
        sigs.pop(q, None)
    from .idioms import return_arities, namedtuple_info
    sigs['__arity__'] = return_arities(mods)
    sigs['__nt__'], sigs['__returns_nt__'] = namedtuple_info(mods)
    return sigs


def nf_name_votes(cur_fn, ref_fn, sigs=None):
    """Name correspondences between two functions read off their normal
    forms: statements of N(cur) and N(ref) that are identical (after
    alpha-renaming) pin the locals occurring in them.  Temporaries introduced
    or removed by a refactoring have disappeared in the normal forms, so this
    aligns the remaining (state) variables even when the statement lists of
    the raw functions differ.  Returns {cur_name: {ref_name: votes}}."""
    import difflib
    from .rename import header_only
    a, b = normal_form(cur_fn, sigs), normal_form(ref_fn, sigs)
    inv_a = {v: k for k, v in a._alpha_map.items()}
    inv_b = {v: k for k, v in b._alpha_map.items()}

    def flat(f):
        out = []
        for st in ast.walk(f):
            if isinstance(st, ast.stmt) and st is not f:
                h = header_only(st)
                out.append((getattr(st, 'lineno', 0), ast.dump(h), {n.id for n in ast.walk(h) if isinstance(n, ast.Name)}))
        out.sort(key=lambda t: t[0])
        return out
    fa, fb = flat(a), flat(b)
    sm = difflib.SequenceMatcher(a=[x[1] for x in fa], b=[x[1] for x in fb], autojunk=False)
    votes = {}
    for blk in sm.get_matching_blocks():
        for k in range(blk.size):
            for v in fa[blk.a + k][2]:
                if v in inv_a and v in inv_b:
                    x, y = inv_a[v], inv_b[v]
                    if '__d' in x or '__d' in y:
                        continue
                    votes.setdefault(x, {}).setdefault(y, 0)
                    votes[x][y] += 1
    return votes

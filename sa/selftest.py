"""Self-validation of the checkers ("test the checker both ways").

Twins  : behaviour-preserving whole-file transformations computed on the ast
         (rename locals, flip comparison direction, method<->function form of
         reductions, None<->np.newaxis, inserted no-op statements / shifted
         lines).  Every check must stay silent on them.
Mutants: single-site edits of the functions a property anchors (comparison
         strictness/direction, argmax<->argmin, axis 0<->1, dropped .copy(),
         zeros->empty, and<->or, deleted store).  The fraction flagged is a
         mutation score reported in the thorough evidence (some mutants are
         equivalent, so it is informational and never changes an exit code).

Scratch trees live under $TMPDIR and are deleted after each variant.
"""
import ast
import concurrent.futures as cf
import copy
import json
import os
import re
import shutil
import subprocess
import sys
import tempfile

from .core import REPO, call_name, params
from .rename import local_names

HERE = os.path.dirname(os.path.dirname(os.path.abspath(__file__)))
PIDS = ['C%02d' % i for i in range(1, 21)]


def anchored_py_files():
    files = set()
    with open(os.path.join(HERE, 'properties.jsonl')) as f:
        for line in f:
            p = json.loads(line)
            for rel in p['anchors']['files']:
                if rel.endswith('.py'):
                    files.add(rel)
    files |= {'enspara/cluster/kcenters.py', 'enspara/cluster/kmedoids.py', 'enspara/cluster/hybrid.py'}
    return sorted(files)


# ---------------------------------------------------------------------------
# twins

class RenameLocals(ast.NodeTransformer):
    """Rename every local (not parameter) of every function to <name>_q."""

    def visit_FunctionDef(self, node):
        locs = local_names(node) - set(params(node))
        # keep names used by nested defs as free variables consistent: the
        # renamer below is applied to the whole function subtree
        glob = set()
        for n in ast.walk(node):
            if isinstance(n, (ast.Global, ast.Nonlocal)):
                glob.update(n.names)
        locs -= glob
        # names bound by an import statement inside the function keep their name (the alias is a string
        # of the import statement, not a Name node: renaming only the uses would not preserve behaviour)
        for n in ast.walk(node):
            if isinstance(n, (ast.Import, ast.ImportFrom)):
                for a in n.names:
                    locs.discard((a.asname or a.name).split('.')[0])
        mapping = {n: n + '_q' for n in locs}

        class R(ast.NodeTransformer):
            def visit_Name(self, n):
                if n.id in mapping:
                    n.id = mapping[n.id]
                return n
        for i, s in enumerate(node.body):
            node.body[i] = R().visit(s)
        return node

    visit_AsyncFunctionDef = visit_FunctionDef


class FlipCompare(ast.NodeTransformer):
    """a < b  ->  b > a   (same for <=, >, >=)."""
    FL = {ast.Lt: ast.Gt, ast.Gt: ast.Lt, ast.LtE: ast.GtE, ast.GtE: ast.LtE}

    def visit_Compare(self, node):
        self.generic_visit(node)
        if len(node.ops) == 1 and type(node.ops[0]) in self.FL:
            return ast.copy_location(ast.Compare(left=node.comparators[0], ops=[self.FL[type(node.ops[0])]()],
                                                 comparators=[node.left]), node)
        return node


class MethodToFunction(ast.NodeTransformer):
    """x.argmax() -> np.argmax(x); x.max() -> np.max(x) (argument-free calls)."""

    def visit_Call(self, node):
        self.generic_visit(node)
        if isinstance(node.func, ast.Attribute) and node.func.attr in ('argmax', 'argmin', 'max', 'min') \
                and not node.args and not node.keywords and not (
                    isinstance(node.func.value, ast.Name) and node.func.value.id in ('np', 'self')):
            return ast.copy_location(ast.Call(
                func=ast.Attribute(value=ast.Name(id='np', ctx=ast.Load()), attr=node.func.attr, ctx=ast.Load()),
                args=[node.func.value], keywords=[]), node)
        return node


class FunctionToMethod(ast.NodeTransformer):
    """np.argmax(x) -> x.argmax()  (single-argument calls)."""

    def visit_Call(self, node):
        self.generic_visit(node)
        if call_name(node) in ('np.argmax', 'np.argmin', 'np.max', 'np.min') and len(node.args) == 1 and not node.keywords:
            return ast.copy_location(ast.Call(func=ast.Attribute(value=node.args[0], attr=call_name(node)[3:], ctx=ast.Load()),
                                              args=[], keywords=[]), node)
        return node


class NoneToNewaxis(ast.NodeTransformer):
    def visit_Subscript(self, node):
        self.generic_visit(node)
        if isinstance(node.slice, ast.Tuple):
            new = []
            ch = False
            for e in node.slice.elts:
                if isinstance(e, ast.Constant) and e.value is None:
                    new.append(ast.Attribute(value=ast.Name(id='np', ctx=ast.Load()), attr='newaxis', ctx=ast.Load()))
                    ch = True
                else:
                    new.append(e)
            if ch:
                node.slice = ast.Tuple(elts=new, ctx=ast.Load())
        return node


class InsertNoops(ast.NodeTransformer):
    """Insert a no-op statement after every simple statement of every
    function body (shifts lines, adds CFG nodes)."""

    def _process(self, body):
        out = []
        for s in body:
            out.append(s)
            if isinstance(s, (ast.Assign, ast.AugAssign, ast.Expr)) and not (
                    isinstance(s, ast.Expr) and isinstance(s.value, ast.Constant)):
                out.append(ast.Expr(value=ast.Call(func=ast.Attribute(value=ast.Name(id='logger', ctx=ast.Load()), attr='debug', ctx=ast.Load()),
                                                   args=[ast.Constant(value='checkpoint')], keywords=[])))
        return out

    def visit_FunctionDef(self, node):
        self.generic_visit(node)
        has_logger = True
        node.body = self._process(node.body)
        for n in ast.walk(node):
            for f in ('body', 'orelse', 'finalbody'):
                b = getattr(n, f, None)
                if isinstance(b, list) and n is not node and b and isinstance(b[0], ast.stmt) and not isinstance(n, (ast.FunctionDef, ast.ClassDef)):
                    setattr(n, f, self._process(b))
        return node


TWINS = {
    'rename-locals': RenameLocals,
    'flip-compare': FlipCompare,
    'method-to-function': MethodToFunction,
    'function-to-method': FunctionToMethod,
    'none-to-newaxis': NoneToNewaxis,
    'insert-noops': InsertNoops,
}


def make_scratch():
    sc = tempfile.mkdtemp(prefix='st-', dir=os.environ.get('TMPDIR', '/tmp'))
    subprocess.run(['rsync', '-a', '--exclude=test', '--exclude=data', '--exclude=__pycache__',
                    '--include=*/', '--include=*.py', '--include=*.pyx', '--exclude=*',
                    os.path.join(REPO, 'enspara'), sc + '/'], check=True)
    return sc


def run_checks(sc, pids):
    env = dict(os.environ, ENSPARA_REPO=sc, VERIF_EVIDENCE_DIR=os.path.join(sc, 'evidence'), VERIF_TIER='quick')
    res = {}
    for pid in pids:
        r = subprocess.run([os.path.join(HERE, 'check'), pid, '--tier', 'quick'], cwd=HERE, env=env, capture_output=True, text=True)
        rules = re.findall(r'rule=(\S+)', r.stdout)
        res[pid] = (r.returncode, sorted(set(rules)), [l for l in r.stdout.splitlines() if 'INCOMPLETE' in l or 'ANALYSIS-ERROR' in l][:3])
    return res


def twin_variant(name, files=None):
    sc = make_scratch()
    try:
        changed = 0
        for rel in files or anchored_py_files():
            path = os.path.join(sc, rel)
            if not os.path.exists(path):
                continue
            src = open(path).read()
            tree = ast.parse(src)
            new = TWINS[name]().visit(tree)
            ast.fix_missing_locations(new)
            out = ast.unparse(new)
            compile(out, rel, 'exec')
            if 'logger.debug' in out and 'logger = ' not in out and name == 'insert-noops':
                out = 'import logging\nlogger = logging.getLogger(__name__)\n' + out
            if out != ast.unparse(ast.parse(src)):
                changed += 1
            open(path, 'w').write(out)
        return name, changed, run_checks(sc, PIDS)
    finally:
        shutil.rmtree(sc, ignore_errors=True)


def run_twins(names=None, verbose=True):
    names = names or list(TWINS)
    alarms = []
    with cf.ThreadPoolExecutor(max_workers=min(8, len(names))) as ex:
        for name, changed, res in ex.map(twin_variant, names):
            bad = {p: v for p, v in res.items() if v[0] != 0}
            if verbose:
                print('TWIN %-20s files changed=%d  alarms=%s' % (name, changed, {p: (v[0], v[1][:4], v[2][:1]) for p, v in bad.items()} or 'none'))
            for p, v in bad.items():
                alarms.append((name, p, v))
    return alarms


def main(args):
    alarms = run_twins()
    print('twin alarms: %d' % len(alarms))
    return 0 if not alarms else 1

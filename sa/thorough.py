"""Thorough tier: everything the quick tier decides, plus a measured
self-validation of the property's rules against the CURRENT tree and
package-wide sweeps of the generic rule families.

  1. generic mutants: single-site AST edits (operators below) of the functions
     the property's rules analysed, each on a scratch copy of /repo's working
     tree that still compiles; the property's quick check is run on every one.
     flagged / incomplete / survived are counted (a mutation score: some
     mutants are equivalent or outside the decided clauses, so the score is
     reported, never turned into a verdict);
  2. seeded changes of this property kept under /verif/seeded (mutants written
     by independent authors from the property text, and behaviour-preserving
     refactorings): patch applied to a scratch copy, check run, outcome
     recorded (caught / missed / silent / alarm / patch-does-not-apply);
  3. generic twins (sa/selftest.py transformers) restricted to the files of the
     analysed functions: the check must stay silent;
  4. package-wide sweeps of the generic families (masked ufunc initialisation,
     np.empty fully written before read, warnings.warn argument order) outside
     the anchors: reported as observations.

Nothing here executes enspara: every step parses and analyses source.
Scratch copies live under $TMPDIR (default /tmp) and are removed at once.
The verdict (exit code) of the property is NOT affected by 1-4; the numbers
go to coverage.thorough in the evidence file.
"""
import ast
import concurrent.futures as cf
import copy
import glob
import os
import random
import re
import shutil
import subprocess
import tempfile

from .core import REPO

HERE = os.path.dirname(os.path.dirname(os.path.abspath(__file__)))
MAX_MUTANTS = int(os.environ.get('VERIF_MAX_MUTANTS', '96'))


# ---------------------------------------------------------------------------
# mutation operators: each yields (description, mutate(node) -> replacement)

_SWAP_STRICT = {ast.Lt: ast.LtE, ast.LtE: ast.Lt, ast.Gt: ast.GtE, ast.GtE: ast.Gt}
_SWAP_DIR = {ast.Lt: ast.Gt, ast.Gt: ast.Lt, ast.LtE: ast.GtE, ast.GtE: ast.LtE, ast.Eq: ast.NotEq, ast.NotEq: ast.Eq}
_EXT = {'argmax': 'argmin', 'argmin': 'argmax', 'max': 'min', 'min': 'max', 'maximum': 'minimum', 'minimum': 'maximum',
        'zeros': 'empty', 'zeros_like': 'empty_like', 'cumsum': 'cumprod', 'floor': 'ceil', 'ceil': 'floor'}


def _ops_for(node):
    out = []
    if isinstance(node, ast.Compare) and len(node.ops) == 1:
        t = type(node.ops[0])
        if t in _SWAP_STRICT:
            out.append(('strictness %s' % t.__name__, lambda n, t=t: _set(n, 'ops', [_SWAP_STRICT[t]()])))
        if t in _SWAP_DIR:
            out.append(('direction %s' % t.__name__, lambda n, t=t: _set(n, 'ops', [_SWAP_DIR[t]()])))
    if isinstance(node, ast.Attribute) and node.attr in _EXT and isinstance(node.ctx, ast.Load):
        out.append(('%s -> %s' % (node.attr, _EXT[node.attr]), lambda n: _set(n, 'attr', _EXT[n.attr])))
    if isinstance(node, ast.Attribute) and node.attr == 'T' and isinstance(node.ctx, ast.Load):
        out.append(('drop .T', lambda n: n.value))
    if isinstance(node, ast.keyword) and node.arg == 'axis' and isinstance(node.value, ast.Constant) and node.value.value in (0, 1):
        out.append(('axis %d -> %d' % (node.value.value, 1 - node.value.value), lambda n: _set(n, 'value', ast.Constant(value=1 - n.value.value))))
    if isinstance(node, ast.Call) and isinstance(node.func, ast.Attribute) and node.func.attr == 'copy' and not node.args:
        out.append(('drop .copy()', lambda n: n.func.value))
    if isinstance(node, ast.Call) and isinstance(node.func, ast.Attribute) and node.func.attr in ('copy', 'deepcopy') and len(node.args) == 1 \
            and isinstance(node.func.value, ast.Name) and node.func.value.id in ('copy', 'np'):
        out.append(('drop copy.%s()' % node.func.attr, lambda n: n.args[0]))
    if isinstance(node, ast.BoolOp):
        out.append(('and <-> or', lambda n: _set(n, 'op', ast.Or() if isinstance(n.op, ast.And) else ast.And())))
    if isinstance(node, ast.BinOp) and isinstance(node.op, (ast.Add, ast.Sub)) and isinstance(node.right, ast.Constant) and node.right.value == 1:
        out.append(('drop +/- 1', lambda n: n.left))
    if isinstance(node, ast.BinOp) and isinstance(node.op, (ast.Sub, ast.Div)) and not isinstance(node.right, ast.Constant):
        out.append(('swap operands of %s' % type(node.op).__name__, lambda n: ast.BinOp(left=n.right, op=n.op, right=n.left)))
    if isinstance(node, ast.Call) and len(node.args) >= 2 and all(isinstance(a, ast.Name) for a in node.args[:2]) and node.args[0].id != node.args[1].id:
        out.append(('swap first two arguments', lambda n: _set(n, 'args', [n.args[1], n.args[0]] + n.args[2:])))
    if isinstance(node, ast.Subscript) and isinstance(node.slice, ast.Tuple) and len(node.slice.elts) == 2 and \
            ast.dump(node.slice.elts[0]) != ast.dump(node.slice.elts[1]) and isinstance(node.ctx, ast.Load):
        out.append(('swap subscript axes', lambda n: _set(n, 'slice', ast.Tuple(elts=[n.slice.elts[1], n.slice.elts[0]], ctx=ast.Load()))))
    if isinstance(node, ast.If) and not isinstance(node.test, ast.Constant):
        out.append(('negate if-test', lambda n: _set(n, 'test', ast.UnaryOp(op=ast.Not(), operand=n.test))))
    if isinstance(node, ast.AugAssign) and isinstance(node.op, (ast.Add, ast.Sub)):
        out.append(('+= <-> -=', lambda n: _set(n, 'op', ast.Sub() if isinstance(n.op, ast.Add) else ast.Add())))
    if isinstance(node, (ast.Assign, ast.AugAssign)) and any(isinstance(t, ast.Subscript) for t in (node.targets if isinstance(node, ast.Assign) else [node.target])):
        out.append(('delete subscript store', lambda n: ast.Pass()))
    if isinstance(node, ast.Slice) and isinstance(node.upper, ast.UnaryOp) and isinstance(node.upper.op, ast.USub):
        out.append(('slice upper -k -> None', lambda n: _set(n, 'upper', None)))
    return out


def _set(n, field, value):
    n = copy.copy(n)
    setattr(n, field, value)
    return n


def _function_nodes(tree, quals):
    out = []

    def walk(body, prefix):
        for s in body:
            if isinstance(s, (ast.FunctionDef, ast.AsyncFunctionDef)):
                q = prefix + s.name
                if q in quals:
                    out.append((q, s))
                walk(s.body, q + '.')
            elif isinstance(s, ast.ClassDef):
                walk(s.body, prefix + s.name + '.')
    walk(tree.body, '')
    return out


def enumerate_mutants(root, functions):
    """[(rel, qual, index-in-walk, op-index, description)] over the analysed
    python functions."""
    by_file = {}
    for f in functions:
        rel, _, q = f.partition('::')
        if rel.endswith('.py'):
            by_file.setdefault(rel, set()).add(q)
    out = []
    for rel, quals in sorted(by_file.items()):
        path = os.path.join(root, rel)
        try:
            tree = ast.parse(open(path, encoding='utf-8').read())
        except (OSError, SyntaxError):
            continue
        for q, fn in _function_nodes(tree, quals):
            for i, node in enumerate(ast.walk(fn)):
                if isinstance(node, ast.Expr) and isinstance(node.value, ast.Constant):
                    continue
                for j, (desc, _) in enumerate(_ops_for(node)):
                    line = getattr(node, 'lineno', None) or getattr(getattr(node, 'value', None), 'lineno', 0)
                    out.append((rel, q, i, j, '%s @ %s:%s %s' % (desc, rel, line, q)))
    return out


class _Apply(ast.NodeTransformer):
    def __init__(self, target, fn):
        self.target, self.fn = target, fn

    def generic_visit(self, node):
        if node is self.target:
            return self.fn(node)
        return super().generic_visit(node)


def _scratch():
    sc = tempfile.mkdtemp(prefix='th-', dir=os.environ.get('TMPDIR', '/tmp'))
    subprocess.run(['rsync', '-a', '--exclude=test', '--exclude=data', '--exclude=__pycache__',
                    '--include=*/', '--include=*.py', '--include=*.pyx', '--exclude=*',
                    os.path.join(REPO, 'enspara'), sc + '/'], check=True)
    return sc


def _run_check(pid, sc):
    env = dict(os.environ, ENSPARA_REPO=sc, VERIF_EVIDENCE_DIR=os.path.join(sc, 'evidence'), VERIF_TIER='quick')
    r = subprocess.run([os.path.join(HERE, 'check'), pid, '--tier', 'quick'], cwd=HERE, env=env, capture_output=True, text=True)
    rules = []
    for m in re.finditer(r'rule=(\S+)', r.stdout):
        if m.group(1) not in rules:
            rules.append(m.group(1))
    return r.returncode, rules


def _one_mutant(pid, m):
    rel, q, i, j, desc = m
    sc = _scratch()
    try:
        path = os.path.join(sc, rel)
        tree = ast.parse(open(path, encoding='utf-8').read())
        target = None
        for qq, fn in _function_nodes(tree, {q}):
            for k, node in enumerate(ast.walk(fn)):
                if k == i:
                    target = node
                    break
            break
        if target is None:
            return desc, 'skipped', []
        ops = _ops_for(target)
        if j >= len(ops):
            return desc, 'skipped', []
        new = _Apply(target, ops[j][1]).visit(tree)
        ast.fix_missing_locations(new)
        try:
            src = ast.unparse(new)
            compile(src, rel, 'exec')
        except Exception:
            return desc, 'does-not-compile', []
        with open(path, 'w', encoding='utf-8') as f:
            f.write(src)
        rc, rules = _run_check(pid, sc)
        return desc, {0: 'survived', 1: 'flagged', 2: 'incomplete'}.get(rc, 'error'), rules
    except Exception as e:       # a broken mutant must never break the check
        return desc, 'error:%s' % type(e).__name__, []
    finally:
        shutil.rmtree(sc, ignore_errors=True)


def _seeded(pid, d):
    """Outcome of this property's check on one seeded change (see sa/seedlib.py: evaluated on
    the current tree while the files it touches are unchanged since the seed was written,
    otherwise on its pinned base commit, relative to that tree without the patch)."""
    from . import seedlib
    name = os.path.basename(d)
    try:
        r = seedlib.evaluate(d, [pid])
    except Exception as e:
        return name, 'error:%s' % type(e).__name__, []
    if 'error' in r:
        return name, 'patch-does-not-apply', [r['error']]
    v = r[pid]['verdict']
    twin = re.search(r'R\d+$', name) is not None
    if twin:
        return name, {'holds': 'silent', 'VIOLATION': 'ALARM', 'incomplete': 'incomplete'}[v], r[pid]['rules']
    return name, {'holds': 'MISSED', 'VIOLATION': 'caught', 'incomplete': 'incomplete'}[v], r[pid]['rules']


def _twin(pid, name, files):
    from . import selftest
    sc = _scratch()
    try:
        changed = 0
        for rel in files:
            path = os.path.join(sc, rel)
            if not os.path.exists(path) or not rel.endswith('.py'):
                continue
            src = open(path, encoding='utf-8').read()
            tree = ast.parse(src)
            new = selftest.TWINS[name]().visit(tree)
            ast.fix_missing_locations(new)
            out = ast.unparse(new)
            try:
                compile(out, rel, 'exec')
            except Exception:
                continue
            if 'logger.debug' in out and 'logger = ' not in out and name == 'insert-noops':
                out = 'import logging\nlogger = logging.getLogger(__name__)\n' + out
            if out != ast.unparse(ast.parse(src)):
                changed += 1
            with open(path, 'w', encoding='utf-8') as f:
                f.write(out)
        rc, rules = _run_check(pid, sc)
        return name, changed, {0: 'silent', 1: 'ALARM', 2: 'incomplete'}.get(rc, 'error'), rules
    finally:
        shutil.rmtree(sc, ignore_errors=True)


def _sweeps(ck):
    """Generic families over every python module of the package, as
    observations (anchored modules are verdict-bearing in the rules)."""
    from . import patterns
    from .report import Checker
    out = {}
    shadow = Checker(ck.pid, 'sweep', ck.repo, ck.seed)
    shadow.known = {}
    fams = [('masked-ufunc-out-initialised', patterns.check_masked_ufuncs),
            ('np.empty-fully-written-before-read', patterns.check_empty_allocs),
            ('warnings.warn(message, category)', patterns.check_warn_calls)]
    for label, fn in fams:
        n0, v0 = len(shadow.obligations), len(shadow.violations)
        mods = 0
        for mod in ck.repo.py_modules():
            try:
                fn(shadow, 'sweep.' + label, mod)
                mods += 1
            except Exception as e:
                shadow.incomplete.append('%s %s: %r' % (label, mod.rel, e))
        out[label] = {'modules': mods, 'instances': len(shadow.obligations) - n0,
                      'not_discharged': [dict(site=v['site'], construct=v['construct'][:120]) for v in shadow.violations[v0:]][:20]}
        for v in shadow.violations[v0:][:10]:
            ck.observations.append({'rule': 'sweep.' + label, 'site': v['site'], 'text': v['construct'][:200] + ' :: ' + v['detail'][:200]})
    try:
        from .rules import extra
        und = []
        for mod in ck.repo.py_modules():
            for name, ln, qual in extra.undefined_names(mod):
                und.append({'module': mod.rel, 'function': qual, 'name': name})
                ck.observations.append({'rule': 'sweep.undefined-global-name', 'site': '%s:%s' % (mod.rel, ln),
                                        'text': '`%s` is read in %s but bound nowhere in the module (NameError when reached)' % (name, qual)})
        out['undefined-global-names'] = {'modules': len(ck.repo.py_modules()), 'found': und}
    except Exception as e:
        out['undefined-global-names'] = {'error': repr(e)}
    out['incomplete'] = shadow.incomplete[:10]
    return out


def run(ck, jobs=16):
    pid = ck.pid
    seed = int(ck.seed or 0)
    res = {}
    # 1. generic mutants
    muts = enumerate_mutants(REPO, sorted(ck.functions))
    rnd = random.Random(seed * 7919 + int(pid[1:]))
    total = len(muts)
    if len(muts) > MAX_MUTANTS:
        muts = sorted(rnd.sample(muts, MAX_MUTANTS))
    with cf.ThreadPoolExecutor(max_workers=jobs) as ex:
        mres = list(ex.map(lambda m: _one_mutant(pid, m), muts))
        seeds = sorted(d for d in glob.glob(os.path.join(HERE, 'seeded', pid + '*')) if os.path.exists(os.path.join(d, 'patch.diff')))
        sres = list(ex.map(lambda d: _seeded(pid, d), seeds))
        files = sorted({f.partition('::')[0] for f in ck.functions})
        from . import selftest
        tres = list(ex.map(lambda n: _twin(pid, n, files), list(selftest.TWINS)))
    tally = {}
    for _, st, _ in mres:
        tally[st] = tally.get(st, 0) + 1
    ran = sum(v for k, v in tally.items() if k in ('flagged', 'survived', 'incomplete'))
    res['generic_mutants'] = {
        'enumerated_sites': total, 'run': len(muts), 'tally': tally,
        'score_flagged_or_incomplete': round((tally.get('flagged', 0) + tally.get('incomplete', 0)) / ran, 3) if ran else None,
        'operators': 'comparison strictness/direction, argmax/argmin/max/min/zeros->empty, axis 0<->1, dropped copy, and<->or, '
                     'dropped +/-1, swapped operands/arguments/subscript axes, negated if-test, +=/-=, deleted subscript store, dropped .T, open slice',
        'flagged_samples': [dict(mutant=d, rules=r[:3]) for d, st, r in mres if st == 'flagged'][:12],
        'survived': [d for d, st, _ in mres if st == 'survived'][:60],
        'note': 'survivors are equivalent mutants, edits of code outside the decided clauses (messages, logging, undecided N-clauses), '
                'or genuine blind spots; informational',
    }
    res['seeded_changes'] = {n: dict(outcome=o, rules=r[:4]) for n, o, r in sres}
    res['generic_twins'] = {n: dict(files_changed=c, outcome=o, rules=r[:4]) for n, c, o, r in tres}
    try:
        res['package_sweeps'] = _sweeps(ck)
    except Exception as e:
        res['package_sweeps'] = {'error': repr(e)}
    ck.notes['thorough'] = res
    # one summary line for the log
    print('THOROUGH property=%s generic-mutants run=%d %s | seeded %s | twins %s' % (
        pid, len(muts), tally,
        {o: sum(1 for _, x, _ in sres if x == o) for o in sorted({x for _, x, _ in sres})},
        {o: sum(1 for _, _, x, _ in tres if x == o) for o in sorted({x for _, _, x, _ in tres})}))
    return res

"""Shared helpers for running checks against seeded changes.

A seed's patch is applied to a scratch copy of /repo's CURRENT working tree when
it applies there.  After later `fix:` commits some patches no longer apply;
such a seed is evaluated on the /repo commit recorded in its meta.json
(`base_commit`, pinned by tools/pin_seed_bases.py) and its verdict is taken
RELATIVE to the same tree without the patch (violations the base tree already
has - defects that were repaired later - are not attributed to the seed).
Scratch trees live under /tmp and are removed by the caller."""
import json
import os
import re
import shutil
import subprocess
import tempfile
import threading

HERE = os.path.dirname(os.path.dirname(os.path.abspath(__file__)))
PIDS = ['C%02d' % i for i in range(1, 21)]
_lock = threading.Lock()
_baseline = {}
_reftrees = {}


def cleanup():
    for d in list(_reftrees.values()):
        shutil.rmtree(d, ignore_errors=True)
    _reftrees.clear()


import atexit
atexit.register(cleanup)


def _rsync_current(sc):
    subprocess.run(['rsync', '-a', '--exclude=test', '--exclude=data', '--exclude=__pycache__',
                    '--include=*/', '--include=*.py', '--include=*.pyx', '--exclude=*',
                    '/repo/enspara', sc + '/'], check=True)


def _archive(commit, sc):
    p1 = subprocess.Popen(['git', '-C', '/repo', 'archive', commit, 'enspara'], stdout=subprocess.PIPE)
    subprocess.run(['tar', '-x', '-C', sc, '--wildcards', '*.py', '*.pyx', '--exclude=enspara/test', '--exclude=enspara/data'],
                   stdin=p1.stdout, check=False, capture_output=True)
    p1.wait()


def _patch(sc, patch):
    # strict application (no fuzz): a patch that only applies with fuzz may produce code its author never wrote
    r = subprocess.run(['git', 'apply', '--whitespace=nowarn', patch], cwd=sc, capture_output=True, text=True)
    return r.returncode == 0


def run_checks(sc, pids, reference=None):
    """{pid: (verdict, violation keys, rule ids)} for the tree in sc."""
    out = {}
    ev = os.path.join(sc, 'evidence')
    env = dict(os.environ, ENSPARA_REPO=sc, VERIF_EVIDENCE_DIR=ev)
    if reference:
        env['VERIF_REFERENCE'] = reference
    if list(pids) == PIDS:
        subprocess.run([os.path.join(HERE, 'check'), 'all'], cwd=HERE, env=env, capture_output=True, text=True)
        codes = {}
    else:
        codes = {}
        for pid in pids:
            r = subprocess.run([os.path.join(HERE, 'check'), pid], cwd=HERE, env=env, capture_output=True, text=True)
            codes[pid] = r.returncode
    for pid in pids:
        try:
            e = json.load(open(os.path.join(ev, pid + '.json')))
            keys = set(e['coverage'].get('violation_keys', []))
            inc = bool(e['coverage'].get('incomplete'))
        except Exception:
            keys, inc = set(), True
        out[pid] = (keys, inc)
    return out


def evaluate(seed_dir, pids):
    """{pid: {'verdict': holds|VIOLATION|incomplete, 'rules': [...], 'base': 'current'|<commit>}} or {'error': ...}"""
    patch = os.path.abspath(os.path.join(seed_dir, 'patch.diff'))
    sc = tempfile.mkdtemp(prefix='sd-', dir='/tmp')
    try:
        try:
            meta = json.load(open(os.path.join(seed_dir, 'meta.json')))
        except Exception:
            meta = {}
        pinned = meta.get('base_commit')
        files = [l.split()[1][2:] for l in open(patch) if l.startswith('+++ b/')]
        unchanged = pinned is not None and subprocess.run(
            ['git', '-C', '/repo', 'diff', '--quiet', pinned, '--'] + files).returncode == 0
        base = 'current'
        ok = False
        if unchanged or pinned is None:
            _rsync_current(sc)
            ok = _patch(sc, patch)
        if not ok:
            # the files were changed by later commits (the seed could combine with a later
            # fix into code its author never wrote): evaluate on the tree it was written for
            if not pinned:
                return {'error': 'patch does not apply to the current tree and no base_commit is pinned'}
            shutil.rmtree(sc)
            os.makedirs(sc)
            base = pinned
            _archive(base, sc)
            if not _patch(sc, patch):
                return {'error': 'patch does not apply to its pinned base %s' % base[:7]}
        basel = {p: (set(), False) for p in pids}
        reference = None
        if base != 'current':
            # the base tree doubles as the naming reference for both runs
            with _lock:
                ref_dir = _reftrees.get(base)
                if ref_dir is None:
                    ref_dir = tempfile.mkdtemp(prefix='sb-', dir='/tmp')
                    _archive(base, ref_dir)
                    _reftrees[base] = ref_dir
            reference = ref_dir
            key = (base, tuple(pids))
            with _lock:
                cached = _baseline.get(key)
            if cached is None:
                sb = tempfile.mkdtemp(prefix='sbb-', dir='/tmp')
                try:
                    _archive(base, sb)
                    cached = run_checks(sb, pids, reference)
                finally:
                    shutil.rmtree(sb, ignore_errors=True)
                with _lock:
                    _baseline[key] = cached
            basel = cached
        got = run_checks(sc, pids, reference)
        res = {}
        for p in pids:
            keys, inc = got[p]
            bkeys, binc = basel[p]
            # a violation the base tree already has is not attributed to the seed; keys are compared
            # without their function field (a refactoring may move the construct into a helper)
            def _nofn(k):
                parts = k.split('|')
                return '|'.join(parts[:2] + parts[3:]) if len(parts) >= 4 else k
            bset = {_nofn(k) for k in bkeys}
            new = sorted(k for k in keys if _nofn(k) not in bset)
            if new:
                v = 'VIOLATION'
            elif inc and not binc:
                v = 'incomplete'
            else:
                v = 'holds'
            res[p] = {'verdict': v, 'rules': sorted({k.split('|')[0] for k in new}), 'base': base if base == 'current' else base[:7]}
        return res
    finally:
        shutil.rmtree(sc, ignore_errors=True)

"""Small None-ness dataflow with branch pruning (A2 nullness).

State: name -> 'none' | 'notnone' | 'maybe'.  Assume nodes evaluate their
test in three-valued logic; an Assume whose test is definitely the opposite
of its polarity is unreachable under the given initial facts."""
import ast

from .cfg import ENTRY, EXIT, Assume, stmt_defs
from .core import call_name, target_names

NONE, NOTNONE, MAYBE = 'none', 'notnone', 'maybe'


def _join(a, b):
    if a is None:
        return dict(b)
    out = {}
    for k in set(a) | set(b):
        va, vb = a.get(k, MAYBE), b.get(k, MAYBE)
        out[k] = va if va == vb else MAYBE
    return out


def expr_nullness(e, st):
    if isinstance(e, ast.Constant):
        return NONE if e.value is None else NOTNONE
    if isinstance(e, ast.Name):
        return st.get(e.id, MAYBE)
    if isinstance(e, (ast.BinOp, ast.Compare, ast.List, ast.Tuple, ast.Dict,
                      ast.ListComp, ast.JoinedStr, ast.Lambda, ast.Set,
                      ast.UnaryOp, ast.DictComp, ast.SetComp)):
        return NOTNONE
    if isinstance(e, ast.Attribute):
        from .core import dotted
        if dotted(e) in ('np.inf', 'numpy.inf', 'math.inf'):
            return NOTNONE
        return MAYBE
    if isinstance(e, ast.IfExp):
        a, b = expr_nullness(e.body, st), expr_nullness(e.orelse, st)
        return a if a == b else MAYBE
    if isinstance(e, ast.Call):
        cn = call_name(e) or ''
        if cn in ('len', 'int', 'float', 'list', 'dict', 'tuple', 'str', 'range',
                  'np.array', 'np.zeros', 'np.ones', 'np.full', 'np.arange',
                  'np.asarray', 'np.where', 'np.concatenate', 'sum', 'min',
                  'max', 'abs', 'bool', 'set', 'sorted'):
            return NOTNONE
        return MAYBE
    return MAYBE


def truth(test, st):
    """Three-valued truth of a test under nullness state st: True/False/None."""
    if isinstance(test, ast.Compare) and len(test.ops) == 1:
        op = test.ops[0]
        l, r = test.left, test.comparators[0]
        if isinstance(op, (ast.Is, ast.IsNot, ast.Eq, ast.NotEq)):
            ln, rn = expr_nullness(l, st), expr_nullness(r, st)
            res = None
            if isinstance(r, ast.Constant) and r.value is None:
                if ln == NONE:
                    res = True
                elif ln == NOTNONE:
                    res = False
            elif isinstance(l, ast.Constant) and l.value is None:
                if rn == NONE:
                    res = True
                elif rn == NOTNONE:
                    res = False
            if res is None:
                return None
            if isinstance(op, (ast.IsNot, ast.NotEq)):
                return not res
            return res
        return None
    if isinstance(test, ast.UnaryOp) and isinstance(test.op, ast.Not):
        t = truth(test.operand, st)
        return None if t is None else (not t)
    if isinstance(test, ast.BoolOp):
        vals = [truth(v, st) for v in test.values]
        if isinstance(test.op, ast.And):
            if any(v is False for v in vals):
                return False
            if all(v is True for v in vals):
                return True
            return None
        if any(v is True for v in vals):
            return True
        if all(v is False for v in vals):
            return False
        return None
    if isinstance(test, ast.Constant):
        return bool(test.value)
    if isinstance(test, ast.Name):
        if st.get(test.id) == NONE:
            return False
        return None
    return None


def refine(test, polarity, st):
    """Facts learnt from test having truth value `polarity`."""
    if isinstance(test, ast.Compare) and len(test.ops) == 1 and \
            isinstance(test.left, ast.Name) and isinstance(
                test.comparators[0], ast.Constant) and \
            test.comparators[0].value is None:
        op = test.ops[0]
        is_none = isinstance(op, (ast.Is, ast.Eq))
        if not isinstance(op, (ast.Is, ast.Eq, ast.IsNot, ast.NotEq)):
            return
        st[test.left.id] = NONE if (is_none == polarity) else NOTNONE
    elif isinstance(test, ast.UnaryOp) and isinstance(test.op, ast.Not):
        refine(test.operand, not polarity, st)
    elif isinstance(test, ast.BoolOp):
        if isinstance(test.op, ast.And) and polarity:
            for v in test.values:
                refine(v, True, st)
        elif isinstance(test.op, ast.Or) and not polarity:
            for v in test.values:
                refine(v, False, st)
        else:
            # A and B false: if all but one conjunct are definitely true,
            # the remaining one is false (dually for or)
            want = isinstance(test.op, ast.And)
            unknown = [v for v in test.values if truth(v, st) is None]
            definite = [truth(v, st) for v in test.values
                        if truth(v, st) is not None]
            if len(unknown) == 1 and all(d is want for d in definite):
                refine(unknown[0], not want, st)
    elif isinstance(test, ast.Name) and polarity:
        st[test.id] = NOTNONE


def run(fi, initial):
    """Return IN state per CFG node (None = unreachable)."""
    cfg = fi.cfg
    IN = {n: None for n in cfg.nodes}
    OUT = {n: None for n in cfg.nodes}
    OUT[ENTRY] = dict(initial)
    work = [n for n in cfg.nodes if n != ENTRY]
    guard = 0
    while work and guard < 50000:
        guard += 1
        n = work.pop(0)
        st = None
        for p in cfg.pred.get(n, []):
            if OUT[p] is not None:
                st = _join(st, OUT[p])
        if st is None:
            continue
        IN[n] = st
        new = dict(st)
        if isinstance(n, Assume):
            t = truth(n.test, st)
            if t is not None and t != n.polarity:
                new = None
            else:
                refine(n.test, n.polarity, new)
        elif n not in (ENTRY, EXIT):
            if isinstance(n, ast.Assign):
                v = expr_nullness(n.value, st)
                for t in n.targets:
                    if isinstance(t, ast.Name):
                        new[t.id] = v
                    else:
                        for nm in target_names(t):
                            new[nm] = MAYBE
            elif isinstance(n, ast.AnnAssign) and n.value is not None and \
                    isinstance(n.target, ast.Name):
                new[n.target.id] = expr_nullness(n.value, st)
            elif isinstance(n, ast.AugAssign) and isinstance(n.target, ast.Name):
                new[n.target.id] = NOTNONE
            else:
                for nm in stmt_defs(n):
                    new[nm] = MAYBE if isinstance(n, (ast.For, ast.With)) else NOTNONE
        if new != OUT[n]:
            OUT[n] = new
            for s in cfg.succ.get(n, []):
                if s not in work:
                    work.append(s)
    return IN, OUT

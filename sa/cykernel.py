"""A8: obligations for Cython kernels compiled with boundscheck(False):
per-dimension index bounds, prange ownership (no shared writes between
iterations), zero-before-accumulate, and element-type discipline."""
import ast

from .cfg import ENTRY, EXIT, Assume
from .core import (AnalysisIncomplete, call_name, const_value, kwarg,
                   names_loaded, params, target_names, u, walk_expr,
                   walk_local)
from .patterns import Cmp, conjuncts, finfo

UNSIGNED_HINT = ('uint', 'unsigned')


class UF:
    def __init__(self):
        self.p = {}

    def find(self, x):
        self.p.setdefault(x, x)
        while self.p[x] != x:
            self.p[x] = self.p[self.p[x]]
            x = self.p[x]
        return x

    def union(self, a, b):
        ra, rb = self.find(a), self.find(b)
        if ra != rb:
            self.p[ra] = rb

    def same(self, a, b):
        return self.find(a) == self.find(b)


def norm_extent(e):
    """Canonical text for extent-like expressions: len(X) -> X.shape[0]."""
    if isinstance(e, ast.Call) and call_name(e) == 'len' and len(e.args) == 1:
        return u(e.args[0]) + '.shape[0]'
    return u(e)


class Kernel:
    def __init__(self, mod, fn, module_fused):
        self.mod = mod
        self.fn = fn
        self.fi = finfo(mod, fn)
        self.fused = module_fused
        self.buffers = {}     # name -> (ndim, elemtype text)
        for name, t in list(fn.cy_argtypes.items()) + list(fn.cy_locals.items()):
            ndim, elem = self._buffer_info(t)
            if ndim is not None:
                self.buffers[name] = (ndim, elem)
        self.scalars = {n for n, t in fn.cy_locals.items()
                        if self._buffer_info(t)[0] is None}
        self.scalars |= {n for n, t in fn.cy_argtypes.items()
                         if self._buffer_info(t)[0] is None}
        self.uf = UF()
        self.assumptions = []
        self._harvest()

    def _buffer_info(self, t):
        if t.is_buffer:
            return t.ndim, t.elem
        if t.base in self.fused:
            alts = self.fused[t.base]
            if alts and all(a.is_buffer for a in alts):
                nd = {a.ndim for a in alts}
                if len(nd) == 1:
                    return nd.pop(), '|'.join(a.elem for a in alts)
        return None, None

    def elem_may_be_signed(self, buf):
        ndim, elem = self.buffers[buf]
        alts = []
        for e in (elem or '').split('|'):
            if e in self.fused:
                alts += [a.text for a in self.fused[e]]
            else:
                alts.append(e)
        return any(not any(h in a for h in UNSIGNED_HINT) for a in alts)

    # -- equalities ------------------------------------------------------
    def _harvest(self):
        fn = self.fn
        for s in walk_local(fn):
            if isinstance(s, (ast.Assign, ast.AnnAssign)):
                tgt = s.targets[0] if isinstance(s, ast.Assign) else s.target
                val = s.value
                if val is None or not isinstance(tgt, ast.Name):
                    continue
                name = tgt.id
                # only single-assignment scalars carry equalities
                ndefs = 0
                for x in walk_local(fn):
                    if isinstance(x, ast.Assign):
                        if name in target_names(x.targets[0]):
                            ndefs += 1
                    elif isinstance(x, ast.AnnAssign):
                        if x.value is not None and name in target_names(x.target):
                            ndefs += 1
                    elif isinstance(x, (ast.AugAssign, ast.For)):
                        if name in target_names(x.target):
                            ndefs += 1
                if name in self.buffers:
                    self._harvest_alloc(name, val)
                    continue
                if ndefs == 1:
                    self.uf.union(name, norm_extent(val))
            elif isinstance(s, (ast.Assert, ast.If)):
                for c in guard_facts(s):
                    if isinstance(c, Cmp) and c.op is ast.Eq:
                        self.uf.union(norm_extent(c.lhs), norm_extent(c.rhs))

    def _harvest_alloc(self, name, val):
        ndim = self.buffers[name][0]
        if isinstance(val, ast.Call) and call_name(val) in (
                'np.zeros', 'np.ones', 'np.empty', 'np.full'):
            shp = val.args[0] if val.args else kwarg(val, 'shape')
            dims = shp.elts if isinstance(shp, ast.Tuple) else [shp]
            if len(dims) == ndim:
                for k, d in enumerate(dims):
                    self.uf.union('%s.shape[%d]' % (name, k), norm_extent(d))
            return
        # elementwise combination: shapes follow the operands
        if isinstance(val, ast.BinOp):
            ops = [o for o in (val.left, val.right)]
            for o in ops:
                base = o
                transposed = False
                if isinstance(o, ast.Attribute) and o.attr == 'T':
                    base = o.value
                    transposed = True
                if isinstance(base, ast.Name) and base.id in self.buffers and \
                        self.buffers[base.id][0] == ndim:
                    for k in range(ndim):
                        src = (ndim - 1 - k) if transposed else k
                        self.uf.union('%s.shape[%d]' % (name, k),
                                      '%s.shape[%d]' % (base.id, src))
                    if transposed:
                        self.assumptions.append(
                            '%s: `%s` requires a square %s (documented shape '
                            '(n_states, n_states)); a non-square argument is '
                            'outside every property\'s quantifier'
                            % (self.fn.name, u(val), base.id))
            return
        # reductions along an axis keep the other extent
        if isinstance(val, ast.Call) and isinstance(val.func, ast.Attribute) and \
                val.func.attr in ('sum', 'mean', 'max', 'min') and \
                isinstance(val.func.value, ast.Name) and val.func.value.id in self.buffers:
            src = val.func.value.id
            ax = const_value(kwarg(val, 'axis'))
            sn = self.buffers[src][0]
            if isinstance(ax, int) and sn == 2 and ndim == 1:
                keep = 0 if ax in (1, -1) else 1
                self.uf.union('%s.shape[0]' % name, '%s.shape[%d]' % (src, keep))

    def extent_eq(self, expr_text, buf, dim):
        return self.uf.same(expr_text, '%s.shape[%d]' % (buf, dim))

    # -- loops -----------------------------------------------------------
    def enclosing_loops(self, node):
        out = []
        p = self.mod.parent.get(node)
        while p is not None and p is not self.fn:
            if isinstance(p, ast.For):
                out.append(p)
            p = self.mod.parent.get(p)
        return out

    def loop_range(self, loop):
        it = loop.iter
        if isinstance(it, ast.Call) and call_name(it) in ('range', 'prange'):
            a = it.args
            if len(a) == 1:
                return ast.Constant(value=0), a[0]
            if len(a) >= 2:
                return a[0], a[1]
        return None

    def upper_bound_ok(self, hi, buf, dim, depth=4):
        """hi <= extent(buf, dim)?"""
        if self.extent_eq(norm_extent(hi), buf, dim):
            return True, '%s == %s.shape[%d]' % (u(hi), buf, dim)
        if isinstance(hi, ast.BinOp) and isinstance(hi.op, ast.Sub):
            c = const_value(hi.right)
            if isinstance(c, int) and c >= 0:
                ok, why = self.upper_bound_ok(hi.left, buf, dim, depth - 1)
                if ok:
                    return True, '%s <= %s' % (u(hi), why)
        return False, '%s is not known to be <= %s.shape[%d]' % (u(hi), buf, dim)

    def lower_nonneg(self, lo):
        c = const_value(lo)
        if isinstance(c, int):
            return c >= 0
        if isinstance(lo, ast.BinOp) and isinstance(lo.op, ast.Add):
            a, b = lo.left, lo.right
            return self._nonneg_term(a) and self._nonneg_term(b)
        return self._nonneg_term(lo)

    def _nonneg_term(self, e):
        c = const_value(e)
        if isinstance(c, int):
            return c >= 0
        if isinstance(e, ast.Name):
            # a loop variable of a range starting at >= 0
            for l in ast.walk(self.fn):
                if isinstance(l, ast.For) and isinstance(l.target, ast.Name) and l.target.id == e.id:
                    r = self.loop_range(l)
                    if r and self.lower_nonneg(r[0]):
                        return True
        return False


def subscript_dims(node):
    sl = node.slice
    return list(sl.elts) if isinstance(sl, ast.Tuple) else [sl]


def check_bounds(ck, rule, mod, fn, fused):
    """Every typed-buffer subscript in a boundscheck(False) function is
    provably in range in every dimension."""
    k = Kernel(mod, fn, fused)
    q = fn.name
    ck.analysed(mod, fn)
    count = 0
    wrap = fn.cy_directives.get('wraparound', True)
    seen = set()
    for node in walk_local(fn):
        if not (isinstance(node, ast.Subscript) and isinstance(node.value, ast.Name)
                and node.value.id in k.buffers):
            continue
        buf = node.value.id
        ndim = k.buffers[buf][0]
        dims = subscript_dims(node)
        if any(isinstance(d, ast.Slice) or (isinstance(d, ast.Constant) and d.value in (None, Ellipsis)) for d in dims):
            continue      # a view expression (out[:, None]), not an element access
        if len(dims) != ndim:
            ck.bad(rule, mod, node, q, u(node),
                   'buffer %s has %d dimensions but is indexed with %d indices '
                   '(partial indexing falls back to Python semantics)' % (buf, ndim, len(dims)))
            continue
        for d, e in enumerate(dims):
            key = (buf, d, u(e), tuple(id(l) for l in k.enclosing_loops(node)))
            if key in seen:
                continue
            seen.add(key)
            count += 1
            ok, why = _index_ok(k, node, buf, d, e, wrap)
            ck.check(ok, rule, mod, node, q, '%s dim %d index %s' % (u(node), d, u(e)),
                     why, 'bounds checks are disabled in this kernel and ' + why)
    for a in k.assumptions:
        ck.assume(a)
    return count, k


def _index_ok(k, node, buf, dim, e, wrap):
    # constant index
    c = const_value(e)
    if isinstance(c, int):
        if c < 0:
            return False, 'constant negative index %d' % c
        return False, 'constant index %d is not proved below the extent' % c
    if isinstance(e, ast.Name):
        name = e.id
        loops = [l for l in k.enclosing_loops(node)
                 if isinstance(l.target, ast.Name) and l.target.id == name]
        if loops:
            loop = loops[0]
            # the loop variable must not be reassigned inside the loop body
            for s in walk_local(loop):
                if isinstance(s, (ast.Assign, ast.AugAssign)) and s is not loop:
                    tg = s.targets[0] if isinstance(s, ast.Assign) else s.target
                    if name in target_names(tg):
                        return False, 'loop variable %s is reassigned inside its loop' % name
            r = k.loop_range(loop)
            if r is None:
                return False, 'index %s iterates over a non-range expression' % name
            lo, hi = r
            if not k.lower_nonneg(lo):
                return False, 'lower loop bound %s is not provably >= 0' % u(lo)
            ok, why = k.upper_bound_ok(hi, buf, dim)
            if not ok:
                return False, 'index %s runs to %s but %s' % (name, u(hi), why)
            return True, '%s in range(%s, %s), %s' % (name, u(lo), u(hi), why)
        # data-dependent scalar: defined from a buffer element
        fi = k.fi
        defs = fi.defs_of_use(e)
        srcs = []
        for site in defs:
            if site in ('PARAM', 'UNBOUND'):
                return False, 'index %s is an unchecked parameter' % name
            v = fi.def_value(site, name)
            if isinstance(v, ast.Subscript) and isinstance(v.value, ast.Name) \
                    and v.value.id in k.buffers:
                srcs.append(v.value.id)
            else:
                return False, 'index %s = %s is not bounded by any guard' % (name, u(v) if v is not None else '?')
        if not srcs:
            return False, 'index %s has no definition' % name
        for src in set(srcs):
            up, lowg = _data_guards(k, src, buf, dim, node)
            if not up:
                return False, ('index %s is read from %s: no dominating guard '
                               '`%s.max() < <extent of %s dim %d>`: a too-large state id writes '
                               'outside the buffer' % (name, src, src, buf, dim))
            # unsigned C local makes a negative source wrap to a huge value,
            # which the upper guard on the *source* does not exclude
            t = k.fn.cy_locals.get(name)
            if not lowg:
                if not k.elem_may_be_signed(src):
                    continue
                return False, ('index %s is read from %s whose element type may be signed: '
                               'no dominating guard `%s.min() >= 0`; with wraparound %s a '
                               'negative id addresses another cell / memory before the buffer'
                               % (name, src, src, 'off' if not wrap else 'on'))
        return True, 'data-dependent index %s from %s guarded on both sides' % (name, '/'.join(sorted(set(srcs))))
    # general expression: only accept (loopvar +/- const) patterns through upper_bound
    return False, 'index expression %s is outside the analysed vocabulary' % u(e)


def guard_facts(s):
    """Atomic facts that hold after statement s on every path that continues:
    the conjuncts of an assert, or of the negated test of `if <test>: raise`
    (no else, body ends in raise)."""
    if isinstance(s, ast.Assert):
        return conjuncts(s.test, True) or []
    if isinstance(s, ast.If) and not s.orelse and s.body and isinstance(s.body[-1], ast.Raise):
        return conjuncts(s.test, False) or []
    return []


def _data_guards(k, src, buf, dim, node):
    """Dominating asserts `src.max() < N` (N == extent) and `src.min() >= 0`."""
    fi = k.fi
    stmt = fi.stmt(node)
    upper = lower = False
    for s in fi.cfg.nodes:
        if not isinstance(s, (ast.Assert, ast.If)):
            continue
        if not fi.cfg.dominates(s, stmt):
            continue
        for c in guard_facts(s):
            if not isinstance(c, Cmp):
                continue
            less = c.as_less()
            if less is None:
                continue
            small, strict, big = less
            if u(small) in ('%s.max()' % src, 'np.max(%s)' % src) and strict and \
                    k.extent_eq(norm_extent(big), buf, dim):
                upper = True
            if u(small) in ('%s.max()' % src, 'np.max(%s)' % src) and not strict and \
                    isinstance(big, ast.BinOp) and isinstance(big.op, ast.Sub) and \
                    const_value(big.right) == 1 and k.extent_eq(norm_extent(big.left), buf, dim):
                upper = True
            if u(big) in ('%s.min()' % src, 'np.min(%s)' % src):
                cv = const_value(small)
                if (cv == 0 and not strict) or (cv == -1 and strict) or \
                        (isinstance(cv, int) and cv >= 0):
                    lower = True
    return upper, lower


def check_prange(ck, rule, mod, fn, fused):
    k = Kernel(mod, fn, fused)
    q = fn.name
    n = 0
    for loop in walk_local(fn):
        if not (isinstance(loop, ast.For) and getattr(loop, 'cy_prange', False)):
            continue
        n += 1
        v = u(loop.target)
        written = {}
        for s in walk_local(loop):
            tg = None
            if isinstance(s, ast.Assign):
                tg = s.targets[0]
            elif isinstance(s, ast.AugAssign):
                tg = s.target
            elif isinstance(s, ast.For):
                continue
            if tg is None:
                continue
            if isinstance(tg, ast.Name):
                nm = tg.id
                if nm in k.buffers:
                    ck.bad(rule + '.private', mod, s, q, u(s),
                           'a buffer variable is rebound inside a prange body')
                elif nm not in k.scalars:
                    ck.bad(rule + '.private', mod, s, q, u(s),
                           '`%s` is assigned inside a prange body but is not a cdef-declared '
                           'C scalar, so it is not thread-private' % nm)
                else:
                    ck.ok(rule + '.private', mod, s, u(s), 'thread-private C scalar')
                continue
            if isinstance(tg, ast.Subscript) and isinstance(tg.value, ast.Name):
                buf = tg.value.id
                dims = [u(d) for d in subscript_dims(tg)]
                pos = [i for i, d in enumerate(dims) if d == v]
                if not pos:
                    ck.bad(rule + '.owner', mod, s, q, u(s),
                           'store inside prange(%s) does not index `%s` with the bare loop '
                           'variable `%s`: different iterations (threads) write the same '
                           'cell - a data race' % (v, buf, v))
                    continue
                written.setdefault(buf, set()).add(pos[0])
                ck.ok(rule + '.owner', mod, s, u(s),
                      'iteration %s owns %s[...] at index position %d' % (v, buf, pos[0]))
        for buf, ps in written.items():
            if len(ps) > 1:
                ck.bad(rule + '.owner', mod, loop, q, 'stores to %s in prange(%s)' % (buf, v),
                       'stores to `%s` use the loop variable in different index positions %s' % (buf, sorted(ps)))
                continue
            p = next(iter(ps))
            # reads of a written buffer must stay within the owned slice
            for x in walk_local(loop):
                if isinstance(x, ast.Subscript) and isinstance(x.value, ast.Name) and \
                        x.value.id == buf and isinstance(x.ctx, ast.Load):
                    dims = [u(d) for d in subscript_dims(x)]
                    ok = len(dims) > p and dims[p] == v
                    ck.check(ok, rule + '.reads', mod, x, q, u(x),
                             'reads of the written buffer stay in the owned slice',
                             'iteration %s reads `%s` outside the slice it owns while other '
                             'iterations write it' % (v, u(x)))
        # nogil / schedule are irrelevant for ownership
    return n


def check_zero_before_accumulate(ck, rule, mod, fn, fused):
    k = Kernel(mod, fn, fused)
    fi = k.fi
    q = fn.name
    n = 0
    for s in walk_local(fn):
        if not (isinstance(s, ast.AugAssign) and isinstance(s.target, ast.Subscript)
                and isinstance(s.target.value, ast.Name)
                and s.target.value.id in k.buffers):
            continue
        buf = s.target.value.id
        n += 1
        # (a) locally allocated by np.zeros
        allocs = [a for a in walk_local(fn) if isinstance(a, (ast.Assign, ast.AnnAssign))
                  and buf in target_names(a.targets[0] if isinstance(a, ast.Assign) else a.target)
                  and a.value is not None]
        if allocs:
            ok = all(isinstance(a.value, ast.Call) and call_name(a.value) == 'np.zeros' for a in allocs)
            ok2 = all(isinstance(a.value, (ast.BinOp, ast.Call)) and not (
                isinstance(a.value, ast.Call) and call_name(a.value) in ('np.empty', 'np.empty_like', 'np.ndarray'))
                for a in allocs)
            ck.check(ok or ok2, rule, mod, s, q, '%s  [alloc: %s]' % (u(s), '; '.join(u(a) for a in allocs)),
                     'accumulator is allocated initialised in this function',
                     'accumulator `%s` is allocated uninitialised (np.empty) and then accumulated into' % buf)
            continue
        # (b) a dominating plain store to the same cell
        ok, why = _dominating_zero(k, s, buf)
        ck.check(ok, rule, mod, s, q, u(s), why,
                 'the kernel accumulates into caller-supplied `%s` (%s) without first storing '
                 'to that cell: the result depends on the previous contents of the buffer' % (buf, why))
    return n


def _dominating_zero(k, acc, buf):
    fi = k.fi
    idx = [u(d) for d in subscript_dims(acc.target)]
    loops_acc = k.enclosing_loops(acc)
    for p in walk_local(k.fn):
        if not (isinstance(p, ast.Assign) and isinstance(p.targets[0], ast.Subscript)
                and isinstance(p.targets[0].value, ast.Name) and p.targets[0].value.id == buf):
            continue
        if buf in names_loaded(p.value):
            continue
        pidx = [u(d) for d in subscript_dims(p.targets[0])]
        if not fi.cfg.dominates(p, acc) and not _loop_precedes(k, p, acc):
            continue
        loops_p = k.enclosing_loops(p)
        # same loop nest: identical index text
        if pidx == idx and (set(map(id, loops_p)) <= set(map(id, loops_acc))):
            if fi.cfg.dominates(p, acc):
                return True, 'cell %s[%s] is stored (`%s`) before every accumulation in the same iteration' % (buf, ', '.join(idx), u(p))
        # separate earlier loop over the same range with the loop var in the same position
        if len(loops_p) == 1 and loops_acc:
            lp = loops_p[0]
            la = loops_acc[-1]
            if lp is not la and u(lp.iter.args[0] if isinstance(lp.iter, ast.Call) and lp.iter.args else lp.iter) == \
                    u(la.iter.args[0] if isinstance(la.iter, ast.Call) and la.iter.args else la.iter):
                sub = [i.replace(u(la.target), u(lp.target)) if i == u(la.target) else i for i in idx]
                if sub == pidx and _loop_precedes(k, p, acc):
                    return True, ('an earlier loop over the same range %s stores %s[%s] for every cell' % (
                        u(lp.iter), buf, ', '.join(pidx)))
    return False, 'no dominating plain store to %s[%s]' % (buf, ', '.join(idx))


def _loop_precedes(k, p, acc):
    """The outermost loop containing p is an earlier sibling statement of the
    outermost loop containing acc (both at function top level)."""
    def top(n):
        cur = n
        par = k.mod.parent.get(cur)
        while par is not None and par is not k.fn:
            cur = par
            par = k.mod.parent.get(cur)
        return cur
    tp, ta = top(p), top(acc)
    body = k.fn.body
    if tp in body and ta in body:
        return body.index(tp) < body.index(ta)
    return False


def check_elem_type_temps(ck, rule, mod, fn, fused):
    """No C local declared with the (fused) element type of the input
    buffers holds an arithmetic result: a difference/sum of two narrow
    integers stored back into the narrow type wraps before it is widened."""
    q = fn.name
    k = Kernel(mod, fn, fused)
    elem_types = set()
    for b, (nd, elem) in k.buffers.items():
        for e in (elem or '').split('|'):
            if e in fused or 'int' in e and 'np.' in e:
                elem_types.add(e)
    n = 0
    for name, t in fn.cy_locals.items():
        if t.is_buffer:
            continue
        n += 1
        narrow = t.base in elem_types or t.base in fused or any(
            t.base == e for e in elem_types)
        if not narrow:
            ck.ok(rule, mod, fn, 'cdef %s %s' % (t.text, name), 'wide C scalar')
            continue
        # is it assigned an arithmetic expression?
        bad = None
        for s in walk_local(fn):
            if isinstance(s, (ast.Assign, ast.AugAssign, ast.AnnAssign)):
                tg = s.targets[0] if isinstance(s, ast.Assign) else s.target
                if isinstance(tg, ast.Name) and tg.id == name and s.value is not None and \
                        (isinstance(s.value, ast.BinOp) or isinstance(s, ast.AugAssign)):
                    bad = s
        ck.check(bad is None, rule, mod, bad or fn, q, 'cdef %s %s%s' % (t.text, name, (' ; ' + u(bad)) if bad else ''),
                 'element-typed local holds no arithmetic result',
                 'local `%s` has the (fused) element type of the input: for narrow integer inputs '
                 'the arithmetic result wraps around before it reaches the float64 accumulator' % name)
    return n

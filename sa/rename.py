"""Local-name normalisation.

The rules identify most constructs by role (def-use, structure), but many
report and match local variables under the names they have in the pinned
tree.  Renaming a local variable is the most common behaviour-preserving
edit; to be immune to it, each function of the current tree is aligned with
the same function of a reference snapshot (/verif/reference, a copy of the
package source at the pinned commit plus the recorded fix: commits) and
locals that were merely renamed are mapped back to their reference names
before the rules run.

The alignment is purely structural: statements are compared by their
name-erased skeleton (difflib over the skeleton sequence); name
correspondences are harvested only from statement pairs whose skeletons are
identical and a local is renamed only when the evidence is unambiguous and
the mapping is injective.  The verdict never depends on the snapshot: if the
alignment finds nothing the function is analysed under its own names.
"""
import ast
import difflib
import os

from .cfg import stmt_defs
from .core import params, target_names

REFERENCE = os.environ.get('VERIF_REFERENCE') or os.path.join(os.path.dirname(os.path.dirname(os.path.abspath(__file__))), 'reference')


def local_names(fn):
    out = set()
    for n in ast.walk(fn):
        if isinstance(n, (ast.FunctionDef, ast.AsyncFunctionDef, ast.Lambda)) and n is not fn:
            continue
        if isinstance(n, ast.stmt):
            out.update(stmt_defs(n))
        if isinstance(n, ast.comprehension):
            out.update(target_names(n.target))
        if isinstance(n, ast.AnnAssign) and isinstance(n.target, ast.Name):
            out.add(n.target.id)
        if isinstance(n, ast.NamedExpr):
            out.update(target_names(n.target))
    name = getattr(fn, 'name', '')
    private = name.startswith('_') and not (name.startswith('__') and name.endswith('__'))
    if private:
        # parameters of private helpers are not API: they can be renamed too
        out |= set(params(fn))
    else:
        out -= set(params(fn))
    out.discard('self')
    out.discard('cls')
    return out


class _Skel(ast.NodeVisitor):
    def __init__(self, locs):
        self.locs = locs
        self.names = []
        self.parts = []

    def generic_visit(self, node):
        self.parts.append(type(node).__name__)
        for f in node._fields:
            if f in ('ctx', 'lineno', 'col_offset', 'end_lineno', 'end_col_offset', 'type_comment', 'type_params'):
                continue
            v = getattr(node, f, None)
            if isinstance(v, list):
                self.parts.append('[')
                for x in v:
                    if isinstance(x, ast.AST):
                        self.visit(x)
                    else:
                        self.parts.append(repr(x))
                self.parts.append(']')
            elif isinstance(v, ast.AST):
                self.visit(v)
            elif v is not None:
                self.parts.append(repr(v))

    def visit_Name(self, node):
        if node.id in self.locs:
            self.parts.append('?')
            self.names.append(node.id)
        else:
            self.parts.append('N:' + node.id)

    def visit_Constant(self, node):
        v = node.value
        self.parts.append('K:' + (repr(v) if not isinstance(v, str) else 'str'))


def header_only(s):
    """A shallow copy of a compound statement without its nested blocks."""
    if isinstance(s, (ast.If, ast.While)):
        return ast.Expr(value=s.test)
    if isinstance(s, (ast.For, ast.AsyncFor)):
        return ast.Assign(targets=[s.target], value=s.iter)
    if isinstance(s, (ast.With, ast.AsyncWith)):
        return ast.Expr(value=ast.Tuple(elts=[i.context_expr for i in s.items] + [i.optional_vars for i in s.items if i.optional_vars is not None], ctx=ast.Load()))
    if isinstance(s, ast.Try):
        return ast.Pass()
    if isinstance(s, (ast.FunctionDef, ast.AsyncFunctionDef, ast.ClassDef)):
        return ast.Pass()
    return s


def skeletons(fn, locs):
    out = []
    for s in ast.walk(fn):
        if not isinstance(s, ast.stmt) or s is fn:
            continue
        if isinstance(s, ast.Expr) and isinstance(s.value, ast.Constant) and isinstance(s.value.value, str):
            continue    # docstrings
        sk = _Skel(locs)
        sk.visit(header_only(s))
        out.append((type(s).__name__ + ':' + ' '.join(sk.parts), sk.names, getattr(s, 'lineno', 0)))
    out.sort(key=lambda t: t[2])
    return out


def compute_mapping(cur_fn, ref_fn, sigs=None):
    lc, lr = local_names(cur_fn), local_names(ref_fn)
    if not lc or not lr:
        return {}
    nf_votes = {}
    try:
        from . import normal
        nf_votes = normal.nf_name_votes(cur_fn, ref_fn, sigs)
    except Exception:
        nf_votes = {}
    sc, sr = skeletons(cur_fn, lc), skeletons(ref_fn, lr)
    a = [x[0] for x in sc]
    b = [x[0] for x in sr]
    sm = difflib.SequenceMatcher(a=a, b=b, autojunk=False)
    votes = {}
    for blk in sm.get_matching_blocks():
        for k in range(blk.size):
            nc, nr = sc[blk.a + k][1], sr[blk.b + k][1]
            if len(nc) != len(nr):
                continue
            for x, y in zip(nc, nr):
                votes.setdefault(x, {}).setdefault(y, 0)
                votes[x][y] += 1
    for x, d in nf_votes.items():
        if x not in lc:
            continue
        for y, c in d.items():
            if y in lr:
                votes.setdefault(x, {}).setdefault(y, 0)
                votes[x][y] += 2 * c
    mapping = {}
    taken = {}
    cands = []
    for x, d in votes.items():
        total = sum(d.values())
        y, c = max(d.items(), key=lambda kv: kv[1])
        if c / total >= 0.6:
            cands.append((c, x, y))
    for c, x, y in sorted(cands, reverse=True):
        if y in taken:
            continue
        taken[y] = x
        mapping[x] = y
    # drop identities; make sure the renaming is capture-free: a target
    # name that is a *different*, unmapped local of the current function
    # would be captured
    out = {x: y for x, y in mapping.items() if x != y}
    for x, y in list(out.items()):
        if y in lc and mapping.get(y, y) == y and y not in out:
            # y stays y and x wants to become y as well -> ambiguous
            del out[x]
    # names absent from the reference stay
    return out


class _Rename(ast.NodeTransformer):
    def __init__(self, mapping):
        self.mapping = mapping

    def visit_Name(self, node):
        if node.id in self.mapping:
            node.id = self.mapping[node.id]
        return node

    def visit_arg(self, node):
        if node.arg in self.mapping:
            node.arg = self.mapping[node.arg]
        return node

    def visit_FunctionDef(self, node):
        # nested function: rename free uses of the outer locals too, unless
        # the nested function rebinds the name itself
        inner = local_names(node) | set(params(node))
        sub = {k: v for k, v in self.mapping.items() if k not in inner}
        if sub:
            _Rename(sub).generic_visit(node)
        return node

    visit_AsyncFunctionDef = visit_FunctionDef

    def visit_Lambda(self, node):
        inner = set(params(node))
        sub = {k: v for k, v in self.mapping.items() if k not in inner}
        if sub:
            _Rename(sub).generic_visit(node)
        return node


def apply_mapping(fn, mapping):
    r = _Rename(mapping)
    for i, s in enumerate(fn.body):
        fn.body[i] = r.visit(s)
    for a in fn.args.posonlyargs + fn.args.args + fn.args.kwonlyargs:
        r.visit_arg(a)
    if hasattr(fn, 'cy_argtypes'):
        fn.cy_argtypes = {mapping.get(k, k): v for k, v in fn.cy_argtypes.items()}
    if hasattr(fn, 'cy_locals'):
        fn.cy_locals = {mapping.get(k, k): v for k, v in fn.cy_locals.items()}


def normalise_module(mod, ref_mod, sigs=None):
    """Rename locals of every function of `mod` that also exists in the
    reference module. Returns {qualname: mapping} of applied renames."""
    from .core import _all_functions
    applied = {}
    ref_fns = dict(_all_functions(ref_mod.tree))
    for key, (fn, _h, _i) in _all_functions(mod.tree):
        if key not in ref_fns:
            continue
        rf = ref_fns[key][0]
        q = key[0] if key[1] == 0 else '%s#%d' % key
        try:
            m = compute_mapping(fn, rf, sigs)
        except RecursionError:
            continue
        if m:
            apply_mapping(fn, m)
            applied[q] = m
    return applied

"""A9: SPMD uniformity taint and collective matching."""
import ast

from .core import (call_name, dotted, kwarg, names_loaded, params,
                   target_names, u, walk_expr, walk_local)
from .resolve import enclosing_class

COLLECTIVES = {'bcast', 'Bcast', 'allgather', 'allreduce', 'Barrier', 'barrier',
               'gather', 'scatter', 'reduce', 'Allreduce', 'Allgather',
               'Gather', 'Scatter', 'Reduce', 'alltoall'}
UNIFORM_RESULT = {'bcast', 'allgather', 'allreduce', 'Allreduce', 'Allgather'}


def collective_name(call):
    d = call_name(call) or ''
    parts = d.split('.')
    if len(parts) >= 2 and parts[-1] in COLLECTIVES and parts[-2] == 'comm':
        return parts[-1]
    return None


class SPMD:
    def __init__(self, repo, resolver, scope_rels):
        self.repo = repo
        self.res = resolver
        self.scope = scope_rels
        self.has_coll = {}
        self._fixpoint()

    def _fixpoint(self):
        fns = []
        for m in self.repo.all_modules():
            for q, fn in m.functions.items():
                fns.append((m, q, fn))
                self.has_coll[(m.rel, q)] = any(
                    isinstance(c, ast.Call) and collective_name(c) for c in walk_local(fn))
        changed = True
        while changed:
            changed = False
            for m, q, fn in fns:
                if self.has_coll[(m.rel, q)]:
                    continue
                cls = enclosing_class(m, fn)
                for c in walk_local(fn):
                    if isinstance(c, ast.Call):
                        t = self.res.resolve_call(m, c, cls)
                        if t is not None and t.kind == 'func' and self.has_coll.get((t.rel, t.qual)):
                            self.has_coll[(m.rel, q)] = True
                            changed = True
                            break

    def events(self, mod, fn, node):
        """Collective events (name, root text) inside node, in source order."""
        cls = enclosing_class(mod, fn)
        out = []
        nodes = node if isinstance(node, list) else [node]
        for n in nodes:
            for c in ast.walk(n):
                if isinstance(c, (ast.FunctionDef, ast.Lambda)):
                    continue
                if isinstance(c, ast.Call):
                    cn = collective_name(c)
                    if cn:
                        out.append((getattr(c, 'lineno', 0), getattr(c, 'col_offset', 0), cn, u(kwarg(c, 'root')) if kwarg(c, 'root') is not None else '-'))
                        continue
                    t = self.res.resolve_call(mod, c, cls)
                    if t is not None and t.kind == 'func' and self.has_coll.get((t.rel, t.qual)):
                        out.append((getattr(c, 'lineno', 0), getattr(c, 'col_offset', 0), t.qual, '-'))
        out.sort()
        return [(a, b) for (_, _, a, b) in out]

    # -- uniformity ------------------------------------------------------
    def nonuniform_names(self, mod, fn, local_params):
        """Names that may differ between ranks at some point in fn."""
        nu = set(local_params)
        cls = enclosing_class(mod, fn)
        changed = True
        while changed:
            changed = False
            for s in walk_local(fn):
                tgts = []
                val = None
                if isinstance(s, ast.Assign):
                    tgts, val = s.targets, s.value
                elif isinstance(s, ast.AugAssign):
                    tgts, val = [s.target], s.value
                elif isinstance(s, ast.For):
                    tgts, val = [s.target], s.iter
                else:
                    continue
                if not self.expr_nonuniform(mod, fn, val, nu, cls):
                    continue
                for t in tgts:
                    for nm in target_names(t):
                        if nm not in nu:
                            nu.add(nm)
                            changed = True
        return nu

    def expr_nonuniform(self, mod, fn, e, nu, cls=None):
        if e is None:
            return False
        if isinstance(e, ast.Call):
            cn = collective_name(e)
            if cn in UNIFORM_RESULT:
                return False
            if cn:
                return False
            d = call_name(e) or ''
            if d in ('mpi.rank',) or d.endswith('.Get_rank'):
                return True
            if d in ('mpi.size', 'len') and d == 'mpi.size':
                return False
            t = self.res.resolve_call(mod, e, cls)
            if t is not None and t.kind == 'func' and t.rel.startswith('enspara/mpi/ops.py'):
                # library reductions/broadcasts return replicated values
                if t.qual in ('striped_array_max', 'striped_array_mean', 'randind', 'distribute_frame',
                              'assemble_striped_array', 'assemble_striped_ragged_array', 'convert_local_indices'):
                    return False
            if t is not None and t.kind == 'func' and t.qual in ('_msq', '_propose_new_center_amongst', 'ctr_ids_mpi'):
                return False
        if isinstance(e, ast.Compare) and len(e.ops) == 1 and isinstance(e.ops[0], (ast.Is, ast.IsNot)) and \
                isinstance(e.comparators[0], ast.Constant) and e.comparators[0].value is None:
            return False
        if isinstance(e, ast.Call) and call_name(e) in ('hasattr', 'callable', 'isinstance'):
            return False
        for ch in ast.iter_child_nodes(e):
            if isinstance(ch, ast.expr) and self.expr_nonuniform(mod, fn, ch, nu, cls):
                return True
            if isinstance(ch, ast.comprehension):
                if self.expr_nonuniform(mod, fn, ch.iter, nu, cls):
                    return True
            if isinstance(ch, ast.keyword) and self.expr_nonuniform(mod, fn, ch.value, nu, cls):
                return True
        if isinstance(e, ast.Name) and e.id in nu:
            return True
        return False

"""Statement-level idiom rewrites of the normal form (sa/normal.py).

Every rewrite below maps one spelling of a computation to ANOTHER SPELLING OF
THE SAME COMPUTATION - same values, same order of the operations that can have
an effect or raise - so that `N(current) == N(reference)` remains a claim of
equivalence.  They are used only to decide that equality; rules never see the
rewritten code.  Each rewrite states the condition under which it is exact.

 I1  if c: T = A else: T = B            ->  T = A if c else B
     if c: S[A] else: S[B]  (two simple statements that differ in one
     sub-expression; c pure; everything S evaluates before that position is a
     plain load)                         ->  S[A if c else B]
 I2  t = E ; S(t)   (t a local with exactly this one use, in the next statement,
     reached before anything but plain loads is evaluated)   ->  S(E)
     [the existing forward substitution needs E pure; here E may be any call
      because nothing can run between its evaluation and its use]
 I3  L = [] ; for T in IT: L.append(E)   ->  L = [E for T in IT]     (T, L not
     used otherwise as stated in the code);  D = {} ; for ...: D[K] = V -> dict
     comprehension;  an `if c:` around the append becomes the comprehension filter
 I4  for i, x in enumerate(IT) with i never read -> for x in IT;
     k = 0 ; for x in IT: ... ; k += 1   -> for k, x in enumerate(IT)
 I5  V = np.empty(shape, dtype) ; V.fill(c)  ->  V = np.full(shape, c, dtype)
 I6  a, b = x, y  (y does not read a)   ->  a = x ; b = y
 I7  a, b = CALL   where CALL returns a tuple of known length (package function
     whose every return is a tuple display of that length, or a library call in
     ARITY)  ->  t = CALL ; a = t[0] ; b = t[1];  for T in IT: a, b = T -> for (a, b) in IT
 I8  dead stores of total expressions (a local that is never read, bound to a
     constant / name / display / index into a known-length tuple / np.zeros-like
     constructor of such) are dropped; bare C declarations of names that no longer
     occur are dropped
 I9  spellings: 'a' + 'b' -> 'ab';  x in [c1, c2] -> x in (c1, c2);
     0 < M.sum() / M.sum() != 0 for a comparison mask M -> M.any();
     x.__invert__() -> ~x;  list(itertools.repeat(a, n)) -> [a] * n;
     f(**{'k': v}) -> f(k=v);  boolean formulas over `x is None` atoms -> truth table
 I10 if c: A ; S else: B ; S   ->   if c: A else: B ; S     (common last statement)
I11 flattening an array nobody else holds (F a fresh np.array/np.zeros/... call):
     F.flatten(), F.ravel(), F.reshape((-1,)), F.reshape((-1, 1)).flatten() -> F.reshape(-1);
     len(E.reshape(-1)) -> E.reshape(-1).shape[0]
I12 any(a != b for ..) -> not all(a == b for ..) and the dual (==/!=, is/is not, in/not in only)
I13 constant arrays: np.zeros(S).astype(T) / np.ones(S).astype(T) -> dtype=T;
     np.ones(S[, dtype=T]) * c, c * np.ones(..), np.full(S, a) * c -> np.full(S, c') when the product
     has the type np.full gives (integer T and integer c; floating T; no T = float64)
I14 conditional expressions: X if c else X -> X (c pure and call-free);
     A if c1 else (A if c2 else B) -> A if c1 or c2 else B;  (A if c2 else B) if c1 else B -> A if c1 and c2 else B
I15 x = A ; if c: x = B  ->  x = B if c else A   (A total; c, B do not read x)
I16 in a boolean context, for a local bound only to list displays / comprehensions / list() / sorted():
     0 < len(L), len(L) != 0 -> L ;  len(L) == 0 -> not L
"""
import ast
import copy

from .core import call_name, target_names

# library calls returning a tuple/list of fixed length
ARITY = {'connected_components': 2, 'scipy.sparse.csgraph.connected_components': 2, 'csgraph.connected_components': 2,
         'scipy.sparse.find': 3, 'sparse.find': 3, 'np.divmod': 2, 'divmod': 2, 'np.linalg.eig': 2, 'np.linalg.eigh': 2,
         'scipy.linalg.eig': 2, 'scipy.linalg.eigh': 2, 'np.linalg.slogdet': 2, 'np.modf': 2, 'np.frexp': 2}
ARITY_METHODS = {'indices': 3}


def _names(e):
    return {n.id for n in ast.walk(e) if isinstance(n, ast.Name)}


def _occ(root, name):
    c = 0
    for n in ast.walk(root):
        if isinstance(n, ast.Name) and n.id == name:
            c += 1
        elif isinstance(n, ast.arg) and n.arg == name:
            c += 1
    return c


def _plain(e):
    """A load that runs no user code worth ordering: names, constants, attribute chains on names."""
    while isinstance(e, ast.Attribute):
        e = e.value
    return isinstance(e, (ast.Name, ast.Constant))


def _first_effect_position(stmt, name, pure=None):
    """True iff, in evaluation order, the (single) load of `name` in stmt is reached before any
    operation other than plain loads completes, and unconditionally (not inside the lazily
    evaluated part of and/or/if-else, a comprehension, a lambda).  With `pure` (a predicate on
    expressions) completed PURE sub-expressions before the position are tolerated as well."""
    found = []
    _walk0 = [None]

    def walk(e):
        r = _w(e)
        if r == 'blocked' and pure is not None and isinstance(e, ast.expr) and not _occ(e, name) and pure(e):
            return None
        return r

    def _w(e):
        # returns 'hit' if name reached cleanly, 'blocked' if something effectful completed first, None to continue
        if isinstance(e, ast.Name):
            if e.id == name and isinstance(e.ctx, ast.Load):
                return 'hit'
            return None
        if isinstance(e, ast.Constant):
            return None
        if isinstance(e, ast.Attribute):
            r = walk(e.value)
            if r:
                return r
            return None if _plain(e) else 'blocked'
        if isinstance(e, ast.Starred):
            return walk(e.value) or 'blocked'
        if isinstance(e, ast.keyword):
            return walk(e.value)
        if isinstance(e, (ast.Tuple, ast.List, ast.Set)):
            for x in e.elts:
                r = walk(x)
                if r:
                    return r
            return None     # building a display of plain loads has no effect
        if isinstance(e, ast.Dict):
            for k, v in zip(e.keys, e.values):
                for x in (k, v):
                    if x is not None:
                        r = walk(x)
                        if r:
                            return r
            return None
        if isinstance(e, ast.Call):
            for x in [e.func] + list(e.args) + list(e.keywords):
                r = walk(x)
                if r:
                    return r
            return 'blocked'
        if isinstance(e, ast.Subscript):
            for x in (e.value, e.slice):
                r = walk(x)
                if r:
                    return r
            return 'blocked'
        if isinstance(e, ast.Slice):
            for x in (e.lower, e.upper, e.step):
                if x is not None:
                    r = walk(x)
                    if r:
                        return r
            return None
        if isinstance(e, ast.BinOp):
            for x in (e.left, e.right):
                r = walk(x)
                if r:
                    return r
            return 'blocked'
        if isinstance(e, ast.UnaryOp):
            return walk(e.operand) or 'blocked'
        if isinstance(e, ast.Compare):
            r = walk(e.left)
            if r:
                return r
            if len(e.comparators) == 1:
                return walk(e.comparators[0]) or 'blocked'
            return 'blocked' if _occ(e, name) else 'blocked'
        if isinstance(e, ast.BoolOp):
            r = walk(e.values[0])
            if r:
                return r
            return 'blocked'
        if isinstance(e, ast.IfExp):
            r = walk(e.test)
            if r:
                return r
            return 'blocked'
        if isinstance(e, ast.JoinedStr):
            for x in e.values:
                if isinstance(x, ast.FormattedValue):
                    r = walk(x.value)
                    if r:
                        return r
                    return 'blocked'
            return None
        return 'blocked'

    if isinstance(stmt, ast.Assign):
        r = walk(stmt.value)
        if r == 'hit':
            return True
        return False
    if isinstance(stmt, (ast.Expr, ast.Return)):
        return stmt.value is not None and walk(stmt.value) == 'hit'
    if isinstance(stmt, ast.If):
        return walk(stmt.test) == 'hit' and not any(_occ(s, name) for s in stmt.body + stmt.orelse)
    if isinstance(stmt, ast.For):
        return walk(stmt.iter) == 'hit' and not any(_occ(s, name) for s in stmt.body + stmt.orelse) \
            and not _occ(stmt.target, name)
    if isinstance(stmt, ast.Raise):
        return stmt.exc is not None and walk(stmt.exc) == 'hit'
    return False


class _Sub(ast.NodeTransformer):
    def __init__(self, name, expr):
        self.name, self.expr = name, expr

    def visit_Name(self, node):
        if node.id == self.name and isinstance(node.ctx, ast.Load):
            return copy.deepcopy(self.expr)
        return node


def _is_total(e, known_tuples):
    """Cannot raise, no effect: constants, names, displays of such, t[k] for a tuple t of known length."""
    if isinstance(e, (ast.Constant, ast.Name)):
        return True
    if isinstance(e, (ast.Tuple, ast.List)):
        return all(_is_total(x, known_tuples) for x in e.elts)
    if isinstance(e, ast.Subscript) and isinstance(e.value, ast.Name) and e.value.id in known_tuples \
            and isinstance(e.slice, ast.Constant) and isinstance(e.slice.value, int) \
            and 0 <= e.slice.value < known_tuples[e.value.id]:
        return True
    if isinstance(e, ast.BinOp) and isinstance(e.op, (ast.Add, ast.Sub)) and isinstance(e.right, ast.Constant) \
            and isinstance(e.right.value, (int, float)) and isinstance(e.left, ast.Call) \
            and call_name(e.left) in ('np.zeros', 'np.ones') and len(e.left.args) + len(e.left.keywords) == 1 \
            and all(isinstance(x, ast.Constant) and isinstance(x.value, int) and x.value >= 0
                    for x in list(e.left.args) + [k.value for k in e.left.keywords]):
        return True
    return False


def _diff_position(a, b):
    """Two expression/statement trees that are identical except at ONE sub-expression: return the
    (parent, field, index, sub_a, sub_b) of that position in `a`, else None."""
    if type(a) is not type(b):
        return None
    diffs = []

    def rec(x, y, parent, field, idx):
        if len(diffs) > 1:
            return
        if type(x) is not type(y):
            if isinstance(x, ast.expr) and isinstance(y, ast.expr):
                diffs.append((parent, field, idx, x, y))
            else:
                diffs.append(None)
                diffs.append(None)
            return
        if isinstance(x, ast.AST):
            if ast.dump(x) == ast.dump(y):
                return
            # try to descend; if the children lists differ in length, this node is the position
            sub = []
            ok = True
            for f in x._fields:
                vx, vy = getattr(x, f, None), getattr(y, f, None)
                if isinstance(vx, list) and isinstance(vy, list):
                    if len(vx) != len(vy):
                        ok = False
                        break
                    for k, (p, q) in enumerate(zip(vx, vy)):
                        sub.append((p, q, x, f, k))
                elif isinstance(vx, ast.AST) or isinstance(vy, ast.AST):
                    if f == 'step' and isinstance(x, ast.Slice) and (vx is None or vy is None):
                        # a missing slice step is the step 1
                        vx = vx if vx is not None else ast.Constant(value=1)
                        vy = vy if vy is not None else ast.Constant(value=1)
                        x.step = vx
                    sub.append((vx, vy, x, f, None))
                elif vx != vy:
                    ok = False
                    break
            if not ok or isinstance(x, (ast.expr_context, ast.operator, ast.cmpop, ast.boolop, ast.unaryop)):
                if isinstance(x, ast.expr):
                    diffs.append((parent, field, idx, x, y))
                else:
                    diffs.append(None)
                    diffs.append(None)
                return
            before = len(diffs)
            for p, q, par, f, k in sub:
                rec(p, q, par, f, k)
            if len(diffs) - before > 1 and isinstance(x, ast.expr):
                del diffs[before:]
                diffs.append((parent, field, idx, x, y))
        elif x != y:
            diffs.append(None)
            diffs.append(None)

    rec(a, b, None, None, None)
    if len(diffs) == 1 and diffs[0] is not None and diffs[0][0] is not None:
        return diffs[0]
    return None


class Idioms:
    def __init__(self, fn, sigs=None, is_pure=None, pyx_arrays=()):
        self.fn = fn
        self.sigs = sigs or {}
        self.is_pure = is_pure
        self.k = 0
        self.known_tuples = {}
        self.pyx_arrays = set(pyx_arrays)
        self.params = {a.arg for a in fn.args.posonlyargs + fn.args.args + fn.args.kwonlyargs}
        if fn.args.vararg:
            self.params.add(fn.args.vararg.arg)
        if fn.args.kwarg:
            self.params.add(fn.args.kwarg.arg)
        self.changed = False

    # ------------------------------------------------------------------ expression level (I9)
    def exprs(self):
        fn = self.fn
        outer = self

        class T(ast.NodeTransformer):
            def visit_BinOp(self, node):
                self.generic_visit(node)
                sc = _scaled_constant_array(node)
                if sc is not None:
                    outer.changed = True
                    return ast.copy_location(sc, node)
                if isinstance(node.op, ast.Add) and isinstance(node.right, ast.Constant) and isinstance(node.right.value, str):
                    if isinstance(node.left, ast.Constant) and isinstance(node.left.value, str):
                        outer.changed = True
                        return ast.copy_location(ast.Constant(value=node.left.value + node.right.value), node)
                    # (X + 'a') + 'b'  ->  X + 'ab'   (string concatenation is associative; X + 'a' already requires a str X)
                    l = node.left
                    if isinstance(l, ast.BinOp) and isinstance(l.op, ast.Add) and isinstance(l.right, ast.Constant) \
                            and isinstance(l.right.value, str):
                        outer.changed = True
                        return ast.copy_location(ast.BinOp(left=l.left, op=ast.Add(),
                                                           right=ast.Constant(value=l.right.value + node.right.value)), node)
                return node

            def visit_Compare(self, node):
                self.generic_visit(node)
                if len(node.ops) == 1 and isinstance(node.ops[0], (ast.In, ast.NotIn)) and isinstance(node.comparators[0], ast.List) \
                        and all(isinstance(x, ast.Constant) for x in node.comparators[0].elts):
                    node.comparators[0] = ast.copy_location(ast.Tuple(elts=node.comparators[0].elts, ctx=ast.Load()), node.comparators[0])
                    outer.changed = True
                # 0 < M.sum()  /  M.sum() != 0  ->  M.any()   for a comparison mask M
                if len(node.ops) == 1:
                    l, r = node.left, node.comparators[0]
                    cand = None
                    if isinstance(node.ops[0], ast.Lt) and isinstance(l, ast.Constant) and l.value == 0 and type(l.value) is int:
                        cand = r
                    elif isinstance(node.ops[0], ast.NotEq):
                        if isinstance(r, ast.Constant) and r.value == 0 and type(r.value) is int:
                            cand = l
                        elif isinstance(l, ast.Constant) and l.value == 0 and type(l.value) is int:
                            cand = r
                    if cand is not None and isinstance(cand, ast.Call) and isinstance(cand.func, ast.Attribute) \
                            and cand.func.attr == 'sum' and not cand.args and not cand.keywords and _is_mask(cand.func.value):
                        outer.changed = True
                        return ast.copy_location(ast.Call(func=ast.Attribute(value=cand.func.value, attr='any', ctx=ast.Load()),
                                                          args=[], keywords=[]), node)
                tt = _truth_table(node)
                if tt is not None:
                    outer.changed = True
                    return tt
                return node

            def visit_Call(self, node):
                self.generic_visit(node)
                if isinstance(node.func, ast.Attribute) and node.func.attr == '__invert__' and not node.args and not node.keywords:
                    outer.changed = True
                    return ast.copy_location(ast.UnaryOp(op=ast.Invert(), operand=node.func.value), node)
                cn = call_name(node) or ''
                flat = _flat_of_fresh(node)
                if flat is not None:
                    outer.changed = True
                    return ast.copy_location(flat, node)
                # any(a != b for ...) -> not all(a == b for ...)   (same elements evaluated, same stopping point)
                if cn == 'any' and len(node.args) == 1 and not node.keywords and isinstance(node.args[0], ast.GeneratorExp):
                    neg = _negate(node.args[0].elt)
                    if neg is not None and isinstance(node.args[0].elt, ast.Compare) and \
                            isinstance(node.args[0].elt.ops[0], (ast.NotEq, ast.IsNot, ast.NotIn)):
                        g = ast.GeneratorExp(elt=neg, generators=node.args[0].generators)
                        outer.changed = True
                        return ast.copy_location(ast.UnaryOp(op=ast.Not(), operand=ast.Call(
                            func=ast.Name(id='all', ctx=ast.Load()), args=[g], keywords=[])), node)
                if cn == 'all' and len(node.args) == 1 and not node.keywords and isinstance(node.args[0], ast.GeneratorExp):
                    neg = _negate(node.args[0].elt)
                    if neg is not None and isinstance(node.args[0].elt, ast.Compare) and \
                            isinstance(node.args[0].elt.ops[0], (ast.NotEq, ast.IsNot, ast.NotIn)):
                        g = ast.GeneratorExp(elt=neg, generators=node.args[0].generators)
                        outer.changed = True
                        return ast.copy_location(ast.UnaryOp(op=ast.Not(), operand=ast.Call(
                            func=ast.Name(id='any', ctx=ast.Load()), args=[g], keywords=[])), node)
                ctor = _ctor_astype(node)
                if ctor is not None:
                    outer.changed = True
                    return ast.copy_location(ctor, node)
                if cn == 'len' and len(node.args) == 1 and not node.keywords and _is_flat_view(node.args[0]):
                    # len(E.reshape(-1)) -> E.reshape(-1).shape[0]   (the operand is 1-D by construction)
                    outer.changed = True
                    return ast.copy_location(ast.Subscript(value=ast.Attribute(value=node.args[0], attr='shape', ctx=ast.Load()),
                                                           slice=ast.Constant(value=0), ctx=ast.Load()), node)
                if cn == 'len' and len(node.args) == 1 and not node.keywords and isinstance(node.args[0], ast.Attribute) \
                        and node.args[0].attr == 'shape':
                    outer.changed = True
                    return ast.copy_location(ast.Attribute(value=node.args[0].value, attr='ndim', ctx=ast.Load()), node)
                if cn in ('np.zeros', 'np.ones', 'np.empty'):
                    for k in list(node.keywords):
                        if k.arg == 'dtype' and ((isinstance(k.value, ast.Name) and k.value.id == 'float') or
                                                 (call_name_of(k.value) in ('np.float64', 'np.double', 'np.float_'))):
                            node.keywords.remove(k)
                            outer.changed = True
                        if k.arg == 'shape' and isinstance(k.value, ast.Tuple) and len(k.value.elts) == 1 \
                                and not isinstance(k.value.elts[0], ast.Starred):
                            k.value = k.value.elts[0]
                            outer.changed = True
                    if len(node.args) == 2 and ((isinstance(node.args[1], ast.Name) and node.args[1].id == 'float') or
                                                call_name_of(node.args[1]) in ('np.float64', 'np.double', 'np.float_')):
                        node.args = node.args[:1]
                        outer.changed = True
                    if node.args and isinstance(node.args[0], ast.Tuple) and len(node.args[0].elts) == 1 \
                            and not isinstance(node.args[0].elts[0], ast.Starred):
                        node.args[0] = node.args[0].elts[0]
                        outer.changed = True
                if cn == 'list' and len(node.args) == 1 and not node.keywords and isinstance(node.args[0], ast.Call) \
                        and call_name(node.args[0]) in ('itertools.repeat', 'repeat') and len(node.args[0].args) == 2 \
                        and not node.args[0].keywords:
                    a, n = node.args[0].args
                    outer.changed = True
                    return ast.copy_location(ast.BinOp(left=ast.List(elts=[a], ctx=ast.Load()), op=ast.Mult(), right=n), node)
                # f(**{'k': v}) -> f(k=v)
                new = []
                ch = False
                for k in node.keywords:
                    if k.arg is None and isinstance(k.value, ast.Dict) and k.value.keys and \
                            all(isinstance(q, ast.Constant) and isinstance(q.value, str) and q.value.isidentifier() for q in k.value.keys):
                        for q, v in zip(k.value.keys, k.value.values):
                            new.append(ast.keyword(arg=q.value, value=v))
                        ch = True
                    else:
                        new.append(k)
                if ch and len({k.arg for k in new if k.arg}) == len([k for k in new if k.arg]):
                    # evaluation order: positional, then keywords in source order; sorting keywords of the
                    # normal form happens elsewhere for all calls alike
                    node.keywords = new
                    outer.changed = True
                return node

            def _comp(self, node):
                self.generic_visit(node)
                if len(node.generators) == 1:
                    g = node.generators[0]
                    fields = [f for f in ('elt', 'key', 'value') if getattr(node, f, None) is not None]
                    body = [getattr(node, f) for f in fields] + list(g.ifs)
                    R = _index_to_element(g, body, outer)
                    if R is not None:
                        for f in fields:
                            setattr(node, f, R.visit(getattr(node, f)))
                        g.ifs = [R.visit(x) for x in g.ifs]
                        outer.changed = True
                return node
            visit_ListComp = visit_SetComp = visit_GeneratorExp = visit_DictComp = _comp

            def visit_IfExp(self, node):
                self.generic_visit(node)
                if ast.dump(node.body) == ast.dump(node.orelse) and outer.is_pure(node.test) and _call_free(node.test):
                    outer.changed = True
                    return node.body
                # A if c1 else (A if c2 else B) -> A if (c1 or c2) else B ;  (A if c2 else B) if c1 else B -> A if (c1 and c2) else B
                if isinstance(node.orelse, ast.IfExp) and ast.dump(node.body) == ast.dump(node.orelse.body):
                    outer.changed = True
                    return self.visit(ast.copy_location(ast.IfExp(test=_boolop(ast.Or(), node.test, node.orelse.test), body=node.body,
                                                                  orelse=node.orelse.orelse), node))
                if isinstance(node.body, ast.IfExp) and ast.dump(node.orelse) == ast.dump(node.body.orelse):
                    outer.changed = True
                    return self.visit(ast.copy_location(ast.IfExp(test=_boolop(ast.And(), node.test, node.body.test), body=node.body.body,
                                                                  orelse=node.orelse), node))
                t = _positive(node.test)
                if t is not None:
                    node.test, node.body, node.orelse = t, node.orelse, node.body
                    outer.changed = True
                # f(X, A) if c else f(X, B)  ->  f(X, A if c else B)   (c and what precedes the position pure)
                if outer.is_pure(node.test) and isinstance(node.body, (ast.Call, ast.Tuple, ast.List, ast.BinOp, ast.Subscript)) \
                        and type(node.body) is type(node.orelse):
                    pos = _diff_position(node.body, node.orelse)
                    if pos is not None and pos[0] is not None:
                        probe = copy.deepcopy(node.body)
                        ppos = _diff_position(probe, node.orelse)
                        if ppos is not None and ppos[0] is not None:
                            mk = ast.Name(id='__pos__', ctx=ast.Load())
                            if ppos[2] is None:
                                setattr(ppos[0], ppos[1], mk)
                            else:
                                getattr(ppos[0], ppos[1])[ppos[2]] = mk
                            if _first_effect_position(ast.Expr(value=probe), '__pos__', pure=outer.is_pure):
                                parent, field, idx, xa, xb = pos
                                ife = ast.IfExp(test=node.test, body=xa, orelse=xb)
                                if idx is None:
                                    setattr(parent, field, ife)
                                else:
                                    getattr(parent, field)[idx] = ife
                                outer.changed = True
                                return ast.copy_location(node.body, node)
                return node

            def visit_Attribute(self, node):
                self.generic_visit(node)
                return node

            def visit_BoolOp(self, node):
                tt = _truth_table(node)
                if tt is not None:
                    outer.changed = True
                    return tt
                self.generic_visit(node)
                return node

            def visit_UnaryOp(self, node):
                if isinstance(node.op, ast.Not):
                    tt = _truth_table(node)
                    if tt is not None:
                        outer.changed = True
                        return tt
                    neg = _negate(node.operand)
                    if neg is not None:
                        outer.changed = True
                        return self.visit(ast.copy_location(neg, node))
                self.generic_visit(node)
                return node

        for i, s in enumerate(fn.body):
            fn.body[i] = T().visit(s)
        lists = _list_locals(fn, self.params)
        if lists:
            for n in ast.walk(fn):
                if isinstance(n, (ast.If, ast.While, ast.IfExp)):
                    before = ast.dump(n.test)
                    n.test = _truthiness(n.test, lists)
                    if ast.dump(n.test) != before:
                        self.changed = True
                elif isinstance(n, ast.Assert):
                    before = ast.dump(n.test)
                    n.test = _truthiness(n.test, lists)
                    if ast.dump(n.test) != before:
                        self.changed = True

    # ------------------------------------------------------------------ block level
    def block(self, stmts, root, loop=False):
        guard = 0
        while guard < 400:
            guard += 1
            for s in stmts:
                inner_loop = isinstance(s, (ast.For, ast.While, ast.AsyncFor))
                for f in ('body', 'orelse', 'finalbody'):
                    b = getattr(s, f, None)
                    if isinstance(b, list) and b and isinstance(b[0], ast.stmt) and not isinstance(s, (ast.FunctionDef, ast.ClassDef, ast.AsyncFunctionDef)):
                        setattr(s, f, self.block(b, root, (inner_loop and f == 'body') or (loop and not inner_loop and isinstance(s, (ast.If, ast.With, ast.Try)))))
                if isinstance(s, ast.Try):
                    for h in s.handlers:
                        h.body = self.block(h.body, root, loop)
            again = False
            for i, s in enumerate(stmts):
                new = self._at(stmts, i, root)
                if new is not None:
                    stmts[:] = new      # in place: `root` must always show the current code
                    self.changed = True
                    again = True
                    break
            if not again:
                break
        return stmts

    def _merge_arms(self, s):
        pairs = list(zip(s.body, s.orelse))
        c = s.test
        c_pure = self.is_pure(c)
        if len(pairs) > 1:
            if not c_pure:
                return None
            # re-evaluating c for every statement: no statement of the arms may change what c reads
            cn = _names(c)
            for st in s.body + s.orelse:
                for n in ast.walk(st):
                    if isinstance(n, ast.Name) and isinstance(n.ctx, (ast.Store, ast.Del)) and n.id in cn:
                        return None
                    if isinstance(n, (ast.Subscript, ast.Attribute)) and isinstance(n.ctx, (ast.Store, ast.Del)):
                        r = n
                        while isinstance(r, (ast.Subscript, ast.Attribute)):
                            r = r.value
                        if isinstance(r, ast.Name) and r.id in cn:
                            return None
                    if isinstance(n, ast.Call) and not self.is_pure(n):
                        return None
        out = []
        for a, b in pairs:
            if ast.dump(a) == ast.dump(b):
                if len(pairs) == 1:
                    return None
                out.append(a)
                continue
            if not (type(a) is type(b) and isinstance(a, (ast.Assign, ast.Expr, ast.Return))):
                return None
            if isinstance(a, ast.Assign) and [ast.dump(t) for t in a.targets] != [ast.dump(t) for t in b.targets]:
                return None
            if isinstance(a, ast.Return) and (a.value is None or b.value is None):
                return None
            new = None
            va, vb = a.value, b.value
            pos = _diff_position(va, vb)
            if pos is not None and c_pure:
                probe = copy.deepcopy(a)
                ppos = _diff_position(probe.value, vb)
                if ppos is not None:
                    pp, pf, pi = ppos[0], ppos[1], ppos[2]
                    mk = ast.Name(id='__pos__', ctx=ast.Load())
                    if pi is None:
                        setattr(pp, pf, mk)
                    else:
                        getattr(pp, pf)[pi] = mk
                    if _first_effect_position(probe, '__pos__', pure=self.is_pure):
                        parent, field, idx, xa, xb = pos
                        ife = ast.IfExp(test=copy.deepcopy(c), body=xa, orelse=xb)
                        if idx is None:
                            setattr(parent, field, ife)
                        else:
                            getattr(parent, field)[idx] = ife
                        new = a
            if new is None and isinstance(a, ast.Assign) and len(a.targets) == 1:
                # the right-hand side is evaluated before the target in both spellings
                new = ast.Assign(targets=a.targets, value=ast.IfExp(test=copy.deepcopy(c), body=va, orelse=vb))
            elif new is None and isinstance(a, ast.Return):
                new = ast.Return(value=ast.IfExp(test=copy.deepcopy(c), body=va, orelse=vb))
            if new is None:
                return None
            out.append(new)
        return out

    def _local(self, name):
        return name not in self.params and name != 'self'

    def _fresh(self):
        self.k += 1
        return '__u%d' % self.k

    def _at(self, stmts, i, root):
        s = stmts[i]
        nxt = stmts[i + 1] if i + 1 < len(stmts) else None

        # x = A ; if c: x = B   ->   x = B if c else A      (A total, c and B do not read x)
        if isinstance(s, ast.Assign) and len(s.targets) == 1 and isinstance(s.targets[0], ast.Name) and isinstance(nxt, ast.If) \
                and not nxt.orelse and len(nxt.body) == 1 and isinstance(nxt.body[0], ast.Assign) and len(nxt.body[0].targets) == 1 \
                and isinstance(nxt.body[0].targets[0], ast.Name) and nxt.body[0].targets[0].id == s.targets[0].id \
                and self._local(s.targets[0].id) and _is_total(s.value, self.known_tuples) \
                and s.targets[0].id not in (_names(nxt.test) | _names(nxt.body[0].value) | _names(s.value)):
            new = ast.copy_location(ast.Assign(targets=[s.targets[0]], value=ast.IfExp(test=nxt.test, body=nxt.body[0].value,
                                                                                      orelse=s.value)), s)
            ast.fix_missing_locations(new)
            return stmts[:i] + [new] + stmts[i + 2:]

        # I10 common last statement of both arms
        if isinstance(s, ast.If) and s.orelse and len(s.body) + len(s.orelse) > 2 \
                and ast.dump(s.body[-1]) == ast.dump(s.orelse[-1]) \
                and isinstance(s.body[-1], (ast.Assign, ast.Expr, ast.AugAssign)):
            tail = s.body[-1]
            s.body = s.body[:-1]
            s.orelse = s.orelse[:-1]
            if not s.body:
                s.test = ast.copy_location(ast.UnaryOp(op=ast.Not(), operand=s.test), s.test)
                s.body, s.orelse = s.orelse, []
            return stmts[:i + 1] + [tail] + stmts[i + 1:]

        # tail duplication: `if c: A [else: B] ; return E` as the end of a block  ->  the return inside both arms
        if isinstance(s, ast.If) and i + 2 == len(stmts) and isinstance(nxt, ast.Return) and not _ends_terminal(s.body) \
                and not (s.orelse and _ends_terminal(s.orelse)) and _size(nxt) <= 60 and _depth_ok(s):
            s.body = s.body + [copy.deepcopy(nxt)]
            s.orelse = (s.orelse or []) + [copy.deepcopy(nxt)]
            return stmts[:i + 1]

        # I1 if/else whose arms are the same statements up to one sub-expression each
        if isinstance(s, ast.If) and s.orelse and len(s.body) == len(s.orelse) and 1 <= len(s.body) <= 3:
            merged = self._merge_arms(s)
            if merged is not None:
                for x in merged:
                    ast.copy_location(x, s)
                    ast.fix_missing_locations(x)
                return stmts[:i] + merged + stmts[i + 1:]

        # polarity of if/else on an exactly negatable test
        if isinstance(s, ast.If) and s.orelse:
            t = _positive(s.test)
            if t is not None:
                s.test, s.body, s.orelse = t, s.orelse, s.body
                return list(stmts)
        # for i in range(len(X)): ... X[i] ...   ->  for e in X: ... e ...
        if isinstance(s, ast.For) and not s.orelse:
            fake = ast.comprehension(target=s.target, iter=s.iter, ifs=[], is_async=0)
            if all(_occ(root, t) == _occ(s, t) for t in target_names(s.target)):
                R = _index_to_element(fake, s.body, self)
                if R is not None:
                    s.body = [R.visit(b) for b in s.body]
                    s.target, s.iter = fake.target, fake.iter
                    return list(stmts)
        # x[i] op= v  ->  x[i] = x[i] op v   for typed C arrays (.pyx arguments declared as memoryviews / buffers)
        if isinstance(s, ast.AugAssign) and isinstance(s.target, ast.Subscript) and isinstance(s.target.value, ast.Name) \
                and s.target.value.id in self.pyx_arrays and all(_plain(x) for x in (
                    s.target.slice.elts if isinstance(s.target.slice, ast.Tuple) else [s.target.slice])):
            load = copy.deepcopy(s.target)
            for n in ast.walk(load):
                if hasattr(n, 'ctx'):
                    n.ctx = ast.Load()
            new = ast.copy_location(ast.Assign(targets=[s.target], value=ast.BinOp(left=load, op=s.op, right=s.value)), s)
            ast.fix_missing_locations(new)
            return stmts[:i] + [new] + stmts[i + 1:]

        # I6 independent tuple assignment
        if isinstance(s, ast.Assign) and len(s.targets) == 1 and isinstance(s.targets[0], ast.Tuple) \
                and isinstance(s.value, ast.Tuple) and len(s.value.elts) == len(s.targets[0].elts) \
                and all(isinstance(t, ast.Name) for t in s.targets[0].elts) \
                and not any(isinstance(v, ast.Starred) for v in s.value.elts):
            tn = [t.id for t in s.targets[0].elts]
            ok = len(set(tn)) == len(tn)
            for k, v in enumerate(s.value.elts):
                if _names(v) & set(tn[:k]):
                    ok = False
            if ok:
                new = [ast.copy_location(ast.Assign(targets=[t], value=v), s) for t, v in zip(s.targets[0].elts, s.value.elts)]
                return stmts[:i] + new + stmts[i + 1:]

        # I7 unpacking a call of known tuple length
        if isinstance(s, ast.Assign) and len(s.targets) == 1 and isinstance(s.targets[0], ast.Tuple) \
                and isinstance(s.value, ast.Call) and all(isinstance(t, ast.Name) for t in s.targets[0].elts):
            n = self._arity(s.value)
            if n is not None and n == len(s.targets[0].elts):
                t = self._fresh()
                self.known_tuples[t] = n
                new = [ast.Assign(targets=[ast.Name(id=t, ctx=ast.Store())], value=s.value)]
                for k, tg in enumerate(s.targets[0].elts):
                    new.append(ast.Assign(targets=[tg], value=ast.Subscript(value=ast.Name(id=t, ctx=ast.Load()),
                                                                           slice=ast.Constant(value=k), ctx=ast.Load())))
                for x in new:
                    ast.copy_location(x, s)
                    ast.fix_missing_locations(x)
                return stmts[:i] + new + stmts[i + 1:]
        # a named temporary holding such a call
        if isinstance(s, ast.Assign) and len(s.targets) == 1 and isinstance(s.targets[0], ast.Name) \
                and isinstance(s.value, ast.Call) and s.targets[0].id not in self.known_tuples \
                and self._local(s.targets[0].id) and self._single_def(root, s.targets[0].id):
            n = self._arity(s.value)
            if n is not None:
                self.known_tuples[s.targets[0].id] = n
                fields = self._nt_fields(s.value)
                if fields:
                    # t.field -> t[k] for a local bound once to a call returning that namedtuple
                    tname = s.targets[0].id

                    class A(ast.NodeTransformer):
                        def visit_Attribute(self, node):
                            self.generic_visit(node)
                            if isinstance(node.value, ast.Name) and node.value.id == tname and isinstance(node.ctx, ast.Load) \
                                    and node.attr in fields:
                                return ast.copy_location(ast.Subscript(value=node.value, slice=ast.Constant(value=fields.index(node.attr)),
                                                                       ctx=ast.Load()), node)
                            return node
                    before = ast.dump(root)
                    for j, st in enumerate(root.body):
                        root.body[j] = A().visit(st)
                    ast.fix_missing_locations(root)
                    if ast.dump(root) != before:
                        return list(stmts)
        if isinstance(s, ast.Assign) and len(s.targets) == 1 and isinstance(s.targets[0], ast.Tuple) \
                and isinstance(s.value, ast.Name) and s.value.id in self.known_tuples \
                and len(s.targets[0].elts) == self.known_tuples[s.value.id] \
                and all(isinstance(t, ast.Name) and t.id != s.value.id for t in s.targets[0].elts):
            new = []
            for k, tg in enumerate(s.targets[0].elts):
                new.append(ast.Assign(targets=[tg], value=ast.Subscript(value=ast.Name(id=s.value.id, ctx=ast.Load()),
                                                                       slice=ast.Constant(value=k), ctx=ast.Load())))
            for x in new:
                ast.copy_location(x, s)
                ast.fix_missing_locations(x)
            return stmts[:i] + new + stmts[i + 1:]

        # for T in IT: a, b = T  ->  for (a, b) in IT
        if isinstance(s, ast.For) and isinstance(s.target, ast.Name) and s.body and isinstance(s.body[0], ast.Assign) \
                and len(s.body[0].targets) == 1 and isinstance(s.body[0].targets[0], ast.Tuple) \
                and isinstance(s.body[0].value, ast.Name) and s.body[0].value.id == s.target.id \
                and _occ(root, s.target.id) == 2 and all(isinstance(t, ast.Name) for t in s.body[0].targets[0].elts):
            s.target = ast.copy_location(ast.Tuple(elts=s.body[0].targets[0].elts, ctx=ast.Store()), s.target)
            s.body = s.body[1:] or [ast.Pass()]
            return list(stmts)

        # I4 enumerate with an index that is never read
        if isinstance(s, ast.For) and isinstance(s.target, ast.Tuple) and len(s.target.elts) == 2 \
                and isinstance(s.target.elts[0], ast.Name) and isinstance(s.iter, ast.Call) and call_name(s.iter) == 'enumerate' \
                and len(s.iter.args) == 1 and not s.iter.keywords and _occ(root, s.target.elts[0].id) == 1:
            s.target = s.target.elts[1]
            s.iter = s.iter.args[0]
            return list(stmts)
        # manual counter -> enumerate
        if isinstance(s, ast.Assign) and len(s.targets) == 1 and isinstance(s.targets[0], ast.Name) \
                and isinstance(s.value, ast.Constant) and s.value.value == 0 and type(s.value.value) is int \
                and isinstance(nxt, ast.For) and not nxt.orelse and len(nxt.body) > 1:
            k = s.targets[0].id
            last = nxt.body[-1]
            if self._local(k) and isinstance(last, ast.AugAssign) and isinstance(last.op, ast.Add) and isinstance(last.target, ast.Name) \
                    and last.target.id == k and isinstance(last.value, ast.Constant) and last.value.value == 1 \
                    and not any(isinstance(n, ast.Continue) for b in nxt.body for n in ast.walk(b)) \
                    and self._stores(root, k) == 2 and not _occ(nxt.iter, k) and not _occ(nxt.target, k) \
                    and _occ(root, k) == _occ(nxt, k) + 1:
                nxt.body = nxt.body[:-1]
                nxt.target = ast.copy_location(ast.Tuple(elts=[ast.Name(id=k, ctx=ast.Store()), nxt.target], ctx=ast.Store()), nxt.target)
                nxt.iter = ast.copy_location(ast.Call(func=ast.Name(id='enumerate', ctx=ast.Load()), args=[nxt.iter], keywords=[]), nxt.iter)
                return stmts[:i] + stmts[i + 1:]

        # I5 np.empty + fill
        if isinstance(s, ast.Assign) and len(s.targets) == 1 and isinstance(s.targets[0], ast.Name) \
                and isinstance(s.value, ast.Call) and call_name(s.value) == 'np.empty' \
                and isinstance(nxt, ast.Expr) and isinstance(nxt.value, ast.Call) and isinstance(nxt.value.func, ast.Attribute) \
                and nxt.value.func.attr == 'fill' and isinstance(nxt.value.func.value, ast.Name) \
                and nxt.value.func.value.id == s.targets[0].id and len(nxt.value.args) == 1 and not nxt.value.keywords \
                and self.is_pure(nxt.value.args[0]) and s.targets[0].id not in _names(nxt.value.args[0]):
            c = s.value
            kws = {k.arg: k.value for k in c.keywords}
            pos = list(c.args)
            names = ['shape', 'dtype']
            for j, a in enumerate(pos[:2]):
                kws.setdefault(names[j], a)
            if len(pos) <= 2 and set(kws) <= {'shape', 'dtype'} and 'shape' in kws:
                kws['fill_value'] = nxt.value.args[0]
                c.func = ast.Attribute(value=ast.Name(id='np', ctx=ast.Load()), attr='full', ctx=ast.Load())
                c.args = []
                c.keywords = [ast.keyword(arg=k, value=v) for k, v in sorted(kws.items())]
                ast.fix_missing_locations(c)
                return stmts[:i + 1] + stmts[i + 2:]

        # I3 accumulate-by-append loop -> comprehension
        if isinstance(s, ast.Assign) and len(s.targets) == 1 and isinstance(s.targets[0], ast.Name) \
                and isinstance(nxt, ast.For) and not nxt.orelse and len(nxt.body) == 1:
            L = s.targets[0].id
            tnames = set(target_names(nxt.target))
            body = nxt.body[0]
            cond = None
            if isinstance(body, ast.If) and not body.orelse and len(body.body) == 1 and self.is_pure(body.test):
                cond = body.test
                body = body.body[0]
            inside = _occ(nxt, L)
            free = self._local(L) and not (_names(nxt.iter) & ({L} | tnames)) and L not in tnames \
                and all(_occ(root, t) == _occ(nxt, t) for t in tnames) and (cond is None or L not in _names(cond))
            if free and isinstance(s.value, ast.List) and not s.value.elts and isinstance(body, ast.Expr) \
                    and isinstance(body.value, ast.Call) and isinstance(body.value.func, ast.Attribute) \
                    and body.value.func.attr == 'append' and isinstance(body.value.func.value, ast.Name) \
                    and body.value.func.value.id == L and len(body.value.args) == 1 and not body.value.keywords \
                    and inside == 1 and not isinstance(body.value.args[0], ast.Starred):
                comp = ast.ListComp(elt=body.value.args[0], generators=[ast.comprehension(
                    target=nxt.target, iter=nxt.iter, ifs=[cond] if cond is not None else [], is_async=0)])
                s.value = ast.copy_location(comp, s.value)
                ast.fix_missing_locations(s)
                return stmts[:i + 1] + stmts[i + 2:]
            if free and isinstance(s.value, ast.Dict) and not s.value.keys and isinstance(body, ast.Assign) \
                    and len(body.targets) == 1 and isinstance(body.targets[0], ast.Subscript) \
                    and isinstance(body.targets[0].value, ast.Name) and body.targets[0].value.id == L and inside == 1:
                comp = ast.DictComp(key=body.targets[0].slice, value=body.value, generators=[ast.comprehension(
                    target=nxt.target, iter=nxt.iter, ifs=[cond] if cond is not None else [], is_async=0)])
                # a dict display evaluates key before value; the loop evaluates the value first: exact only
                # when one of them is a plain load
                if _plain(body.targets[0].slice) or _plain(body.value):
                    s.value = ast.copy_location(comp, s.value)
                    ast.fix_missing_locations(s)
                    return stmts[:i + 1] + stmts[i + 2:]

        # I2 single-use temporary consumed by the next statement
        if isinstance(s, ast.Assign) and len(s.targets) == 1 and isinstance(s.targets[0], ast.Name) and nxt is not None:
            t = s.targets[0].id
            if self._local(t) and _occ(root, t) == 2 and _occ(nxt, t) == 1 and not isinstance(s.value, (ast.GeneratorExp,)) \
                    and _first_effect_position(nxt, t):
                # (a name with a declared C type occurs a third time, in its declaration: never forwarded)
                if isinstance(nxt, ast.For):
                    nxt.iter = _Sub(t, s.value).visit(nxt.iter)
                elif isinstance(nxt, ast.If):
                    nxt.test = _Sub(t, s.value).visit(nxt.test)
                else:
                    stmts[i + 1] = _Sub(t, s.value).visit(nxt)
                if t in self.known_tuples:
                    pass
                return stmts[:i] + stmts[i + 1:]

        # I8 dead stores of total expressions / bare declarations
        if isinstance(s, ast.Assign) and len(s.targets) == 1 and isinstance(s.targets[0], ast.Name):
            t = s.targets[0].id
            if self._local(t) and _occ(root, t) == self._stores(root, t) and not self._global_or_closure(root, t) \
                    and (_is_total(s.value, self.known_tuples) or self._droppable(s.value)):
                return stmts[:i] + stmts[i + 1:]
        if isinstance(s, ast.AnnAssign) and s.value is None and isinstance(s.target, ast.Name) and _occ(root, s.target.id) == 1:
            return stmts[:i] + stmts[i + 1:]
        return None

    def _droppable(self, e):
        """A pure expression without subscripts or conversions (the idioms used to validate input by
        evaluating something for its exception): what remains of a temporary that only fed a log message."""
        if not self.is_pure(e):
            return False
        for n in ast.walk(e):
            if isinstance(n, (ast.Subscript, ast.BinOp, ast.Starred, ast.ListComp, ast.GeneratorExp, ast.DictComp, ast.SetComp)):
                return False
            if isinstance(n, ast.Call) and isinstance(n.func, ast.Name) and n.func.id not in ('len', 'min', 'max', 'sum', 'sorted', 'list', 'tuple', 'abs'):
                return False
        return True

    def _stores(self, root, name):
        return sum(1 for n in ast.walk(root) if isinstance(n, ast.Name) and n.id == name and isinstance(n.ctx, (ast.Store, ast.Del)))

    def _single_def(self, root, name):
        return self._stores(root, name) == 1

    def _global_or_closure(self, root, name):
        for n in ast.walk(root):
            if isinstance(n, (ast.Global, ast.Nonlocal)) and name in n.names:
                return True
            if isinstance(n, (ast.FunctionDef, ast.Lambda, ast.AsyncFunctionDef)) and n is not root:
                if any(isinstance(m, ast.Name) and m.id == name for m in ast.walk(n)):
                    return True
        return False

    def _nt_fields(self, call):
        cn = call_name(call) or ''
        base = cn.split('.')[-1]
        if cn.startswith(('np.', 'scipy.', 'numpy.')):
            return None
        nt = self.sigs.get('__returns_nt__', {}).get(base)
        return self.sigs.get('__nt__', {}).get(nt) if nt else None

    def _arity(self, call):
        cn = call_name(call) or ''
        f = self._nt_fields(call)
        if f:
            return len(f)
        if cn in ARITY:
            if cn.endswith('connected_components') and any(k.arg == 'return_labels' for k in call.keywords):
                return None
            return ARITY[cn]
        if isinstance(call.func, ast.Attribute) and call.func.attr in ARITY_METHODS and not cn.startswith('np.'):
            return ARITY_METHODS[call.func.attr]
        ar = self.sigs.get('__arity__', {})
        base = cn.split('.')[-1]
        if base in ar and (cn == base or not cn.startswith(('np.', 'scipy.', 'numpy.'))):
            return ar[base]
        return None


def _ends_terminal(stmts):
    if not stmts:
        return False
    t = stmts[-1]
    if isinstance(t, (ast.Return, ast.Raise, ast.Continue, ast.Break)):
        return True
    if isinstance(t, ast.If) and t.orelse:
        return _ends_terminal(t.body) and _ends_terminal(t.orelse)
    return False


def _size(n):
    return sum(1 for _ in ast.walk(n))


def _depth_ok(s, limit=3):
    """Tail duplication is exponential in the nesting of if statements at block ends: bound it."""
    d = 0
    cur = s
    while isinstance(cur, ast.If) and d <= limit:
        d += 1
        nxt = None
        for arm in (cur.body, cur.orelse):
            if arm and isinstance(arm[-1], ast.If):
                nxt = arm[-1]
        cur = nxt
    return d <= limit


def call_name_of(e):
    return call_name(ast.Call(func=e, args=[], keywords=[])) if isinstance(e, (ast.Attribute, ast.Name)) else None


_NEG = {ast.Eq: ast.NotEq, ast.NotEq: ast.Eq, ast.Is: ast.IsNot, ast.IsNot: ast.Is, ast.In: ast.NotIn, ast.NotIn: ast.In}


def _negate(e):
    """The exact negation of e pushed one level inwards, or None: only ==/!=, is/is not, in/not in are
    exact complements (< and >= are not, for NaN); De Morgan keeps the short-circuit order."""
    if isinstance(e, ast.Compare) and len(e.ops) == 1 and type(e.ops[0]) in _NEG:
        return ast.Compare(left=e.left, ops=[_NEG[type(e.ops[0])]()], comparators=e.comparators)
    if isinstance(e, ast.BoolOp):
        return ast.BoolOp(op=ast.Or() if isinstance(e.op, ast.And) else ast.And(),
                          values=[ast.UnaryOp(op=ast.Not(), operand=v) for v in e.values])
    return None


def _positive(test):
    """For a test spelled with a negative operator (`not c`, !=, is not, not in): its positive complement."""
    if isinstance(test, ast.UnaryOp) and isinstance(test.op, ast.Not):
        return test.operand
    if isinstance(test, ast.Compare) and len(test.ops) == 1 and isinstance(test.ops[0], (ast.NotEq, ast.IsNot, ast.NotIn)):
        return ast.copy_location(ast.Compare(left=test.left, ops=[_NEG[type(test.ops[0])]()], comparators=test.comparators), test)
    if isinstance(test, ast.BoolOp):
        ps = [_positive(v) for v in test.values]
        if all(p is not None for p in ps):      # De Morgan: every operand is spelled negatively
            return ast.copy_location(ast.BoolOp(op=ast.Or() if isinstance(test.op, ast.And) else ast.And(), values=ps), test)
    return None


def _index_to_element(gen, body, outer):
    """`for i in range(len(X))` / np.arange(len(X)) where i occurs only as X[i] (loads) and X is a plain
    load not stored to in the body: iterate over X itself.  Rewrites gen.target/gen.iter and the body in
    place is left to the caller: returns the transformer to apply to the body (None when not applicable)."""
    it = gen.iter
    if not (isinstance(gen.target, ast.Name) and isinstance(it, ast.Call) and call_name(it) in ('range', 'np.arange')
            and len(it.args) == 1 and not it.keywords and isinstance(it.args[0], ast.Call) and call_name(it.args[0]) == 'len'
            and len(it.args[0].args) == 1 and _plain(it.args[0].args[0]) and not isinstance(it.args[0].args[0], ast.Constant)):
        return None
    i = gen.target.id
    X = it.args[0].args[0]
    xd = ast.dump(X)
    root_name = X
    while isinstance(root_name, ast.Attribute):
        root_name = root_name.value
    hits = []
    total = 0
    for b in body:
        for n in ast.walk(b):
            if isinstance(n, ast.Name) and n.id == i:
                total += 1
            if isinstance(n, ast.Subscript) and isinstance(n.ctx, ast.Load) and isinstance(n.slice, ast.Name) and n.slice.id == i \
                    and ast.dump(n.value) == xd:
                hits.append(n)
            # any store through X (or rebinding of its root) in the body blocks the rewrite
            if isinstance(n, (ast.Name, ast.Attribute, ast.Subscript)) and isinstance(getattr(n, 'ctx', None), (ast.Store, ast.Del)):
                r = n
                while isinstance(r, (ast.Attribute, ast.Subscript)):
                    r = r.value
                if isinstance(r, ast.Name) and r.id == root_name.id:
                    return None
            if isinstance(n, ast.Call) and isinstance(n.func, ast.Attribute):
                r = n.func.value
                while isinstance(r, (ast.Attribute, ast.Subscript)):
                    r = r.value
                if isinstance(r, ast.Name) and r.id == root_name.id and n.func.attr in (
                        'append', 'extend', 'insert', 'pop', 'remove', 'sort', 'reverse', 'clear', 'resize', 'fill'):
                    return None
    if not hits or total != len(hits):
        return None
    outer.k += 1
    e = '__e%d' % outer.k

    class R(ast.NodeTransformer):
        def visit_Subscript(self, node):
            if node in hits:
                return ast.copy_location(ast.Name(id=e, ctx=ast.Load()), node)
            self.generic_visit(node)
            return node
    gen.target = ast.copy_location(ast.Name(id=e, ctx=ast.Store()), gen.target)
    gen.iter = X
    return R()


def _call_free(e):
    """Names, constants, attributes, subscripts, comparisons and boolean connectives of such: evaluating it has no effect, and it
    raises only for operands of the wrong kind."""
    return all(isinstance(n, (ast.Name, ast.Constant, ast.Attribute, ast.Subscript, ast.Compare, ast.BoolOp, ast.UnaryOp, ast.Tuple,
                              ast.expr_context, ast.cmpop, ast.boolop, ast.unaryop, ast.Slice)) for n in ast.walk(e))


def _list_locals(fn, params):
    """Locals that are Python lists at every use: every binding is a list display, list comprehension, list(...) or sorted(...)."""
    ok, bad = set(), set(params)
    for n in ast.walk(fn):
        if isinstance(n, ast.Assign):
            for t in n.targets:
                if isinstance(t, ast.Name):
                    v = n.value
                    if isinstance(v, (ast.List, ast.ListComp)) or (isinstance(v, ast.Call) and isinstance(v.func, ast.Name)
                                                                     and v.func.id in ('list', 'sorted')):
                        ok.add(t.id)
                    else:
                        bad.add(t.id)
                else:
                    bad |= set(target_names(t))
        elif isinstance(n, (ast.For, ast.comprehension)):
            bad |= set(target_names(n.target))
        elif isinstance(n, (ast.AugAssign, ast.AnnAssign)) and isinstance(n.target, ast.Name):
            if not (isinstance(n, ast.AugAssign) and isinstance(n.op, ast.Add)):
                bad.add(n.target.id)
        elif isinstance(n, (ast.With,)):
            for it in n.items:
                if it.optional_vars is not None:
                    bad |= set(target_names(it.optional_vars))
        elif isinstance(n, (ast.Global, ast.Nonlocal)):
            bad |= set(n.names)
        elif isinstance(n, ast.NamedExpr):
            bad.add(n.target.id)
        elif isinstance(n, ast.ExceptHandler) and n.name:
            bad.add(n.name)
        elif isinstance(n, (ast.Import, ast.ImportFrom)):
            bad |= {(a.asname or a.name).split('.')[0] for a in n.names}
    return ok - bad


def _truthiness(test, lists):
    """In a boolean context: 0 < len(L) / len(L) != 0 -> L ;  len(L) == 0 -> not L   for a Python list L."""
    if isinstance(test, ast.BoolOp):
        test.values = [_truthiness(v, lists) for v in test.values]
        return test
    if isinstance(test, ast.UnaryOp) and isinstance(test.op, ast.Not):
        test.operand = _truthiness(test.operand, lists)
        return test
    if isinstance(test, ast.Compare) and len(test.ops) == 1:
        l, r, op = test.left, test.comparators[0], test.ops[0]

        def ln(x):
            return x.args[0] if isinstance(x, ast.Call) and isinstance(x.func, ast.Name) and x.func.id == 'len' and len(x.args) == 1 \
                and not x.keywords and isinstance(x.args[0], ast.Name) and x.args[0].id in lists else None

        def k(x, v):
            return isinstance(x, ast.Constant) and type(x.value) is int and x.value == v
        pos = (ln(r) if (isinstance(op, (ast.Lt, ast.NotEq)) and k(l, 0)) or (isinstance(op, ast.LtE) and k(l, 1)) else None) or \
              (ln(l) if (isinstance(op, (ast.Gt, ast.NotEq)) and k(r, 0)) or (isinstance(op, ast.GtE) and k(r, 1)) else None)
        if pos is not None:
            return ast.copy_location(ast.Name(id=pos.id, ctx=ast.Load()), test)
        neg = (ln(r) if (isinstance(op, ast.Eq) and k(l, 0)) or (isinstance(op, ast.Gt) and k(l, 1)) or (isinstance(op, ast.GtE) and k(l, 0))
               else None) or \
              (ln(l) if (isinstance(op, ast.Eq) and k(r, 0)) or (isinstance(op, ast.Lt) and k(r, 1)) or (isinstance(op, ast.LtE) and k(r, 0))
               else None)
        if neg is not None:
            return ast.copy_location(ast.UnaryOp(op=ast.Not(), operand=ast.Name(id=neg.id, ctx=ast.Load())), test)
    return test


def _boolop(op, a, b):
    """a <op> b with nested operands of the same operator flattened (and/or are associative, evaluation order kept)."""
    vals = []
    for x in (a, b):
        if isinstance(x, ast.BoolOp) and type(x.op) is type(op):
            vals.extend(x.values)
        else:
            vals.append(x)
    return ast.BoolOp(op=op, values=vals)


_INT_T = {'int', 'np.int8', 'np.int16', 'np.int32', 'np.int64', 'np.intp', 'np.int_', 'np.uint8', 'np.uint16', 'np.uint32', 'np.uint64',
          "'int'", "'int8'", "'int16'", "'int32'", "'int64'", "'uint8'", "'uint16'", "'uint32'", "'uint64'", "'i4'", "'i8'"}
_FLOAT_T = {'float', 'np.float32', 'np.float64', 'np.double', 'np.float_', "'float'", "'float32'", "'float64'", "'f4'", "'f8'", "'d'"}
_F64_T = {'float', 'np.float64', 'np.double', 'np.float_', "'float'", "'float64'", "'f8'", "'d'"}


def _num_const(e):
    """Value of a numeric literal expression (literals, unary minus, products, np.inf / np.nan), else None."""
    if isinstance(e, ast.Constant) and type(e.value) in (int, float):
        return e.value
    if isinstance(e, ast.UnaryOp) and isinstance(e.op, ast.USub):
        v = _num_const(e.operand)
        return None if v is None else -v
    if isinstance(e, ast.Attribute) and isinstance(e.value, ast.Name) and e.value.id in ('np', 'numpy', 'math'):
        if e.attr in ('inf', 'Inf', 'infty', 'PINF'):
            return float('inf')
        if e.attr in ('nan', 'NaN', 'NAN'):
            return float('nan')
    if isinstance(e, ast.BinOp) and isinstance(e.op, ast.Mult):
        a, b = _num_const(e.left), _num_const(e.right)
        if a is not None and b is not None:
            return a * b
    return None


def _const_node(v):
    if isinstance(v, float) and v != v:
        return ast.Attribute(value=ast.Name(id='np', ctx=ast.Load()), attr='nan', ctx=ast.Load())
    if isinstance(v, float) and v in (float('inf'), float('-inf')):
        inf = ast.Attribute(value=ast.Name(id='np', ctx=ast.Load()), attr='inf', ctx=ast.Load())
        return inf if v > 0 else ast.UnaryOp(op=ast.USub(), operand=inf)
    return ast.Constant(value=v)


def _ctor_parts(e, names):
    """(shape, dtype-or-None) of np.<names>(shape[, dtype]) written with any mix of positional / keyword arguments."""
    if not (isinstance(e, ast.Call) and call_name_of(e.func) in names):
        return None
    kws = {k.arg: k.value for k in e.keywords}
    if None in kws or len(e.args) > 2:
        return None
    for j, a in enumerate(e.args):
        if ('shape', 'dtype')[j] in kws:
            return None
        kws[('shape', 'dtype')[j]] = a
    if 'shape' not in kws or set(kws) - {'shape', 'dtype'}:
        return None
    return kws['shape'], kws.get('dtype')


def _mk_call(name, **kws):
    return ast.Call(func=ast.Attribute(value=ast.Name(id='np', ctx=ast.Load()), attr=name, ctx=ast.Load()), args=[],
                    keywords=[ast.keyword(arg=k, value=v) for k, v in sorted(kws.items()) if v is not None])


def _ctor_astype(node):
    """np.zeros(S).astype(T) -> np.zeros(S, dtype=T)   (also np.ones): the cast of a constant array is that constant array."""
    if isinstance(node.func, ast.Attribute) and node.func.attr == 'astype' and len(node.args) == 1 and not node.keywords:
        p = _ctor_parts(node.func.value, ('np.zeros', 'np.ones'))
        if p is not None and p[1] is None and ast.unparse(node.args[0]) in (_INT_T | _FLOAT_T | {'bool', 'np.bool_', "'bool'"}):
            return _mk_call(call_name_of(node.func.value.func).split('.')[1], shape=p[0], dtype=node.args[0])
    return None


def _scaled_constant_array(node):
    """np.ones(S[, dtype=T]) * c,  c * np.ones(...),  np.full(S, a[, dtype=T]) * c  ->  np.full(S, c' [, dtype=T])  when the
    result type of the product is the type np.full gives: T integer and c an integer, T floating, or no T (float64; then the
    fill value is written as a float and no dtype is kept)."""
    if not isinstance(node.op, ast.Mult):
        return None
    for arr, c in ((node.left, node.right), (node.right, node.left)):
        cv = _num_const(c)
        if cv is None:
            continue
        base = 1
        p = _ctor_parts(arr, ('np.ones',))
        if p is None and isinstance(arr, ast.Call) and call_name_of(arr.func) == 'np.full':
            kws = {k.arg: k.value for k in arr.keywords}
            if not arr.args and set(kws) <= {'shape', 'fill_value', 'dtype'} and 'shape' in kws and 'fill_value' in kws:
                base = _num_const(kws['fill_value'])
                if base is not None:
                    p = (kws['shape'], kws.get('dtype'))
        if p is None or base is None:
            continue
        shape, dt = p
        t = ast.unparse(dt) if dt is not None else None
        if t is None and not (isinstance(base, float) or base == 1):
            continue        # np.full(S, <int>) without dtype is an integer array
        v = base * cv
        if t is None or t in _F64_T:
            return _mk_call('full', shape=shape, fill_value=_const_node(float(v)))
        if t in _FLOAT_T:
            return _mk_call('full', shape=shape, fill_value=_const_node(float(v)), dtype=dt)
        if t in _INT_T and isinstance(cv, int) and isinstance(base, int):
            return _mk_call('full', shape=shape, fill_value=_const_node(v), dtype=dt)
    return None


_FRESH_ARRAY = ('np.array', 'np.arange', 'np.zeros', 'np.ones', 'np.empty', 'np.full', 'np.concatenate', 'np.hstack')


def _fresh_array(e):
    """A call that returns a base ndarray nobody else holds."""
    if not (isinstance(e, ast.Call) and call_name_of(e.func) in _FRESH_ARRAY):
        return False
    return not any(k.arg in ('copy', 'subok', 'out', 'like', None) for k in e.keywords)


def _minus_one(e):
    if isinstance(e, ast.UnaryOp) and isinstance(e.op, ast.USub) and isinstance(e.operand, ast.Constant) and e.operand.value == 1:
        return True
    return isinstance(e, ast.Constant) and e.value == -1 and type(e.value) is int


def _is_flat_view(e):
    """E.reshape(-1) / E.reshape((-1,)): 1-D whatever E is."""
    if isinstance(e, ast.Call) and isinstance(e.func, ast.Attribute) and e.func.attr == 'reshape' and not e.keywords and len(e.args) == 1:
        a = e.args[0]
        return _minus_one(a) or (isinstance(a, ast.Tuple) and len(a.elts) == 1 and _minus_one(a.elts[0]))
    return False


def _flat_of_fresh(node):
    """All the ways of flattening an array nobody else holds give the same private 1-D array (copy or view of a
    temporary): F.flatten(), F.ravel(), F.reshape((-1,)), F.reshape((-1, 1)).flatten() ... -> F.reshape(-1)."""
    if not (isinstance(node, ast.Call) and isinstance(node.func, ast.Attribute) and not node.keywords):
        return None
    a, v = node.func.attr, node.func.value

    def column(x):
        # F.reshape((-1, 1)) in the spelling of the normal form, or written out
        if isinstance(x, ast.Call) and isinstance(x.func, ast.Name) and x.func.id == '__spelled_reshape' and len(x.args) == 1 \
                and isinstance(x.args[0], ast.Subscript):
            return x.args[0].value
        if isinstance(x, ast.Call) and isinstance(x.func, ast.Attribute) and x.func.attr == 'reshape' and not x.keywords:
            sh = x.args[0].elts if len(x.args) == 1 and isinstance(x.args[0], ast.Tuple) else x.args
            if len(sh) == 2 and ((_minus_one(sh[0]) and isinstance(sh[1], ast.Constant) and sh[1].value == 1) or
                                 (_minus_one(sh[1]) and isinstance(sh[0], ast.Constant) and sh[0].value == 1)):
                return x.func.value
        return None
    base = None
    if a in ('flatten', 'ravel') and not node.args:
        base = column(v) if column(v) is not None else v
        if _is_flat_view(base):
            base = base.func.value
    elif _is_flat_view(node) and not _minus_one(node.args[0]):
        base = v
    if base is None or not _fresh_array(base):
        return None
    return ast.Call(func=ast.Attribute(value=base, attr='reshape', ctx=ast.Load()),
                    args=[ast.Constant(value=-1)], keywords=[])


def _is_mask(e):
    if isinstance(e, ast.Compare) and len(e.ops) == 1 and not isinstance(e.ops[0], (ast.In, ast.NotIn, ast.Is, ast.IsNot)):
        return True
    if isinstance(e, ast.BinOp) and isinstance(e.op, (ast.BitAnd, ast.BitOr)):
        return _is_mask(e.left) and _is_mask(e.right)
    if isinstance(e, ast.UnaryOp) and isinstance(e.op, ast.Invert):
        return _is_mask(e.operand)
    return False


def _atom_none(e):
    """`x is None` / `x is not None` for a plain load x -> (key, polarity)."""
    if isinstance(e, ast.Compare) and len(e.ops) == 1 and isinstance(e.ops[0], (ast.Is, ast.IsNot)) \
            and isinstance(e.comparators[0], ast.Constant) and e.comparators[0].value is None and _plain(e.left):
        return ast.dump(e.left), isinstance(e.ops[0], ast.Is), e.left
    return None


def _truth_table(node):
    """A boolean formula over `x is None` atoms (total, effect-free, so short-circuiting is
    unobservable) is replaced by a canonical call carrying its truth table."""
    atoms = {}

    def ev(e, env):
        a = _atom_none(e)
        if a is not None:
            v = env[a[0]]
            return v if a[1] else not v
        if isinstance(e, ast.BoolOp):
            vals = [ev(x, env) for x in e.values]
            return all(vals) if isinstance(e.op, ast.And) else any(vals)
        if isinstance(e, ast.UnaryOp) and isinstance(e.op, ast.Not):
            return not ev(e.operand, env)
        if isinstance(e, ast.Compare) and len(e.ops) == 1 and isinstance(e.ops[0], (ast.Eq, ast.NotEq)):
            x, y = ev(e.left, env), ev(e.comparators[0], env)
            return (x == y) if isinstance(e.ops[0], ast.Eq) else (x != y)
        raise ValueError

    def collect(e):
        a = _atom_none(e)
        if a is not None:
            atoms[a[0]] = a[2]
            return True
        if isinstance(e, ast.BoolOp):
            return all(collect(x) for x in e.values)
        if isinstance(e, ast.UnaryOp) and isinstance(e.op, ast.Not):
            return collect(e.operand)
        if isinstance(e, ast.Compare) and len(e.ops) == 1 and isinstance(e.ops[0], (ast.Eq, ast.NotEq)):
            return collect(e.left) and collect(e.comparators[0]) and _atom_none(e.left) is not None \
                and _atom_none(e.comparators[0]) is not None
        return False

    if not collect(node) or not (1 < len(atoms) <= 4):
        return None
    keys = sorted(atoms)
    table = []
    import itertools
    for vals in itertools.product([False, True], repeat=len(keys)):
        try:
            table.append('1' if ev(node, dict(zip(keys, vals))) else '0')
        except ValueError:
            return None
    return ast.copy_location(ast.Call(func=ast.Name(id='__none_table_' + ''.join(table), ctx=ast.Load()),
                                      args=[atoms[k] for k in keys], keywords=[]), node)


def xor_none(node):
    """(a is None) != (b is None) as a Compare -> truth table form (same as the and/or spelling)."""
    return _truth_table(node)


def return_arities(mods):
    """bare function name -> n, for module-level package functions whose every `return` is a tuple
    display of n elements (names defined differently in several modules are dropped)."""
    out, amb = {}, set()
    for mod in mods:
        for q, fn in mod.functions.items():
            if '.' in q:
                continue
            rets = []

            def walk(n):
                for c in ast.iter_child_nodes(n):
                    if isinstance(c, (ast.FunctionDef, ast.AsyncFunctionDef, ast.Lambda, ast.ClassDef)):
                        continue
                    if isinstance(c, ast.Return):
                        rets.append(c)
                    if isinstance(c, (ast.Yield, ast.YieldFrom)):
                        rets.append(None)
                    walk(c)
            walk(fn)
            n = None
            if rets and all(r is not None and isinstance(r.value, ast.Tuple) and not any(isinstance(e, ast.Starred) for e in r.value.elts) for r in rets):
                ls = {len(r.value.elts) for r in rets}
                if len(ls) == 1:
                    n = ls.pop()
            if q in out and out[q] != n:
                amb.add(q)
            out[q] = n
    return {q: n for q, n in out.items() if n is not None and q not in amb}


def namedtuple_info(mods):
    """({namedtuple class name: [fields]}, {module-level function name: namedtuple class name it always returns})
    read off the package sources."""
    nts = {}

    def fields_of(call):
        if isinstance(call, ast.Call) and (call_name(call) or '').split('.')[-1] == 'namedtuple' and len(call.args) >= 2:
            a = call.args[1]
            if isinstance(a, (ast.List, ast.Tuple)) and all(isinstance(e, ast.Constant) and isinstance(e.value, str) for e in a.elts):
                return [e.value for e in a.elts]
            if isinstance(a, ast.Constant) and isinstance(a.value, str):
                return a.value.replace(',', ' ').split()
        return None
    for mod in mods:
        for n in ast.walk(mod.tree):
            if isinstance(n, ast.ClassDef):
                for b in n.bases:
                    f = fields_of(b)
                    if f:
                        nts[n.name] = f
            elif isinstance(n, ast.Assign) and len(n.targets) == 1 and isinstance(n.targets[0], ast.Name):
                f = fields_of(n.value)
                if f:
                    nts[n.targets[0].id] = f
    rets = {}
    fns = {}
    amb = set()
    for mod in mods:
        for q, fn in mod.functions.items():
            if '.' in q:
                continue
            if q in fns:
                amb.add(q)
            fns[q] = fn
    for _ in range(3):
        for q, fn in fns.items():
            if q in amb or q in rets:
                continue
            rs = []

            def walk(n):
                for c in ast.iter_child_nodes(n):
                    if isinstance(c, (ast.FunctionDef, ast.AsyncFunctionDef, ast.Lambda, ast.ClassDef)):
                        continue
                    if isinstance(c, ast.Return):
                        rs.append(c.value)
                    if isinstance(c, (ast.Yield, ast.YieldFrom)):
                        rs.append(None)
                    walk(c)
            walk(fn)

            def kind(v):
                if isinstance(v, ast.IfExp):
                    a, b = kind(v.body), kind(v.orelse)
                    return a if a == b else None
                if isinstance(v, ast.Call):
                    base = (call_name(v) or '').split('.')[-1]
                    if base in nts:
                        return base
                    if base in rets and not (call_name(v) or '').startswith(('np.', 'scipy.')):
                        return rets[base]
                return None
            ks = {kind(v) for v in rs} if rs else {None}
            if len(ks) == 1 and None not in ks:
                rets[q] = ks.pop()
    return nts, rets

"""Shared matchers: comparison normaliser (A6), store/assign finders,
effects-rule helper (A4), initialisation rules (A5), API lints (A12)."""
import ast

from .cfg import FuncInfo, ENTRY, EXIT, Assume, header_exprs
from .core import (AnalysisIncomplete, call_name, const_value, dotted,
                   is_call_to, kwarg, names_loaded, norm_text, params,
                   target_names, u, walk_expr, walk_local)

_shared = {}


def shared(repo):
    """Resolver + effects analysis, built once per Repo."""
    key = id(repo)
    if key not in _shared:
        from .resolve import Resolver
        from .effects import EffectsAnalysis
        res = Resolver(repo)
        _shared[key] = (res, EffectsAnalysis(repo, res))
    return _shared[key]


_finfo = {}


def finfo(mod, fn):
    key = (id(mod), id(fn))
    if key not in _finfo:
        _finfo[key] = FuncInfo(mod, fn)
    return _finfo[key]


# ---------------------------------------------------------------------------
# A6 comparison normaliser

_FLIP = {ast.Lt: ast.Gt, ast.Gt: ast.Lt, ast.LtE: ast.GtE, ast.GtE: ast.LtE,
         ast.Eq: ast.Eq, ast.NotEq: ast.NotEq}
_NEG = {ast.Lt: ast.GtE, ast.Gt: ast.LtE, ast.LtE: ast.Gt, ast.GtE: ast.Lt,
        ast.Eq: ast.NotEq, ast.NotEq: ast.Eq, ast.Is: ast.IsNot,
        ast.IsNot: ast.Is, ast.In: ast.NotIn, ast.NotIn: ast.In}
_SYM = {ast.Lt: '<', ast.Gt: '>', ast.LtE: '<=', ast.GtE: '>=',
        ast.Eq: '==', ast.NotEq: '!=', ast.Is: 'is', ast.IsNot: 'is not',
        ast.In: 'in', ast.NotIn: 'not in'}


class Cmp:
    """lhs REL rhs with REL in {'<','<=','>','>=','==','!=', ...}."""

    def __init__(self, lhs, op, rhs):
        self.lhs, self.op, self.rhs = lhs, op, rhs

    @property
    def rel(self):
        return _SYM[self.op]

    def flipped(self):
        return Cmp(self.rhs, _FLIP.get(self.op, self.op), self.lhs)

    def negated(self):
        return Cmp(self.lhs, _NEG[self.op], self.rhs)

    def as_less(self):
        """Return (small, strict, big) if this is an ordering test."""
        if self.op in (ast.Lt, ast.LtE):
            return self.lhs, self.op is ast.Lt, self.rhs
        if self.op in (ast.Gt, ast.GtE):
            return self.rhs, self.op is ast.Gt, self.lhs
        return None

    def __repr__(self):
        return '%s %s %s' % (u(self.lhs), self.rel, u(self.rhs))


def strip_parens(e):
    return e


def conjuncts(test, polarity=True):
    """Normalise a boolean test into a list of atomic Cmp / expr conjuncts
    (polarity pushed inwards by De Morgan).  Returns None if the test is not
    a pure conjunction under that polarity (i.e. it is a disjunction)."""
    if isinstance(test, ast.UnaryOp) and isinstance(test.op, ast.Not):
        return conjuncts(test.operand, not polarity)
    if isinstance(test, ast.BoolOp):
        is_and = isinstance(test.op, ast.And)
        if is_and == polarity:
            out = []
            for v in test.values:
                c = conjuncts(v, polarity)
                if c is None:
                    return None
                out += c
            return out
        return None
    if isinstance(test, ast.Compare):
        if len(test.ops) == 1:
            c = Cmp(test.left, type(test.ops[0]), test.comparators[0])
            return [c if polarity else c.negated()]
        # chained a < b < c
        if polarity:
            out = []
            left = test.left
            for op, right in zip(test.ops, test.comparators):
                out.append(Cmp(left, type(op), right))
                left = right
            return out
        return None
    return [('expr', test, polarity)]


def mask_atoms(expr):
    """Decompose an elementwise boolean mask built with & | ~ into a boolean
    formula tree over atomic comparisons: ('and', a, b) / ('or', a, b) /
    ('not', a) / ('atom', Cmp)."""
    if isinstance(expr, ast.BinOp) and isinstance(expr.op, ast.BitAnd):
        return ('and', mask_atoms(expr.left), mask_atoms(expr.right))
    if isinstance(expr, ast.BinOp) and isinstance(expr.op, ast.BitOr):
        return ('or', mask_atoms(expr.left), mask_atoms(expr.right))
    if isinstance(expr, ast.UnaryOp) and isinstance(expr.op, (ast.Invert, ast.Not)):
        return ('not', mask_atoms(expr.operand))
    if isinstance(expr, ast.Call) and call_name(expr) in (
            'np.logical_and', 'np.logical_or') and len(expr.args) == 2:
        return ('and' if call_name(expr).endswith('and') else 'or',
                mask_atoms(expr.args[0]), mask_atoms(expr.args[1]))
    if isinstance(expr, ast.Call) and call_name(expr) == 'np.logical_not' \
            and len(expr.args) == 1:
        return ('not', mask_atoms(expr.args[0]))
    if isinstance(expr, ast.Compare) and len(expr.ops) == 1:
        return ('atom', Cmp(expr.left, type(expr.ops[0]), expr.comparators[0]))
    return ('opaque', expr)


def canon_atom(c):
    """Canonical (key, polarity) of an atomic comparison: comparisons that
    are complements of each other share the key with opposite polarity."""
    a, b = u(c.lhs), u(c.rhs)
    op = c.op
    if a > b:
        a, b = b, a
        op = _FLIP.get(op, op)
    # canonical relations: '<' (pos) vs '>=' (neg); '<=' (pos) vs '>' (neg);
    # '==' (pos) vs '!=' (neg)
    if op is ast.Lt:
        return (a, '<', b), True
    if op is ast.GtE:
        return (a, '<', b), False
    if op is ast.LtE:
        return (a, '<=', b), True
    if op is ast.Gt:
        return (a, '<=', b), False
    if op is ast.Eq:
        return (a, '==', b), True
    if op is ast.NotEq:
        return (a, '==', b), False
    return (a, _SYM.get(op, '?'), b), True


def eval_mask(tree, assignment):
    k = tree[0]
    if k == 'and':
        return eval_mask(tree[1], assignment) and eval_mask(tree[2], assignment)
    if k == 'or':
        return eval_mask(tree[1], assignment) or eval_mask(tree[2], assignment)
    if k == 'not':
        return not eval_mask(tree[1], assignment)
    if k == 'atom':
        key, pol = canon_atom(tree[1])
        v = assignment[key]
        return v if pol else not v
    raise AnalysisIncomplete('opaque mask component %s' % u(tree[1]))


def mask_keys(tree, out=None):
    out = out if out is not None else []
    k = tree[0]
    if k in ('and', 'or'):
        mask_keys(tree[1], out)
        mask_keys(tree[2], out)
    elif k == 'not':
        mask_keys(tree[1], out)
    elif k == 'atom':
        key, _ = canon_atom(tree[1])
        if key not in out:
            out.append(key)
    else:
        raise AnalysisIncomplete('opaque mask component %s' % u(tree[1]))
    return out


# ---------------------------------------------------------------------------
# finders

def assigns_to(fn, name):
    """Assign / AnnAssign / AugAssign statements that (re)bind Name `name`."""
    out = []
    for n in walk_local(fn):
        if isinstance(n, ast.Assign):
            for t in n.targets:
                if name in target_names(t):
                    out.append(n)
                    break
        elif isinstance(n, (ast.AnnAssign, ast.AugAssign)):
            if name in target_names(n.target):
                out.append(n)
    return out


def subscript_stores(fn, base=None):
    """(stmt, Subscript target) for every `x[...] = v` / `x[...] op= v`."""
    out = []
    for n in walk_local(fn):
        targets = []
        if isinstance(n, ast.Assign):
            targets = n.targets
        elif isinstance(n, (ast.AugAssign, ast.AnnAssign)):
            targets = [n.target]
        for t in targets:
            for tt in (t.elts if isinstance(t, (ast.Tuple, ast.List)) else [t]):
                if isinstance(tt, ast.Subscript):
                    if base is None or u(tt.value) == base:
                        out.append((n, tt))
    return out


def calls_in(fn_or_node, *names):
    out = []
    it = walk_local(fn_or_node) if isinstance(
        fn_or_node, (ast.FunctionDef, ast.AsyncFunctionDef)) else walk_expr(fn_or_node)
    for n in it:
        if isinstance(n, ast.Call) and (not names or is_call_to(n, *names)):
            out.append(n)
    return out


def returns_of(fn):
    return [n for n in walk_local(fn) if isinstance(n, ast.Return)]


def value_of_name(fi, name_node):
    """Resolved defining expression of a Name use (single def) or itself."""
    return fi.resolve(name_node)


# ---------------------------------------------------------------------------
# A4 rule helper

DOCUMENTED_INPLACE = {
    # (rel, qual): {param: reason}
    ('enspara/ra/ra.py', 'RaggedArray.__setitem__'): {'self': 'item assignment is the documented in-place API'},
    ('enspara/ra/ra.py', 'RaggedArray.append'): {'self': 'append is the documented in-place API'},
    ('enspara/ra/ra.py', 'RaggedArray.__init__'): {'self': 'constructor initialises self'},
    ('enspara/geometry/libdist.pyx', 'euclidean'): {'out': 'out= buffer is documented to receive the result'},
    ('enspara/geometry/libdist.pyx', 'manhattan'): {'out': 'out= buffer is documented to receive the result'},
    ('enspara/geometry/libdist.pyx', 'hamming'): {'out': 'out= buffer is documented to receive the result'},
    ('enspara/geometry/libdist.pyx', '_euclidean'): {'out': 'kernel output buffer'},
    ('enspara/geometry/libdist.pyx', '_manhattan'): {'out': 'kernel output buffer'},
    ('enspara/geometry/libdist.pyx', '_hamming'): {'out': 'kernel output buffer'},
    ('enspara/util/load.py', '_init'): {'shared_array_': 'worker initialiser hand-over'},
}

# single-symbol suppressions, each with its reason
SUPPRESS = {
    # (rel, qual, param, normalised construct of the primitive store): reason
    ('enspara/ra/ra.py', 'partition_indices', 'indices', 'index -= traj_len'):
        'elements of a flat list of integer indices are immutable ints: '
        '`index -= traj_len` rebinds the loop variable',
    ('enspara/ra/ra.py', '_get_iis_from_slices', 'lengths',
     'stops[iis_to_flat] = lengths[iis_to_flat]'):
        '`stops` aliases `lengths` only when stop is None; the store '
        '`stops[m] = lengths[m]` has m = where(stops > lengths), which is '
        'empty on exactly that path, and it stores lengths\' own values',
}


def self_only_attribute_rebind(rec):
    return rec['kind'] == 'attribute-store' and rec['target'] == 'self'


def check_no_arg_mutation(ck, rule, entries, exempt_self_methods=True,
                          extra_exempt=None):
    """entries: [(rel, qual)].  Every parameter the effects summary says the
    function may mutate is a violation unless documented in-place."""
    res, ea = shared(ck.repo)
    extra_exempt = extra_exempt or {}
    n = 0
    for rel, qual in entries:
        mod = ck.repo.mod(rel)
        fn = mod.func(qual)
        ck.analysed(mod, fn)
        muts = ea.mutated_params(rel, qual)
        allowed = dict(DOCUMENTED_INPLACE.get((rel, qual), {}))
        allowed.update(extra_exempt.get((rel, qual), {}))
        ps = params(fn)
        for p in ps:
            n += 1
            if p not in muts:
                ck.ok(rule, mod, fn, '%s(%s)' % (qual, p),
                      'no store may alias parameter %s' % p)
                continue
            why = muts[p]
            if p in allowed:
                ck.ok(rule, mod, fn, '%s(%s)' % (qual, p),
                      'documented in place: %s' % allowed[p])
                continue
            if p in ('self', 'cls') and exempt_self_methods:
                ck.ok(rule, mod, fn, '%s(%s)' % (qual, p),
                      'method updates its own object (estimator/container state)')
                continue
            # follow callee chain to the root store for the suppression key
            root = _root_store(ea, rel, qual, p)
            if root and (root[0], root[1], root[2], norm_text(root[3])) in SUPPRESS:
                ck.ok(rule, mod, fn, '%s(%s)' % (qual, p),
                      'suppressed: ' + SUPPRESS[(root[0], root[1], root[2], norm_text(root[3]))])
                continue
            witness = '%s:%s %s' % (rel, why['line'], why['construct'])
            if why.get('via'):
                witness += '  via  ' + why['via']
            ck.bad(rule, mod, why['node'], qual,
                   'parameter %s <- %s' % (p, root[3] if root else why['construct']),
                   'a store reaches storage of caller-owned argument `%s` '
                   '(%s); the function is not documented to work in place'
                   % (p, why['kind']), witness)
    return n


def _root_store(ea, rel, qual, p, depth=8):
    """Follow 'callee-mutates' records down to the primitive store:
    returns (rel, qual, param, construct)."""
    res = ea.res
    seen = set()
    while depth > 0:
        depth -= 1
        muts = ea.mutated_params(rel, qual)
        why = muts.get(p)
        if why is None:
            return None
        if why['kind'] != 'callee-mutates':
            return (rel, qual, p, why['construct'])
        via = why.get('via') or ''
        # via = '<rel>::<qual> mutates <p> at ...'
        try:
            head, rest = via.split(' mutates ', 1)
            rel2, qual2 = head.split('::', 1)
            p2 = rest.split(' at ', 1)[0]
        except ValueError:
            return (rel, qual, p, why['construct'])
        if (rel2, qual2, p2) in seen:
            return (rel2, qual2, p2, why['construct'])
        seen.add((rel2, qual2, p2))
        rel, qual, p = rel2, qual2, p2
    return None


# ---------------------------------------------------------------------------
# A5 initialisation rules

INIT_ALLOCS = {'np.zeros', 'np.ones', 'np.full', 'np.zeros_like',
               'np.ones_like', 'np.full_like', 'np.eye', 'np.identity',
               'np.array', 'np.arange', 'np.copy'}
UNINIT_ALLOCS = {'np.empty', 'np.empty_like', 'np.ndarray'}


def expr_is_initialised_buffer(fi, e):
    """Is expression e (the out= operand) definitely an initialised array?"""
    e0 = e
    if isinstance(e, ast.Name):
        defs = fi.defs_of_use(e)
        if not defs:
            return False, 'no reaching definition'
        for site in defs:
            if site == 'PARAM':
                continue      # caller-supplied buffer: caller's contract
            if site == 'UNBOUND':
                return False, 'possibly unbound'
            v = fi.def_value(site, e.id)
            if v is None:
                # augmented assignment etc. keep the buffer
                if isinstance(site, ast.AugAssign):
                    continue
                return False, 'definition at L%s is not a simple allocation' % getattr(site, 'lineno', '?')
            ok, why = expr_is_initialised_buffer(fi, v)
            if not ok:
                return False, why
        return True, 'all reaching definitions are initialised allocations'
    if isinstance(e, ast.Call):
        cn = call_name(e) or ''
        if cn in UNINIT_ALLOCS:
            return False, '%s leaves its cells uninitialised' % cn
        if cn in INIT_ALLOCS:
            return True, cn
        if isinstance(e.func, ast.Attribute) and e.func.attr in (
                'copy', 'astype', 'sum', 'flatten', 'toarray'):
            return True, '.%s()' % e.func.attr
        if cn.startswith('np.') and not cn.startswith('np.empty'):
            # a where= ufunc without out= returns uninitialised cells
            if kwarg(e, 'where') is not None and kwarg(e, 'out') is None:
                return False, 'result of a masked ufunc without out='
            return True, cn
        return True, 'result of call %s' % cn
    if isinstance(e, (ast.BinOp, ast.UnaryOp, ast.Compare)):
        return True, 'arithmetic result'
    if isinstance(e, ast.Subscript):
        return expr_is_initialised_buffer(fi, e.value)
    if isinstance(e, ast.Attribute):
        return True, 'attribute'
    return False, 'unrecognised out= operand %s' % u(e0)


def check_masked_ufuncs(ck, rule, mod, fns=None):
    """A5-i: every numpy call with where= must pass an initialised out=."""
    count = 0
    functions = fns if fns is not None else list(mod.functions.items())
    for q, fn in functions:
        for c in calls_in(fn):
            if kwarg(c, 'where') is None:
                continue
            cn = call_name(c) or ''
            if not (cn.startswith('np.') or cn.startswith('numpy.')):
                continue
            if cn in ('np.where', 'np.sum', 'np.mean', 'np.any', 'np.all',
                      'np.max', 'np.min', 'np.prod', 'np.std', 'np.var',
                      'np.amax', 'np.amin', 'np.nansum'):
                # reductions: where= selects operands, result is fully defined
                # only with initial=; not used in the package today
                if cn != 'np.where':
                    ck.observe(rule, mod, c, 'masked reduction %s' % u(c)[:80])
                continue
            count += 1
            ck.analysed(mod, fn)
            fi = finfo(mod, fn)
            out = kwarg(c, 'out')
            if out is None:
                ck.bad(rule, mod, c, q, u(c),
                       'masked ufunc (where=...) without out=: the cells where '
                       'the mask is false are never written, so the result '
                       'contains uninitialised heap memory')
                continue
            ok, why = expr_is_initialised_buffer(fi, out)
            ck.check(ok, rule, mod, c, q, u(c),
                     'out= operand is initialised (%s)' % why,
                     'masked ufunc writes into a buffer that is not '
                     'initialised on every path: %s' % why)
    return count


def check_empty_allocs(ck, rule, mod, fns=None):
    """A5-ii: np.empty* buffers are fully written before being read."""
    count = 0
    functions = fns if fns is not None else list(mod.functions.items())
    for q, fn in functions:
        for n in walk_local(fn):
            if not (isinstance(n, ast.Assign) and isinstance(n.value, ast.Call)
                    and (call_name(n.value) or '') in UNINIT_ALLOCS):
                continue
            count += 1
            ck.analysed(mod, fn)
            if not (len(n.targets) == 1 and isinstance(n.targets[0], ast.Name)):
                ck.bad(rule, mod, n, q, u(n),
                       'uninitialised allocation bound to a non-name target')
                continue
            name = n.targets[0].id
            ok, why = _empty_fully_written(mod, fn, n, name)
            ck.check(ok, rule, mod, n, q, u(n), why, why)
    return count


def _empty_fully_written(mod, fn, alloc, name):
    fi = finfo(mod, fn)
    cfg = fi.cfg
    # candidate full writes
    full_writes = []
    partial_loop_fill = None
    for s in cfg.nodes:
        if s in (ENTRY, EXIT) or isinstance(s, Assume):
            continue
        if isinstance(s, ast.Expr) and isinstance(s.value, ast.Call):
            c = s.value
            if isinstance(c.func, ast.Attribute) and isinstance(
                    c.func.value, ast.Name) and c.func.value.id == name \
                    and c.func.attr == 'fill':
                full_writes.append(s)
            cn = call_name(c) or ''
            if cn.endswith('.Bcast') and c.args and isinstance(
                    c.args[0], ast.Name) and c.args[0].id == name:
                full_writes.append(s)
            o = kwarg(c, 'out')
            if isinstance(o, ast.Name) and o.id == name and kwarg(c, 'where') is None:
                full_writes.append(s)
        if isinstance(s, ast.Assign):
            for t in s.targets:
                if isinstance(t, ast.Subscript) and isinstance(
                        t.value, ast.Name) and t.value.id == name:
                    sl = t.slice
                    if (isinstance(sl, ast.Slice) and sl.lower is None
                            and sl.upper is None and sl.step is None) or (
                            isinstance(sl, ast.Constant) and sl.value is Ellipsis):
                        full_writes.append(s)
    # reads of the buffer
    reads = []
    for s in cfg.nodes:
        if s in (ENTRY, EXIT) or isinstance(s, Assume) or s is alloc:
            continue
        for e in header_exprs(s):
            for x in walk_expr(e):
                if isinstance(x, ast.Name) and x.id == name and isinstance(
                        x.ctx, ast.Load):
                    if alloc not in fi.rd.defs_at(s, name):
                        continue
                    par = mod.parent.get(x)
                    # pure store target  name[...] = v   is not a read
                    if isinstance(par, ast.Subscript) and isinstance(
                            par.ctx, ast.Store) and par.value is x:
                        continue
                    # name.fill(...) / name.shape / len(name) are not reads of cells
                    if isinstance(par, ast.Attribute) and par.attr in (
                            'fill', 'shape', 'dtype', 'size', 'ndim'):
                        continue
                    if isinstance(par, ast.Call) and call_name(par) == 'len':
                        continue
                    if s in full_writes:
                        continue
                    reads.append((s, x))
    if not reads:
        return True, 'buffer is never read in this function'
    # a multi-branch allocation/ownership idiom: conditional buffers joined
    # then Bcast (distribute_frame): handled since Bcast is a full write of
    # whatever reaches it.
    for s, x in reads:
        dominated = any(cfg.dominates(w, s) and w is not s for w in full_writes)
        if dominated:
            continue
        # checked running-offset fill idiom
        if _running_offset_fill(mod, fn, fi, alloc, name, s):
            continue
        return False, ('read of `%s` at L%s is not dominated by a full write '
                       '(fill / x[:] = / unmasked out= / Bcast receive) and '
                       'does not match the checked running-offset fill idiom'
                       % (name, getattr(s, 'lineno', '?')))
    return True, 'every read is dominated by a full write or a checked fill loop'


def _running_offset_fill(mod, fn, fi, alloc, name, read_stmt):
    """x[start:end] = v in a loop with end = start + len(v'); start = end;
    followed by `assert end == len(x)` that dominates the read."""
    cfg = fi.cfg
    has_slice_store = False
    for st, t in subscript_stores(fn, name):
        sl = t.slice
        if isinstance(sl, ast.Slice) and isinstance(sl.lower, ast.Name) and \
                isinstance(sl.upper, ast.Name) and sl.step is None:
            loop = mod.parent.get(st)
            while loop is not None and not isinstance(loop, (ast.For, ast.While)):
                loop = mod.parent.get(loop)
            if loop is None:
                continue
            lo, hi = sl.lower.id, sl.upper.id
            adv = any(isinstance(a, ast.Assign) and isinstance(a.value, ast.Name)
                      and a.value.id == hi and lo in target_names(a.targets[0])
                      for a in walk_local(loop) if isinstance(a, ast.Assign))
            if adv:
                has_slice_store = (lo, hi)
    if not has_slice_store:
        return False
    lo, hi = has_slice_store
    for s in cfg.nodes:
        if isinstance(s, ast.Assert) and isinstance(s.test, ast.Compare) and \
                len(s.test.ops) == 1 and isinstance(s.test.ops[0], ast.Eq):
            txt = {u(s.test.left), u(s.test.comparators[0])}
            if ('len(%s)' % name in txt or '%s.shape[0]' % name in txt) and (
                    hi in txt or lo in txt):
                if cfg.dominates(s, read_stmt):
                    return True
    return False


# ---------------------------------------------------------------------------
# A12 lints

def warning_category_names(repo):
    names = {'Warning', 'UserWarning', 'DeprecationWarning', 'RuntimeWarning',
             'FutureWarning', 'PendingDeprecationWarning', 'SyntaxWarning',
             'ImportWarning', 'UnicodeWarning', 'BytesWarning',
             'ResourceWarning'}
    exc = repo.modules.get('enspara/exception.py')
    if exc:
        changed = True
        while changed:
            changed = False
            for cname, c in exc.classes.items():
                if cname in names:
                    continue
                for b in c.bases:
                    if (dotted(b) or '').split('.')[-1] in names:
                        names.add(cname)
                        changed = True
    return names


def check_warn_calls(ck, rule, mod, fns=None):
    """warnings.warn(<Warning class>, "msg", ...) has its arguments swapped."""
    cats = warning_category_names(ck.repo)
    count = 0
    functions = fns if fns is not None else list(mod.functions.items())
    for q, fn in functions:
        for c in calls_in(fn, 'warnings.warn', 'warn'):
            count += 1
            ck.analysed(mod, fn)
            first = c.args[0] if c.args else kwarg(c, 'message')
            d = (dotted(first) or '') if first is not None else ''
            swapped = d.split('.')[-1] in cats and d != ''
            ck.check(not swapped, rule, mod, c, q, u(c)[:160],
                     'message is the first argument',
                     'warnings.warn(<category>, <message>): the first argument '
                     'is a Warning class, so the call raises TypeError '
                     '("category must be a Warning subclass") instead of warning')
    return count

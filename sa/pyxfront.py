"""Cython front end: parse a .pyx with Cython's own parser (pipeline cut after
ParallelRangeTransform: no type analysis, no C generation) and adapt the tree
to Python ``ast`` nodes so that the same rule machinery reads .py and .pyx.

Extra attributes on adapted nodes
---------------------------------
FunctionDef.cy_directives : dict   (boundscheck / wraparound ... in force)
FunctionDef.cy_argtypes   : {arg name: CyType}
FunctionDef.cy_locals     : {local name: CyType}   (cdef declarations)
For.cy_prange             : bool   (loop is a cython.parallel.prange)
For.cy_prange_kw          : dict   (nogil=..., schedule=...)
Module.cy_fused           : {typedef name: [CyType, ...]}
Module.cy_externs         : [(name, signature text)]
An unsupported node type raises AnalysisIncomplete (never a guess).
"""
import ast
import os

from .core import AnalysisIncomplete


class CyType:
    """A declared C/buffer type: base name, buffer element type and ndim."""

    def __init__(self, base, elem=None, ndim=None, signed=None, text=None):
        self.base = base
        self.elem = elem
        self.ndim = ndim
        self.signed = signed
        self.text = text or base

    pointer = False

    @property
    def is_buffer(self):
        return self.ndim is not None

    def __repr__(self):
        return 'CyType(%s)' % self.text


def _cy_parse(path, rel):
    from Cython.Compiler import Main, Pipeline, Errors
    from Cython.Compiler.Main import (Context, CompilationOptions,
                                      default_options, CompilationSource,
                                      FileSourceDescriptor)
    opts = CompilationOptions(default_options, language_level=3)
    ctx = Context.from_options(opts)
    abs_path = os.path.abspath(path)
    modname = rel[:-4].replace('/', '.')
    source_desc = FileSourceDescriptor(abs_path, rel)
    source = CompilationSource(source_desc, modname, os.getcwd())
    result = Main.create_default_resultobj(source, opts)
    pipeline = Pipeline.create_pyx_pipeline(ctx, opts, result)
    ks = [i for i, p in enumerate(pipeline)
          if type(p).__name__ == 'ParallelRangeTransform']
    if not ks:
        raise AnalysisIncomplete('Cython pipeline has no ParallelRangeTransform')
    Errors.init_thread()
    err, tree = Pipeline.run_pipeline(pipeline[:ks[0] + 1], source)
    if err is not None or tree is None:
        raise AnalysisIncomplete('Cython failed to parse %s: %r' % (rel, err))
    return tree


class _Adapter:
    def __init__(self, rel):
        self.rel = rel
        self.fused = {}
        self.externs = []
        self.directives = [{}]

    # -- helpers ---------------------------------------------------------
    def _pos(self, cy, node):
        pos = getattr(cy, 'pos', None)
        line = pos[1] if pos else 0
        col = pos[2] if pos else 0
        node.lineno = line
        node.col_offset = col
        node.end_lineno = line
        node.end_col_offset = col
        return node

    def _unsupported(self, cy):
        pos = getattr(cy, 'pos', None)
        raise AnalysisIncomplete(
            'unsupported Cython construct %s at %s:%s' % (
                type(cy).__name__, self.rel, pos[1] if pos else '?'))

    def cytype(self, base_type, declarator=None):
        tn = type(base_type).__name__
        if tn == 'CSimpleBaseTypeNode':
            name = base_type.name
            if base_type.module_path:
                name = '.'.join(list(base_type.module_path) + [name])
            if name in self.fused:
                return CyType(name, text=name)
            signed = None
            ln = getattr(base_type, 'longness', 0)
            if name == 'int' and ln:
                name = {1: 'long', 2: 'long long', -1: 'short'}.get(ln, name)
            if getattr(base_type, 'signed', 1) == 0:
                signed = False
                name = 'unsigned ' + name
            return CyType(name, signed=signed, text=name)
        if tn == 'TemplatedTypeNode':
            base = self.cytype(base_type.base_type_node)
            elem = None
            ndim = None
            for a in base_type.positional_args:
                elem = self._type_expr_text(a)
            kw = base_type.keyword_args
            if kw is not None:
                for item in kw.key_value_pairs:
                    k = item.key.value
                    if k == 'ndim':
                        ndim = int(item.value.value)
                    elif k == 'dtype':
                        elem = self._type_expr_text(item.value)
            return CyType(base.base, elem=elem, ndim=ndim,
                          text='%s[%s, ndim=%s]' % (base.base, elem, ndim))
        if tn == 'FusedTypeNode':
            return CyType('fused', text='fused')
        self._unsupported(base_type)

    def _type_expr_text(self, e):
        tn = type(e).__name__
        if tn == 'NameNode':
            return e.name
        if tn == 'AttributeNode':
            return self._type_expr_text(e.obj) + '.' + e.attribute
        if tn == 'CSimpleBaseTypeNode':
            return self.cytype(e).text
        return type(e).__name__

    # -- module / statements --------------------------------------------
    def module(self, cy):
        body = self.stmts(cy.body)
        m = ast.Module(body=body, type_ignores=[])
        m.cy_fused = self.fused
        m.cy_externs = self.externs
        return m

    def stmts(self, cy):
        if cy is None:
            return []
        tn = type(cy).__name__
        if tn == 'StatListNode':
            out = []
            for s in cy.stats:
                out += self.stmts(s)
            return out
        if tn == 'CompilerDirectivesNode':
            merged = dict(self.directives[-1])
            merged.update(dict(cy.directives))
            self.directives.append(merged)
            try:
                return self.stmts(cy.body)
            finally:
                self.directives.pop()
        r = self.stmt(cy)
        if r is None:
            return []
        if isinstance(r, list):
            return r
        return [r]

    def block(self, cy):
        out = self.stmts(cy)
        return out if out else [ast.Pass()]

    def stmt(self, cy):
        tn = type(cy).__name__
        m = getattr(self, 's_' + tn, None)
        if m is None:
            self._unsupported(cy)
        r = m(cy)
        if isinstance(r, ast.AST):
            self._pos(cy, r)
        return r

    def s_CImportStatNode(self, cy):
        n = ast.Import(names=[ast.alias(name=cy.module_name,
                                        asname=cy.as_name)])
        n.cy_cimport = True
        return n

    def s_FromCImportStatNode(self, cy):
        n = ast.ImportFrom(module=cy.module_name, names=[
            ast.alias(name=t[1], asname=t[2] if len(t) > 2 else None)
            for t in cy.imported_names], level=0)
        n.cy_cimport = True
        return n

    def s_CDefExternNode(self, cy):
        for s in getattr(cy.body, 'stats', [cy.body]):
            if type(s).__name__ == 'CVarDefNode':
                for d in s.declarators:
                    nm = self._declname(d)
                    self.externs.append((nm, self.cytype(s.base_type).text))
        return None

    def s_CTypeDefNode(self, cy):
        name = self._declname(cy.declarator)
        bt = cy.base_type
        if type(bt).__name__ == 'FusedTypeNode':
            self.fused[name] = [self.cytype(t) for t in bt.types]
        else:
            self.fused[name] = [self.cytype(bt)]
        return None

    def s_FusedTypeNode(self, cy):
        self.fused[cy.name] = [self.cytype(t) for t in cy.types]
        return None

    def _declname(self, d):
        while type(d).__name__ != 'CNameDeclaratorNode':
            d = d.base
        return d.name

    def s_SingleAssignmentNode(self, cy):
        rhs = cy.rhs
        if type(rhs).__name__ == 'ImportNode':
            # "import numpy as np" arrives as  np = ImportNode('numpy')
            modname = rhs.module_name.value
            asname = cy.lhs.name
            return ast.Import(names=[ast.alias(
                name=modname,
                asname=asname if rhs.is_import_as_name else None)])
        return ast.Assign(targets=[self.expr(cy.lhs, store=True)],
                          value=self.expr(rhs), lineno=cy.pos[1])

    def s_CascadedAssignmentNode(self, cy):
        return ast.Assign(targets=[self.expr(l, store=True)
                                   for l in cy.lhs_list],
                          value=self.expr(cy.rhs), lineno=cy.pos[1])

    def s_FromImportStatNode(self, cy):
        mod = cy.module
        names = [ast.alias(name=n, asname=(t.name if t.name != n else None))
                 for n, t in cy.items]
        level = mod.level or 0
        return ast.ImportFrom(module=mod.module_name.value, names=names,
                              level=max(level, 0))

    def s_InPlaceAssignmentNode(self, cy):
        return ast.AugAssign(target=self.expr(cy.lhs, store=True),
                             op=self._binop(cy.operator),
                             value=self.expr(cy.rhs))

    def s_ExprStatNode(self, cy):
        return ast.Expr(value=self.expr(cy.expr))

    def s_PassStatNode(self, cy):
        return ast.Pass()

    def s_BreakStatNode(self, cy):
        return ast.Break()

    def s_ContinueStatNode(self, cy):
        return ast.Continue()

    def s_ReturnStatNode(self, cy):
        return ast.Return(value=self.expr(cy.value) if cy.value else None)

    def s_RaiseStatNode(self, cy):
        return ast.Raise(exc=self.expr(cy.exc_type) if cy.exc_type else None,
                         cause=None)

    def s_AssertStatNode(self, cy):
        cond = getattr(cy, 'condition', None)
        if cond is None:
            cond = getattr(cy, 'cond', None)
        val = getattr(cy, 'value', None)
        msg = None
        if val is not None:
            msg = self.expr(val)
        elif getattr(cy, 'exception', None) is not None:
            # Cython >= 3 lowers "assert c, m" to a RaiseStatNode
            ex = cy.exception
            args = getattr(getattr(ex, 'exc_type', None), 'args', None)
            if args:
                msg = self.expr(args[0])
        return ast.Assert(test=self.expr(cond), msg=msg)

    def s_IfStatNode(self, cy):
        clauses = cy.if_clauses
        orelse = self.stmts(cy.else_clause) if cy.else_clause else []
        node = None
        for cl in reversed(clauses):
            node = ast.If(test=self.expr(cl.condition),
                          body=self.block(cl.body), orelse=orelse)
            self._pos(cl, node)
            orelse = [node]
        return node

    def s_WhileStatNode(self, cy):
        return ast.While(test=self.expr(cy.condition),
                         body=self.block(cy.body),
                         orelse=self.stmts(cy.else_clause)
                         if cy.else_clause else [])

    def s_ForInStatNode(self, cy):
        seq = cy.iterator.sequence
        node = ast.For(target=self.expr(cy.target, store=True),
                       iter=self.expr(seq), body=self.block(cy.body),
                       orelse=self.stmts(cy.else_clause)
                       if cy.else_clause else [], lineno=cy.pos[1])
        node.cy_prange = False
        return node

    def s_ParallelRangeNode(self, cy):
        args = [self.expr(a) for a in cy.args]
        kws = []
        kwd = {}
        if cy.kwargs is not None:
            for item in cy.kwargs.key_value_pairs:
                k = item.key.value
                v = self.expr(item.value)
                kws.append(ast.keyword(arg=k, value=v))
                kwd[k] = v
        it = ast.Call(func=ast.Name(id='prange', ctx=ast.Load()),
                      args=args, keywords=kws)
        self._pos(cy, it)
        node = ast.For(target=self.expr(cy.target, store=True), iter=it,
                       body=self.block(cy.body),
                       orelse=self.stmts(cy.else_clause)
                       if cy.else_clause else [], lineno=cy.pos[1])
        node.cy_prange = True
        node.cy_prange_kw = kwd
        return node

    def s_CVarDefNode(self, cy):
        # cdef <type> a = e, b, c = e2   ->  annotated assignments
        out = []
        t = self.cytype(cy.base_type)
        for d in cy.declarators:
            name = self._declname(d)
            default = getattr(d, 'default', None)
            if type(d).__name__ in ('CPtrDeclaratorNode', 'CArrayDeclaratorNode', 'CReferenceDeclaratorNode'):
                t = CyType(t.base, text=t.text + ('*' if 'Ptr' in type(d).__name__ else '[]'))
                t.pointer = True
                if default is None:
                    default = getattr(getattr(d, 'base', None), 'default', None)
            n = ast.AnnAssign(
                target=ast.Name(id=name, ctx=ast.Store()),
                annotation=ast.Constant(value=t.text),
                value=self.expr(default) if default is not None else None,
                simple=1)
            n.cy_type = t
            self._pos(cy, n)
            self._pos(cy, n.target)
            out.append(n)
        return out

    def s_DefNode(self, cy):
        args = []
        defaults = []
        argtypes = {}
        for a in cy.args:
            name = self._declname(a.declarator)
            arg = ast.arg(arg=name, annotation=None)
            self._pos(a, arg)
            args.append(arg)
            bt = a.base_type
            if not (type(bt).__name__ == 'CSimpleBaseTypeNode'
                    and bt.name is None):
                t = self.cytype(bt)
                # "def f(X)" parses the name as the type with empty declarator
                if not (type(bt).__name__ == 'CSimpleBaseTypeNode'
                        and getattr(a.declarator, 'name', '') == ''):
                    argtypes[name] = t
            if a.default is not None:
                defaults.append(self.expr(a.default))
        fixed = []
        for a, arg in zip(cy.args, args):
            if arg.arg == '' or arg.arg is None:
                # untyped argument: the "type" is actually the name
                arg.arg = a.base_type.name
            fixed.append(arg)
        fn = ast.FunctionDef(
            name=cy.name,
            args=ast.arguments(
                posonlyargs=[], args=fixed,
                vararg=ast.arg(arg=cy.star_arg.name) if cy.star_arg else None,
                kwonlyargs=[], kw_defaults=[],
                kwarg=ast.arg(arg=cy.starstar_arg.name)
                if cy.starstar_arg else None,
                defaults=defaults),
            body=self.block(cy.body), decorator_list=[], returns=None,
            lineno=cy.pos[1])
        try:
            fn.type_params = []
        except Exception:
            pass
        fn.cy_directives = {k: v for k, v in self.directives[-1].items()
                            if k in ('boundscheck', 'wraparound', 'cdivision',
                                     'nonecheck', 'initializedcheck',
                                     'overflowcheck')}
        fn.cy_argtypes = argtypes
        fn.cy_locals = {}
        for n in ast.walk(fn):
            if isinstance(n, ast.AnnAssign) and hasattr(n, 'cy_type'):
                fn.cy_locals[n.target.id] = n.cy_type
        return fn

    # -- cdef functions, global / nonlocal (promoted from the C13/C19 rule files) ------
    _C_ARITH = None

    @classmethod
    def _c_arith(cls):
        if cls._C_ARITH is None:
            names = {'signed char', 'unsigned char', 'char', 'short', 'unsigned short', 'int', 'unsigned int', 'long',
                     'unsigned long', 'long long', 'unsigned long long', 'Py_ssize_t', 'ssize_t', 'size_t', 'bint',
                     'float', 'double', 'long double', 'np.intp_t', 'np.npy_intp', 'np.uintp_t', 'np.long_t',
                     'np.ulong_t', 'np.longlong_t', 'np.ulonglong_t', 'np.int_t', 'np.uint_t', 'np.float_t',
                     'np.float32_t', 'np.float64_t', 'np.double_t', 'np.npy_float32', 'np.npy_float64',
                     'np.npy_double', 'np.longdouble_t'}
            for pat in ('np.%sint%d_t', 'np.npy_%sint%d', 'numpy.%sint%d_t', '%sint%d_t'):
                for sg in ('', 'u'):
                    for w in (8, 16, 32, 64):
                        names.add(pat % (sg, w))
            cls._C_ARITH = names
        return cls._C_ARITH

    def _c_scalar(self, t):
        return t is not None and not getattr(t, 'is_buffer', False) and not getattr(t, 'pointer', False) \
            and getattr(t, 'text', None) in self._c_arith()

    def s_GlobalNode(self, cy):
        return ast.Global(names=[str(x) for x in cy.names])

    def s_NonlocalNode(self, cy):
        return ast.Nonlocal(names=[str(x) for x in cy.names])

    def s_CFuncDefNode(self, cy):
        """`cdef [inline] T f(T a, ...) [nogil]: body` as a FunctionDef marked cy_cdef.  Binding a C
        scalar parameter and returning a C scalar are CONVERSIONS: reads of such parameters and the
        returned expressions are wrapped in explicit casts so that neither the rules nor the helper
        inliner lose them at the call boundary."""
        d = cy.declarator
        while type(d).__name__ != 'CFuncDeclaratorNode':
            if type(d).__name__ != 'CNameDeclaratorNode' and hasattr(d, 'base'):
                d = d.base
            else:
                self._unsupported(cy)
        if getattr(d, 'has_varargs', False) or getattr(cy, 'overridable', False) or cy.body is None:
            self._unsupported(cy)

        class _Shim:
            pass
        sh = _Shim()
        sh.args, sh.name, sh.star_arg, sh.starstar_arg, sh.body, sh.pos = d.args, self._declname(d.base), None, None, cy.body, cy.pos
        fn = self.s_DefNode(sh)
        fn.cy_cdef = True
        fn.cy_nogil = bool(getattr(d, 'nogil', False))
        fn.cy_inline = 'inline' in (getattr(cy, 'modifiers', None) or [])
        try:
            fn.cy_return = self.cytype(cy.base_type)
        except AnalysisIncomplete:
            fn.cy_return = None
        if type(cy.declarator).__name__ != 'CFuncDeclaratorNode':
            fn.cy_return = None               # pointer / reference result
        rebound = {n.id for n in ast.walk(fn) if isinstance(n, ast.Name) and isinstance(n.ctx, (ast.Store, ast.Del))}
        types = {p: t.text for p, t in fn.cy_argtypes.items() if self._c_scalar(t) and p not in rebound}

        class _Wrap(ast.NodeTransformer):
            def visit_Name(self, n):
                if isinstance(n.ctx, ast.Load) and n.id in types:
                    return ast.copy_location(ast.Call(func=ast.Name(id='__cy_cast__', ctx=ast.Load()),
                                                      args=[ast.Constant(value=types[n.id]), n], keywords=[]), n)
                return n

            def visit_FunctionDef(self, n):
                return n
            visit_Lambda = visit_FunctionDef
        if types:
            fn.body = [_Wrap().visit(st) for st in fn.body]
        if self._c_scalar(fn.cy_return):
            for n in ast.walk(fn):
                if isinstance(n, ast.Return) and n.value is not None:
                    n.value = ast.copy_location(ast.Call(func=ast.Name(id='__cy_cast__', ctx=ast.Load()),
                                                         args=[ast.Constant(value=fn.cy_return.text), n.value], keywords=[]), n.value)
        return fn

    # -- expressions -----------------------------------------------------
    _BIN = {'+': ast.Add, '-': ast.Sub, '*': ast.Mult, '/': ast.Div,
            '//': ast.FloorDiv, '%': ast.Mod, '**': ast.Pow,
            '&': ast.BitAnd, '|': ast.BitOr, '^': ast.BitXor,
            '<<': ast.LShift, '>>': ast.RShift, '@': ast.MatMult}
    _CMP = {'==': ast.Eq, '!=': ast.NotEq, '<': ast.Lt, '<=': ast.LtE,
            '>': ast.Gt, '>=': ast.GtE, 'is': ast.Is, 'is_not': ast.IsNot,
            'in': ast.In, 'not_in': ast.NotIn, 'is not': ast.IsNot,
            'not in': ast.NotIn}

    def _binop(self, op):
        try:
            return self._BIN[op]()
        except KeyError:
            raise AnalysisIncomplete('unsupported operator %r in %s'
                                     % (op, self.rel))

    def expr(self, cy, store=False):
        tn = type(cy).__name__
        m = getattr(self, 'e_' + tn, None)
        if m is None:
            if tn.endswith('Node') and hasattr(cy, 'operator') and \
                    hasattr(cy, 'operand1') and hasattr(cy, 'operand2') and \
                    cy.operator in self._BIN:
                m = self.e_binop
            else:
                self._unsupported(cy)
        r = m(cy, store) if m.__code__.co_argcount == 3 else m(cy)
        self._pos(cy, r)
        return r

    def e_NameNode(self, cy, store):
        return ast.Name(id=cy.name, ctx=ast.Store() if store else ast.Load())

    def e_IntNode(self, cy):
        v = cy.value
        try:
            return ast.Constant(value=int(v, 0))
        except (TypeError, ValueError):
            return ast.Constant(value=int(str(v).rstrip('uUlL'), 0))

    def e_FloatNode(self, cy):
        return ast.Constant(value=float(cy.value))

    def e_BoolNode(self, cy):
        return ast.Constant(value=bool(cy.value))

    def e_NoneNode(self, cy):
        return ast.Constant(value=None)

    def e_EllipsisNode(self, cy):
        return ast.Constant(value=Ellipsis)

    def e_UnicodeNode(self, cy):
        return ast.Constant(value=str(cy.value))

    e_StringNode = e_UnicodeNode
    e_IdentifierStringNode = e_UnicodeNode

    def e_BytesNode(self, cy):
        return ast.Constant(value=bytes(cy.value))

    def e_AttributeNode(self, cy, store):
        return ast.Attribute(value=self.expr(cy.obj), attr=cy.attribute,
                             ctx=ast.Store() if store else ast.Load())

    def e_IndexNode(self, cy, store):
        return ast.Subscript(value=self.expr(cy.base),
                             slice=self.expr(cy.index),
                             ctx=ast.Store() if store else ast.Load())

    def e_SliceIndexNode(self, cy, store):
        sl = ast.Slice(lower=self.expr(cy.start) if cy.start else None,
                       upper=self.expr(cy.stop) if cy.stop else None,
                       step=None)
        return ast.Subscript(value=self.expr(cy.base), slice=sl,
                             ctx=ast.Store() if store else ast.Load())

    def e_SliceNode(self, cy):
        def part(x):
            if x is None or type(x).__name__ == 'NoneNode':
                return None
            return self.expr(x)
        return ast.Slice(lower=part(cy.start), upper=part(cy.stop),
                         step=part(cy.step))

    def e_TupleNode(self, cy, store):
        return ast.Tuple(elts=[self.expr(a, store) for a in cy.args],
                         ctx=ast.Store() if store else ast.Load())

    def e_ListNode(self, cy, store):
        return ast.List(elts=[self.expr(a, store) for a in cy.args],
                        ctx=ast.Store() if store else ast.Load())

    def e_DictNode(self, cy):
        return ast.Dict(keys=[self.expr(i.key) for i in cy.key_value_pairs],
                        values=[self.expr(i.value)
                                for i in cy.key_value_pairs])

    def e_binop(self, cy):
        return ast.BinOp(left=self.expr(cy.operand1),
                         op=self._binop(cy.operator),
                         right=self.expr(cy.operand2))

    def e_UnaryMinusNode(self, cy):
        return ast.UnaryOp(op=ast.USub(), operand=self.expr(cy.operand))

    def e_UnaryPlusNode(self, cy):
        return ast.UnaryOp(op=ast.UAdd(), operand=self.expr(cy.operand))

    def e_NotNode(self, cy):
        return ast.UnaryOp(op=ast.Not(), operand=self.expr(cy.operand))

    def e_TildeNode(self, cy):
        return ast.UnaryOp(op=ast.Invert(), operand=self.expr(cy.operand))

    def e_BoolBinopNode(self, cy):
        op = ast.And() if cy.operator == 'and' else ast.Or()
        return ast.BoolOp(op=op, values=[self.expr(cy.operand1),
                                         self.expr(cy.operand2)])

    def e_CondExprNode(self, cy):
        return ast.IfExp(test=self.expr(cy.test),
                         body=self.expr(cy.true_val),
                         orelse=self.expr(cy.false_val))

    def e_PrimaryCmpNode(self, cy):
        ops = []
        comps = []
        node = cy
        while node is not None:
            try:
                ops.append(self._CMP[node.operator]())
            except KeyError:
                raise AnalysisIncomplete('unsupported comparison %r'
                                         % node.operator)
            comps.append(self.expr(node.operand2))
            node = node.cascade
        return ast.Compare(left=self.expr(cy.operand1), ops=ops,
                           comparators=comps)

    def e_SimpleCallNode(self, cy):
        return ast.Call(func=self.expr(cy.function),
                        args=[self.expr(a) for a in cy.args], keywords=[])

    def e_GeneralCallNode(self, cy):
        pa = cy.positional_args
        if type(pa).__name__ != 'TupleNode':
            self._unsupported(pa)
        args = [self.expr(a) for a in pa.args]
        kws = []
        ka = cy.keyword_args
        if ka is not None:
            if type(ka).__name__ != 'DictNode':
                self._unsupported(ka)
            for item in ka.key_value_pairs:
                kws.append(ast.keyword(arg=item.key.value,
                                       value=self.expr(item.value)))
        return ast.Call(func=self.expr(cy.function), args=args, keywords=kws)

    def e_AmpersandNode(self, cy):
        return ast.Call(func=ast.Name(id='__cy_addr__', ctx=ast.Load()),
                        args=[self.expr(cy.operand)], keywords=[])

    def e_SizeofTypeNode(self, cy):
        return ast.Call(func=ast.Name(id='__cy_sizeof__', ctx=ast.Load()), args=[], keywords=[])

    def e_TypecastNode(self, cy):
        c = ast.Call(func=ast.Name(id='__cy_cast__', ctx=ast.Load()),
                     args=[ast.Constant(value=self.cytype(cy.base_type).text),
                           self.expr(cy.operand)], keywords=[])
        return c


def parse_pyx(path, rel):
    cytree = _cy_parse(path, rel)
    ad = _Adapter(rel)
    tree = ad.module(cytree)
    ast.fix_missing_locations(tree)
    return tree

"""Front end and shared helpers for the enspara static checkers.

Everything here works on source text only (``ast`` for .py, Cython's own
parser for .pyx via :mod:`sa.pyxfront`); no enspara code is imported or run.
"""
import ast
import copy
import os
import re
import hashlib

REPO = os.environ.get('ENSPARA_REPO', '/repo')

PYX_FILES = (
    'enspara/geometry/libdist.pyx',
    'enspara/info_theory/libinfo.pyx',
    'enspara/msm/libmsm.pyx',
)


def _canon_tree(tree):
    """Front-end canonicalisation of equivalent spellings (see sa/match.py):
    comparison direction, method/function form of reductions, np.newaxis,
    reshape(-1, 1), if-not/else branch order.  Positions are preserved."""
    if os.environ.get('VERIF_NO_CANON') == '1':
        return tree
    from .match import canon_inplace
    attrs = {k: getattr(tree, k) for k in ('cy_fused', 'cy_externs') if hasattr(tree, k)}
    tree = canon_inplace(tree)
    for k, v in attrs.items():
        setattr(tree, k, v)
    return tree


class AnalysisIncomplete(Exception):
    """An anchor the rule must find has vanished / cannot be analysed.

    Leads to exit code 2 (never a silent pass)."""


class Module:
    def __init__(self, rel, src, tree, kind):
        self.rel = rel
        self.src = src
        self.tree = tree
        self.kind = kind
        self.parent = {}
        for node in ast.walk(tree):
            for ch in ast.iter_child_nodes(node):
                self.parent[ch] = node
        self.functions = {}
        self.classes = {}
        self._index(tree, '')

    def _index(self, node, prefix):
        for ch in ast.iter_child_nodes(node):
            if isinstance(ch, (ast.FunctionDef, ast.AsyncFunctionDef)):
                q = prefix + ch.name
                # keep the *last* definition (e.g. duplicated `size` property)
                self.functions[q] = ch
                self._index(ch, q + '.<locals>.')
            elif isinstance(ch, ast.ClassDef):
                self.classes[prefix + ch.name] = ch
                self._index(ch, prefix + ch.name + '.')
            elif isinstance(ch, (ast.If, ast.Try, ast.With, ast.For, ast.While)):
                self._index(ch, prefix)

    def func(self, qual):
        try:
            return self.functions[qual]
        except KeyError:
            raise AnalysisIncomplete(
                'anchor function %s not found in %s' % (qual, self.rel))

    def loc(self, node):
        return '%s:%s' % (self.rel, getattr(node, 'lineno', '?'))

    def enclosing_function(self, node):
        n = self.parent.get(node)
        while n is not None and not isinstance(
                n, (ast.FunctionDef, ast.AsyncFunctionDef)):
            n = self.parent.get(n)
        return n

    def enclosing_stmt(self, node):
        n = node
        while n is not None and not isinstance(n, ast.stmt):
            n = self.parent.get(n)
        return n

    def qualname(self, fn):
        for q, f in self.functions.items():
            if f is fn:
                return q
        return getattr(fn, 'name', '?')


class Repo:
    """Parsed view of /repo's current working tree."""

    def __init__(self, root=None):
        self.root = root or REPO
        self.modules = {}
        self.errors = []
        self.units = []
        pkg = os.path.join(self.root, 'enspara')
        if not os.path.isdir(pkg):
            raise AnalysisIncomplete('no enspara package under %s' % self.root)
        for dirpath, dirnames, filenames in os.walk(pkg):
            dirnames[:] = sorted(d for d in dirnames
                                 if d not in ('test', 'data', '__pycache__'))
            for fn in sorted(filenames):
                rel = os.path.relpath(os.path.join(dirpath, fn), self.root)
                if fn.endswith('.py'):
                    self._load_py(rel)
        self._pyx_loaded = False
        self.renames = {}
        self.equivalent = {}
        self.inlined = {}
        if os.environ.get('VERIF_NO_RENAME') != '1':
            for rel in list(self.modules):
                self._normalise(rel)

    def _ref_signatures(self):
        if getattr(self, '_sigs', None) is None:
            from . import rename, normal
            mods = []
            for dirpath, dirnames, filenames in os.walk(os.path.join(rename.REFERENCE, 'enspara')):
                for fn in sorted(filenames):
                    if fn.endswith('.py'):
                        path = os.path.join(dirpath, fn)
                        try:
                            with open(path, encoding='utf-8') as f:
                                src = f.read()
                            mods.append(Module(os.path.relpath(path, rename.REFERENCE), src, ast.parse(src), 'py'))
                        except (OSError, SyntaxError):
                            pass
            self._sigs = normal.package_signatures(mods)
        return self._sigs

    def _normalise(self, rel):
        """Recognise behaviour-preserving refactorings of the reference
        snapshot (see sa/normal.py, sa/rename.py): a function whose normal
        form equals that of the reference function is analysed in its
        reference spelling; otherwise merely-renamed locals are mapped back
        to the reference names."""
        from . import rename, normal
        ref_path = os.path.join(rename.REFERENCE, rel)
        if not os.path.exists(ref_path):
            return
        try:
            with open(ref_path, encoding='utf-8') as f:
                rsrc = f.read()
            cur = self.modules[rel]
            if rsrc == cur.src:
                return
            if rel.endswith('.pyx'):
                from . import pyxfront
                rtree = _canon_tree(pyxfront.parse_pyx(ref_path, rel))
            else:
                rtree = _canon_tree(ast.parse(rsrc))
            rmod = Module(rel, rsrc, rtree, cur.kind)
            sigs = self._ref_signatures()
            spliced = []
            spliced_any = False
            cur_fns = _all_functions(cur.tree)
            ref_fns = dict(_all_functions(rmod.tree))
            from . import inline
            try:
                hf, hm = inline.new_private_helpers(cur.tree, rmod.tree)
            except Exception:
                hf, hm = {}, {}
            for key, (fn, holder, idx) in cur_fns:
                if key not in ref_fns:
                    continue
                rfn = ref_fns[key][0]
                if ast.dump(fn) == ast.dump(rfn):
                    continue
                # undo "extract private helper": helpers that the reference does not have are inlined
                if hf or hm:
                    try:
                        clone = copy.deepcopy(fn)
                        direct = inline.devirtualise(clone, set(hf)) if hf else set()
                        inl = inline.Inliner(hf, hm, cls=key[0].split('.')[0] if '.' in key[0] else None)
                        if inl.run(clone) or direct:
                            holder[idx] = clone
                            fn = clone
                            self.inlined.setdefault(rel, {})[key[0]] = sorted(set(inl.done) | direct)
                            spliced_any = True
                    except Exception as e:
                        self.errors.append((rel + ' (inlining %s)' % key[0], repr(e)))
                try:
                    same = normal.nf_key(fn, sigs) == normal.nf_key(rfn, sigs)
                except Exception:
                    same = False
                if same:
                    rfn.decorator_list = fn.decorator_list
                    holder[idx] = rfn
                    spliced.append(key[0])
            if spliced or spliced_any:
                ast.fix_missing_locations(cur.tree)
                cur = Module(rel, cur.src, cur.tree, cur.kind)
                self.modules[rel] = cur
                self.equivalent.setdefault(rel, []).extend(spliced)
            applied = rename.normalise_module(cur, rmod, sigs)
            if applied:
                self.renames[rel] = applied
        except Exception as e:       # never let normalisation break a check
            self.errors.append((rel + ' (normalisation)', repr(e)))

    def _load_py(self, rel):
        path = os.path.join(self.root, rel)
        try:
            with open(path, encoding='utf-8') as f:
                src = f.read()
            tree = ast.parse(src, filename=rel)
            tree = _canon_tree(tree)
        except (OSError, SyntaxError, UnicodeDecodeError) as e:
            self.errors.append((rel, repr(e)))
            return
        self.modules[rel] = Module(rel, src, tree, 'py')
        self.units.append(rel)

    def _load_pyx(self):
        if self._pyx_loaded:
            return
        self._pyx_loaded = True
        from . import pyxfront
        for rel in PYX_FILES:
            path = os.path.join(self.root, rel)
            if not os.path.exists(path):
                self.errors.append((rel, 'missing'))
                continue
            try:
                with open(path, encoding='utf-8') as f:
                    src = f.read()
                tree = _canon_tree(pyxfront.parse_pyx(path, rel))
            except Exception as e:   # Cython compile errors etc.
                self.errors.append((rel, repr(e)))
                continue
            self.modules[rel] = Module(rel, src, tree, 'pyx')
            self.units.append(rel)
            if os.environ.get('VERIF_NO_RENAME') != '1':
                self._normalise(rel)
            self._type_inlined_bindings(rel)

    def _type_inlined_bindings(self, rel):
        """The helper inliner binds a non-trivial argument to a fresh temporary `<param>__iN = <argument>`
        and copies the helper's statements with its locals renamed `<local>__iN`.  When the helper is a
        cdef function these are C variables of the declared type (a parameter of a C function is a C local
        of the callee: thread-private, converted at the binding): the declarations are carried over to
        the caller so that the kernel rules judge them as what they are."""
        import re
        tag = re.compile(r'^(.+)__i\d+$')
        mod = self.modules.get(rel)
        if mod is None:
            return
        for fname, helpers in (self.inlined.get(rel) or {}).items():
            fn = mod.functions.get(fname)
            if fn is None or not hasattr(fn, 'cy_locals'):
                continue
            cands = {}
            for h in helpers:
                hf = mod.functions.get(h)
                if hf is None or not getattr(hf, 'cy_cdef', False):
                    continue
                for p, t in list(hf.cy_argtypes.items()) + list(hf.cy_locals.items()):
                    cands.setdefault(p, set()).add(t.text)
                    cands.setdefault((p, t.text), t)
            for n in ast.walk(fn):
                if isinstance(n, ast.AnnAssign) and hasattr(n, 'cy_type') and isinstance(n.target, ast.Name):
                    fn.cy_locals.setdefault(n.target.id, n.cy_type)
            for n in ast.walk(fn):
                if isinstance(n, ast.Assign) and len(n.targets) == 1 and isinstance(n.targets[0], ast.Name):
                    nm = n.targets[0].id
                    m = tag.match(nm)
                    if m and nm not in fn.cy_locals and nm not in fn.cy_argtypes and len(cands.get(m.group(1), ())) == 1:
                        fn.cy_locals[nm] = cands[(m.group(1), next(iter(cands[m.group(1)])))]

    def mod(self, rel):
        if rel.endswith('.pyx'):
            self._load_pyx()
        m = self.modules.get(rel)
        if m is None:
            err = dict(self.errors).get(rel)
            raise AnalysisIncomplete(
                'anchor file %s missing or unparsable (%s)' % (rel, err))
        return m

    def func(self, rel, qual):
        return self.mod(rel).func(qual)

    def py_modules(self):
        return [m for m in self.modules.values() if m.kind == 'py']

    def all_modules(self):
        self._load_pyx()
        return list(self.modules.values())

    def digest(self, rels):
        h = hashlib.sha256()
        for rel in sorted(rels):
            m = self.modules.get(rel)
            h.update(rel.encode())
            h.update((m.src if m else '').encode())
        return h.hexdigest()[:16]


def _all_functions(tree):
    """[((qualname, occurrence), (FunctionDef, holder list, index))] for every
    function definition (duplicates such as property getter/setter kept)."""
    out = []
    seen = {}

    def walk(body, prefix):
        for i, s in enumerate(body):
            if isinstance(s, (ast.FunctionDef, ast.AsyncFunctionDef)):
                q = prefix + s.name
                k = seen.get(q, 0)
                seen[q] = k + 1
                out.append(((q, k), (s, body, i)))
                walk(s.body, q + '.<locals>.')
            elif isinstance(s, ast.ClassDef):
                walk(s.body, prefix + s.name + '.')
            elif isinstance(s, (ast.If, ast.Try, ast.With, ast.For, ast.While)):
                for f in ('body', 'orelse', 'finalbody'):
                    b = getattr(s, f, None)
                    if isinstance(b, list):
                        walk(b, prefix)
                if isinstance(s, ast.Try):
                    for h in s.handlers:
                        walk(h.body, prefix)
    walk(tree.body, '')
    return out


# ---------------------------------------------------------------------------
# small ast helpers

def u(node):
    """Normalised source text of a node (no comments, canonical spacing)."""
    if node is None:
        return 'None'
    if isinstance(node, list):
        return '; '.join(u(n) for n in node)
    try:
        return ast.unparse(node)
    except Exception:
        return '<%s>' % type(node).__name__


def norm_text(s):
    return re.sub(r'\s+', ' ', s).strip()


def walk_local(fn):
    """Walk a function body without descending into nested defs/lambdas/classes
    (the nested def statement itself is yielded, its body is not)."""
    stack = list(reversed(fn.body)) if hasattr(fn, 'body') and isinstance(
        fn.body, list) else [fn]
    while stack:
        n = stack.pop()
        yield n
        if isinstance(n, (ast.FunctionDef, ast.AsyncFunctionDef,
                          ast.ClassDef, ast.Lambda)):
            continue
        for ch in reversed(list(ast.iter_child_nodes(n))):
            stack.append(ch)


def walk_expr(node):
    """Walk an expression, not descending into lambdas."""
    stack = [node]
    while stack:
        n = stack.pop()
        yield n
        for ch in ast.iter_child_nodes(n):
            if isinstance(ch, ast.Lambda):
                continue
            stack.append(ch)


def names_loaded(node):
    return {n.id for n in walk_expr(node)
            if isinstance(n, ast.Name) and isinstance(n.ctx, ast.Load)}


def all_stmts(fn):
    return [n for n in walk_local(fn) if isinstance(n, ast.stmt)]


def call_name(call):
    """Dotted name of a call's callee, e.g. 'np.argmax', 'x.max', 'len'."""
    return dotted(call.func)


def dotted(node):
    if isinstance(node, ast.Name):
        return node.id
    if isinstance(node, ast.Attribute):
        base = dotted(node.value)
        if base is None:
            return None
        return base + '.' + node.attr
    return None


def is_call_to(node, *names):
    """True if node is a Call whose dotted callee is one of names.

    A name starting with '.' matches any method of that name ('.max')."""
    if not isinstance(node, ast.Call):
        return False
    d = call_name(node)
    for n in names:
        if n.startswith('.'):
            if isinstance(node.func, ast.Attribute) and node.func.attr == n[1:]:
                return True
        elif d == n:
            return True
    return False


def kwarg(call, name, default=None):
    for k in call.keywords:
        if k.arg == name:
            return k.value
    return default


def arg_or_kw(call, pos, name, default=None):
    if pos is not None and len(call.args) > pos and not any(
            isinstance(a, ast.Starred) for a in call.args[:pos + 1]):
        return call.args[pos]
    return kwarg(call, name, default)


def const_value(node, default=None):
    if isinstance(node, ast.Constant):
        return node.value
    if isinstance(node, ast.UnaryOp) and isinstance(node.op, ast.USub) \
            and isinstance(node.operand, ast.Constant) \
            and isinstance(node.operand.value, (int, float)):
        return -node.operand.value
    return default


def params(fn):
    a = fn.args
    out = [x.arg for x in a.posonlyargs + a.args]
    if a.vararg:
        out.append(a.vararg.arg)
    out += [x.arg for x in a.kwonlyargs]
    if a.kwarg:
        out.append(a.kwarg.arg)
    return out


def param_default(fn, name):
    a = fn.args
    pos = a.posonlyargs + a.args
    defaults = [None] * (len(pos) - len(a.defaults)) + list(a.defaults)
    for p, d in zip(pos, defaults):
        if p.arg == name:
            return d
    for p, d in zip(a.kwonlyargs, a.kw_defaults):
        if p.arg == name:
            return d
    return None


def target_names(t):
    """Names bound by an assignment target (Name / Tuple / List / Starred)."""
    if isinstance(t, ast.Name):
        return [t.id]
    if isinstance(t, (ast.Tuple, ast.List)):
        out = []
        for e in t.elts:
            out += target_names(e)
        return out
    if isinstance(t, ast.Starred):
        return target_names(t.value)
    return []


def base_name(node):
    """Root Name of an attribute/subscript chain: a.b[c].d -> 'a'."""
    while isinstance(node, (ast.Attribute, ast.Subscript, ast.Starred)):
        node = node.value
    if isinstance(node, ast.Name):
        return node.id
    return None


def construct_key(*parts):
    return '|'.join(norm_text(str(p)) for p in parts)

"""C12 Reversible MLE: no exact-float assertions, well-formed and reachable
convergence warning, py <-> pyx sibling agreement, reference Prinz equations.

The rules are role based.  One implementation is described by `Roles`:
the count matrix is the first parameter, the iteration loop is the outermost
`for` that contains the update loops, X / X_rs are the arrays that are stored
into with a 2-D / 1-D index inside it, C_rs is the 1-D array that is only
read, the diagonal loop is the loop around the store `X[p, p]`, the pair loops
are the two loops around the stores `X[p, q]`.  The bodies of the two update
loops are executed symbolically (`_Exec`): scalars and array cells map to
sympy expressions, `if` becomes a decision tree, so named temporaries,
statement order, augmented assignment, chained assignment, inverted branches
and mirrored comparisons all disappear.  The final value of every stored cell
is compared with the same execution of the reference Prinz update (built from
REFERENCE) and with the sibling implementation.  Expressions are compared as
PARTIAL functions: equal after ring normalisation, or equal after cross
multiplication AND dividing by the same quantity (an algebraically equal
value that divides by something else has other singularities)."""
import ast
import itertools
import re

from .. import symx
from ..core import (AnalysisIncomplete, call_name, const_value, kwarg,
                    params, u, walk_local)
from ..patterns import (Cmp, calls_in, check_no_arg_mutation, subscript_stores,
                        check_warn_calls, conjuncts, finfo, returns_of, shared)
from .msm_common import BU, LM
from ..match import C, CS, _closed_over
from ..match import classify as _classify

EXPLANATION = (
    'Static decision of the structural necessary conditions of the reversible '
    'maximum-likelihood estimator: (D1) no assertion on the result path '
    'compares a floating-point reduction for exact equality; (D2) the '
    'non-convergence warning is well formed (message first, category second) '
    'and its condition is satisfiable after loop exhaustion (n_iter == '
    'max_iter - 1 under Python range semantics); (D3) the Python and the '
    'Cython implementation agree role by role after symbolic execution of the '
    'two update loops (np.sqrt/sqrt, np.log/log10, len(C)/n_states, b**2/b*b, '
    'named temporaries, statement order and branch polarity are immaterial), '
    'and the diagonal update, the coefficients a, b, c, the root v, both '
    'row-sum updates and the symmetric store equal the reference Prinz '
    'equations as partial functions (same value and same divisor); every '
    'pair is updated in every sweep; guards of the log terms test the same '
    'quantity whose log is taken; (D4) sparse input is densified to an ndarray '
    'and re-wrapped - the test that guards the densification holds for every '
    'scipy sparse container class (7 formats x {matrix, array}: finite domain, '
    'three-valued evaluation of the guard) -, the loop is bounded by '
    'range(max_iter), the work matrix is a float copy, the dispatcher hands its '
    'own matrix to the compiled estimator; (D3.domain) no buffer declaration '
    'of the compiled estimator restricts the memory layout (mode="c"/"fortran") '
    'unless every caller / initialiser provably yields that layout; (D5) the returned T and pi are X/rowsum(X) and '
    'rowsum/total; (D1.running-sum-rederived) if the sweep asserts the sign of '
    'an expression containing `row sum - summand`, the incrementally updated '
    'row sums are re-derived from X between any two sweeps that reach the '
    'assertion (CFG paths round the iteration loop); (D3.root.no-cancellation) '
    'no case of the new pair value is a sum t + sqrt(t**2 + e) unless the '
    'implementation\'s own sign tests establish t >= 0 in that case (truth '
    'table over the syntactic conditions; the reference accepts the '
    'rationalised root -2c/(b + sqrt(D)) exactly where b > 0); '
    '(D3.domain.dtype) every call of the compiled estimator passes an '
    'expression that is float64 by construction; (D3.domain.precision) every declared C scalar of the compiled estimator into '
    'which a floating-point value flows from the float64 buffers (def-use fixed point) - coefficients, root, pseudo '
    'log-likelihood, remembered likelihood, tolerance - is a C double and the work buffers hold doubles (C `float` is 32 bit); a '
    'tolerance test (np.isclose / math.isclose) inside an update is an atomic condition of its own that the exact test implies, '
    'so a tolerance in the place of the reference\'s `a == 0` is a different function on an open set of counts; (D5.result.no-bypass) no return bypasses the iteration under a '
    'tolerance / ordering test on the counts; (D6.no-hidden-state) the estimator functions keep no state outside the '
    'call (no global/nonlocal, no store into a non-local object, no memoisation); (D1.sweep-assert-implied) every assertion inside '
    'an update body is implied, in exact arithmetic, by the invariants of the sweep - counts and cells of X non-negative, each row '
    'sum = the cell of the pair + a non-negative remainder - for every admitted state INCLUDING pairs without counts, where both '
    'sides of `c <= tolerance` are 0 (sign of a polynomial whose coefficients all have one sign; a strict comparison or the '
    'opposite direction is a violation, an undecided sign is incomplete); (D5.result.sanity-assert) a sanity assertion behind the '
    'iteration sums the returned T along its rows (the axis the normalisation made stochastic) / pi over all entries and compares '
    'with 1; (D4.dispatch.dense-path) every condition that controls the call of the compiled estimator in _prinz_mle is a test of '
    'the container class of its parameter that holds for a dense ndarray. Optimality against every '
    'reversible competitor is not decided.')

REFERENCE = {
    # Prinz et al. 2011, eqs. for the reversible MLE (as in msmbuilder)
    'diag': 'C[i,i] * (X_rs[i] - X[i,i]) / (C_rs[i] - C[i,i])',
    'a': '(C_rs[i] - C[i,j]) + (C_rs[j] - C[j,i])',
    'b': 'C_rs[i] * (X_rs[j] - X[i,j]) + C_rs[j] * (X_rs[i] - X[i,j]) - (C[i,j] + C[j,i]) * (X_rs[i] + X_rs[j] - 2*X[i,j])',
    'c': '-(C[i,j] + C[j,i]) * (X_rs[i] - X[i,j]) * (X_rs[j] - X[i,j])',
    'v': '(-b + sqrt(b*b - 4*a*c)) / (2*a)',
    # the same root with the numerator rationalised: defined (and free of cancellation) exactly where b > 0
    'v_pos_b': '(-2*c) / (b + sqrt(b*b - 4*a*c))',
    'rs_i': 'X_rs[i] + (v - X[i,j])',
    'rs_j': 'X_rs[j] + (v - X[j,i])',
}

# the reference sweep over the canonical vocabulary X, X_rs, C, C_rs, i, j
REF_DIAG = '''
old = X[i, i]
if 0 < C_rs[i] - C[i, i]:
    X[i, i] = %(diag)s
X_rs[i] = X_rs[i] + (X[i, i] - old)
''' % REFERENCE
REF_PAIR = '''
a = %(a)s
b = %(b)s
c = %(c)s
if a == 0:
    v = X[j, i]
else:
    v = %(v)s
X_rs[i] = %(rs_i)s
X_rs[j] = %(rs_j)s
X[i, j] = v
X[j, i] = v
''' % REFERENCE
# The positive root may be spelled in its cancellation-free form WHERE b > 0: there
# `b + sqrt(D)` > 0, so both spellings are the same partial function.  Where b <= 0 only
# the textbook form is accepted (for c == 0 the rationalised form is 0/0 there - seed C12B).
REF_PAIR_STABLE = '''
a = %(a)s
b = %(b)s
c = %(c)s
if a == 0:
    v = X[j, i]
else:
    if 0 < b:
        v = %(v_pos_b)s
    else:
        v = %(v)s
X_rs[i] = %(rs_i)s
X_rs[j] = %(rs_j)s
X[i, j] = v
X[j, i] = v
''' % REFERENCE
REF_ALTS = {'pair': (REF_PAIR_STABLE,)}
# which reference equation a stored cell / scalar stands for (messages only)
REF_OF = {'X[i,i]': 'diag', 'X[i,j]': 'v', 'X[j,i]': 'v', 'X_rs[i]': 'rs_i', 'X_rs[j]': 'rs_j'}


class _Neg(ast.NodeTransformer):
    """The Cython front end yields Constant(-1) where CPython's parser yields
    UnaryOp(USub, Constant(1)); use the latter everywhere."""

    def visit_Constant(self, node):
        if isinstance(node.value, (int, float)) and not isinstance(node.value, bool) and node.value < 0:
            return ast.copy_location(ast.UnaryOp(op=ast.USub(), operand=ast.Constant(value=-node.value)), node)
        return node

    _REDUCTIONS = ('sum', 'mean', 'max', 'min', 'prod', 'any', 'all', 'argmax', 'argmin', 'cumsum')

    def visit_Call(self, node):
        """`x.sum(1)` -> `x.sum(axis=1)`: the first positional argument of a numpy reduction method is the axis."""
        self.generic_visit(node)
        if isinstance(node.func, ast.Attribute) and node.func.attr in self._REDUCTIONS and len(node.args) == 1 \
                and not any(k.arg == 'axis' for k in node.keywords) and not isinstance(node.args[0], ast.Starred):
            node.keywords = [ast.keyword(arg='axis', value=node.args[0])] + list(node.keywords)
            node.args = []
        return node


NEAR_MAX = 2


def classify(node, patterns, **kw):
    """match.classify; with `scope` the verdict `near` (a different function
    of the same operands -> violation) is kept only when the expression is a
    SMALL edit (<= NEAR_MAX positions) of an accepted form.  A closed
    expression of another shape may be an equal spelling the list of accepted
    forms does not contain: the rule cannot tell -> `far` (incomplete)."""
    import copy
    v = _classify(_Neg().visit(copy.deepcopy(node)), patterns, **kw)
    if kw.get('scope') is not None and v[0] == 'near' and v[1] > NEAR_MAX:
        return ('far',) + tuple(v[1:])
    return v


def _inplace_sites(fi, name):
    """Statements that change the object bound to `name` in place (a plain
    rebinding `name = name.copy()...` is not one)."""
    from ..normal import MUTATING_METHODS
    out = []
    for s in fi._mutated_in_place(name):
        if isinstance(s, ast.Assign) and all(isinstance(t, ast.Name) for t in s.targets) and not any(
                isinstance(c, ast.Call) and isinstance(c.func, ast.Attribute) and c.func.attr in MUTATING_METHODS
                for c in ast.walk(s.value)):
            continue
        out.append(s)
    return out


# ---------------------------------------------------------------------------
# decision trees over sympy leaves

class _Ite:
    __slots__ = ('c', 'a', 'b')

    def __init__(self, c, a, b):
        self.c, self.a, self.b = c, a, b


def _sp():
    return symx.sympy()


def _leq(x, y):
    if isinstance(x, bool) or isinstance(y, bool):
        return isinstance(x, bool) and isinstance(y, bool) and x is y
    return x == y or _sp().expand(x - y) == 0


def _teq(x, y):
    if isinstance(x, _Ite) or isinstance(y, _Ite):
        return isinstance(x, _Ite) and isinstance(y, _Ite) and x.c == y.c and _teq(x.a, y.a) and _teq(x.b, y.b)
    return _leq(x, y)


def _mk(c, a, b):
    return a if _teq(a, b) else _Ite(c, a, b)


def _restrict(t, c, pol):
    if isinstance(t, _Ite):
        if t.c == c:
            return _restrict(t.a if pol else t.b, c, pol)
        return _mk(t.c, _restrict(t.a, c, pol), _restrict(t.b, c, pol))
    return t


def _ap(f, *ts):
    """Apply f leaf-wise (f may itself return a tree)."""
    for t in ts:
        if isinstance(t, _Ite):
            hi = [_restrict(x, t.c, True) for x in ts]
            lo = [_restrict(x, t.c, False) for x in ts]
            return _mk(t.c, _ap(f, *hi), _ap(f, *lo))
    return f(*ts)


def _conds(t, out=None):
    out = set() if out is None else out
    if isinstance(t, _Ite):
        out.add(t.c)
        _conds(t.a, out)
        _conds(t.b, out)
    return out


def _leaves(t):
    if isinstance(t, _Ite):
        return _leaves(t.a) + _leaves(t.b)
    return [t]


def _show(t, n=160):
    if isinstance(t, _Ite):
        s = '(%s if %s(%s) else %s)' % (_show(t.a, n), t.c[0], t.c[1], _show(t.b, n))
    else:
        s = str(t)
    return s[:n]


_COND_SYMS = {}
_COND_NEG = {}
_COND_BASE = {}         # ('T', text) -> ('Z', text of the same difference): e == 0 implies |e| <= tolerance
_COND_EXPR = {}         # ('P'|'Z', text) -> the sympy expression e of the atom `e > 0` / `e == 0`


def _feasible(on, off=()):
    """The tests in `on` can hold together while those in `off` fail: not e > 0 with -e > 0, not e == 0 with
    e > 0 or -e > 0, not e == 0 without |e| <= tolerance (kind 'T': a tolerance test of the same difference)."""
    for kind, txt in on:
        neg = _COND_NEG.get(txt)
        if kind == 'P' and (('P', neg) in on or ('Z', min(txt, neg or txt)) in on):
            return False
    for c in off:
        if c[0] == 'T' and _COND_BASE.get(c) in on:
            return False
    return True
_ALLOWED = re.compile(r"^(?:(?:C|X)\[(?:i|j),(?:i|j)\]|(?:C_rs|X_rs)\[(?:i|j)\]|logl)'?$")


def _closed(t):
    """The value is a function of the located operands only (cells of C, X,
    C_rs, X_rs at the loop indices, the accumulator)."""
    for leaf in _leaves(t):
        if isinstance(leaf, bool):
            continue
        for s in leaf.free_symbols:
            if not _ALLOWED.match(s.name):
                return False
    for c in _conds(t):
        if c[0] == 'B':
            return False
        for nm in _COND_SYMS.get(c, ('?',)):
            if not _ALLOWED.match(nm):
                return False
    return True


def _provably_nonzero(N):
    """A certificate that the expression N (a polynomial in the cell symbols,
    square roots, absolute values and LOG terms) is not the zero FUNCTION.
    Purely algebraic: every non-polynomial atom is replaced by an
    indeterminate; at most one algebraic atom s (sqrt(R) with R no perfect
    square, or |e|) is admitted and N is reduced modulo s**2 - R, so a
    non-zero remainder A + B*s cannot vanish identically (s is not a rational
    function); the LOG atoms have to be multiplicatively independent
    arguments (then they are algebraically independent over the rational
    functions and the algebraic atom).  True / None (no certificate)."""
    sp = _sp()
    LOGf = sp.Function('LOG')
    half = sp.Rational(1, 2)
    N = sp.expand(N)
    if N == 0:
        return None
    roots = [a for a in N.atoms(sp.Pow) if not a.exp.is_Integer]
    abss = list(N.atoms(sp.Abs))
    logs = sorted(N.atoms(LOGf), key=str)
    others = [a for a in N.atoms(sp.Function) if a.func is not LOGf and not isinstance(a, sp.Abs)]
    if others or any(a.exp != half for a in roots) or len(roots) + len(abss) > 1:
        return None
    for a in roots + abss + logs:
        inner = a.base if a.is_Pow else a.args[0]
        if inner.atoms(sp.Function) or any(not q.exp.is_Integer for q in inner.atoms(sp.Pow)) or not inner.free_symbols:
            return None
    try:
        if len(logs) > 1:
            # exponent vectors of the irreducible factors of the arguments: full rank <=> multiplicatively independent
            cols, rows = [], []
            for lg in logs:
                num, den = sp.fraction(sp.together(lg.args[0]))
                row = {}
                for part, sign in ((num, 1), (den, -1)):
                    for f, e in sp.factor_list(part)[1]:
                        row[f] = row.get(f, 0) + sign * e
                rows.append(row)
                cols += [f for f in row if f not in cols]
            if sp.Matrix([[row.get(f, 0) for f in cols] for row in rows]).rank() < len(logs):
                return None
        rep = {lg: sp.Dummy('L%d' % k, real=True) for k, lg in enumerate(logs)}
        P = N.xreplace(rep)
        for a in roots + abss:
            Q = a.base if a.is_Pow else a.args[0] ** 2
            if a.is_Pow:
                coeff, facs = sp.factor_list(Q)
                if all(e % 2 == 0 for _, e in facs):
                    return None         # a perfect square (up to a constant): sqrt is rational
            d = sp.Dummy('s', real=True)
            P = sp.rem(sp.expand(P.xreplace({a: d})), d ** 2 - sp.expand(Q), d)
        P = sp.expand(P)
        if P.atoms(sp.Function) or any(not q.exp.is_Integer for q in P.atoms(sp.Pow)):
            return None                 # an atom survived the replacement (other power of the root ...)
        return True if P != 0 else None
    except Exception:
        return None


def same_partial(g, w):
    """Compare two leaf expressions as partial real functions.
    -> ('match'|'near'|'far', reason)"""
    sp = _sp()
    if isinstance(g, bool) or isinstance(w, bool):
        return ('match', '') if _leq(g, w) else ('near', 'different truth value')
    if sp.expand(g - w) == 0:
        return 'match', ''
    try:
        ng, dg = sp.fraction(sp.together(g))
        nw, dw = sp.fraction(sp.together(w))
        if sp.expand(ng * dw - nw * dg) == 0:
            r = sp.cancel(sp.expand(dg) / sp.expand(dw))
            if not r.free_symbols:
                return 'match', ''
            return 'near', ('algebraically the same value, but one side divides by `%s` and the other by `%s`: '
                            'the quotient is undefined (0/0, catastrophic cancellation) at other points' % (str(dg)[:120], str(dw)[:60]))
    except Exception:
        pass
    # not equal after normalisation: is it provably another function?  g - w = N / (dg * dw)
    try:
        if _provably_nonzero(ng * dw - nw * dg):
            return 'near', 'different value'
    except Exception:
        pass
    return 'far', 'neither equality nor difference could be established symbolically'


def cmp_tree(got, want, alts=()):
    """Compare two decision trees as functions of their conditions.  `alts`:
    further reference trees; in every case (assignment of the conditions) the
    value has to equal that of `want` or of one of the alternatives."""
    allc = _conds(got) | _conds(want)
    for al in alts:
        allc |= _conds(al)
    cs = sorted(allc)
    if len(cs) > 6:
        return 'far', 'too many case distinctions'
    worst, why = 'match', ''
    for bits in itertools.product((True, False), repeat=len(cs)):
        if not _feasible({c for c, pol in zip(cs, bits) if pol}, {c for c, pol in zip(cs, bits) if not pol}):
            continue
        g, w = got, want
        others = list(alts)
        for c, pol in zip(cs, bits):
            g, w = _restrict(g, c, pol), _restrict(w, c, pol)
            others = [_restrict(o, c, pol) for o in others]
        v, r = same_partial(g, w)
        if v != 'match' and any(same_partial(g, o)[0] == 'match' for o in others):
            v = 'match'
        if v == 'match':
            continue
        case = ' and '.join('%s%s(%s)' % ('' if pol else 'not ', c[0], c[1][:60]) for c, pol in zip(cs, bits))
        r = (r + (' [case %s]' % case if case else ''))
        if v == 'near':
            return ('near', r) if _closed(got) else ('far', r + ' (operands outside the located roles)')
        worst, why = 'far', r
    return worst, why


# ---------------------------------------------------------------------------
# symbolic execution of a loop body

class _Escape(Exception):
    pass


def _cy_cast(n):
    """(C type text, operand) of a cast node of the Cython front end (`<T>e`, a typed parameter of an inlined cdef
    helper, its typed result), else None."""
    if isinstance(n, ast.Call) and isinstance(n.func, ast.Name) and n.func.id == '__cy_cast__' and len(n.args) == 2 \
            and not n.keywords and isinstance(n.args[0], ast.Constant) and isinstance(n.args[0].value, str):
        return n.args[0].value, n.args[1]
    return None


_LOGGING = ('logger.', 'logging.', 'log.')


class _Exec:
    """Straight-line + if symbolic execution.  `alias` maps the names of the
    implementation to the canonical vocabulary (X, X_rs, C, C_rs, i, j, logl)."""

    def __init__(self, alias, acc='logl'):
        self.alias = alias
        self.acc = acc
        self.env = {}
        self.where = {}
        self.stored = []
        self.asserts = []
        self.assert_sites = []      # (condition tree, Assert statement, number of enclosing `if`s, likelihood phase?)
        self.depth = 0
        self.phase1 = None          # cells after the update, before the likelihood term
        self.scalars1 = None
        self.cond_site = {}         # atomic condition -> the first `if` whose test made it
        self.cellname = {}          # plain name that holds an array cell for the duration of the body -> key of the cell
        self.assert_sides = {}      # id(Assert) -> (small, big): the two sides of an asserted ordering `small <(=) big`

    # -- expressions
    def name(self, n):
        return self.alias.get(n, n)

    def sym(self, text):
        return _sp().Symbol(text, real=True)

    @staticmethod
    def initial(k):
        """Symbol of the value a cell holds when the body starts.  X is
        symmetric then (it starts as C + C.T - C12.D5.result.init - and every
        pair update stores the same value into X[i,j] and X[j,i] -
        C12.D3.reference.symmetric), so X[j,i] and X[i,j] denote one value."""
        m = re.match(r'^X\[([^,\]]+),([^,\]]+)\]$', k)
        if m and m.group(2) < m.group(1):
            return 'X[%s,%s]' % (m.group(2), m.group(1))
        return k

    def cell(self, n):
        if not isinstance(n.value, ast.Name):
            raise AnalysisIncomplete('subscript of a non-name: %s' % u(n))
        idx = n.slice.elts if isinstance(n.slice, ast.Tuple) else [n.slice]
        keys = []
        for ix in idx:
            v = self.ev(ix)
            if isinstance(v, (_Ite, bool)):
                raise AnalysisIncomplete('data-dependent index: %s' % u(n))
            keys.append(str(v).replace(' ', ''))
        return '%s[%s]' % (self.name(n.value.id), ','.join(keys))

    def ev(self, n):
        sp = _sp()
        if isinstance(n, ast.Constant):
            if isinstance(n.value, bool):
                return n.value
            if isinstance(n.value, int):
                return sp.Integer(n.value)
            if isinstance(n.value, float):
                return sp.Rational(repr(n.value))
        if isinstance(n, ast.Name) and n.id in self.cellname:
            k = self.cellname[n.id]
            return self.env[k] if k in self.env else self.sym(self.initial(k))
        if isinstance(n, ast.Name):
            k = self.name(n.id)
            return self.env[k] if k in self.env else self.sym(k)
        if isinstance(n, ast.Subscript):
            k = self.cell(n)
            return self.env[k] if k in self.env else self.sym(self.initial(k))
        if isinstance(n, ast.UnaryOp):
            if isinstance(n.op, ast.Not):
                return self.cond(n)
            v = self.ev(n.operand)
            if isinstance(n.op, ast.USub):
                return _ap(lambda x: -x, v)
            if isinstance(n.op, ast.UAdd):
                return v
        if isinstance(n, ast.BinOp):
            ops = {ast.Add: lambda x, y: x + y, ast.Sub: lambda x, y: x - y, ast.Mult: lambda x, y: x * y,
                   ast.Div: lambda x, y: x / y, ast.Pow: lambda x, y: x ** y}
            f = ops.get(type(n.op))
            if f is not None:
                return _ap(f, self.ev(n.left), self.ev(n.right))
        if isinstance(n, ast.IfExp):
            return self.select(self.cond(n.test), self.ev(n.body), self.ev(n.orelse))
        if isinstance(n, (ast.Compare, ast.BoolOp)):
            return self.cond(n)
        if isinstance(n, ast.Call) and (call_name(n) or '').split('.')[-1] in ('isclose', 'allclose'):
            return self.close(n)
        if _cy_cast(n) is not None:
            # a C cast TO double is the identity on the value of a double, a narrower float or a Python float
            # (what else may flow here is C12.D3.domain.precision's business); any other target type changes values
            if _cy_cast(n)[0] in _C_DOUBLE:
                return self.ev(_cy_cast(n)[1])
            raise AnalysisIncomplete('C cast to `%s` inside the update: %s' % (_cy_cast(n)[0], u(n)[:80]))
        if isinstance(n, ast.Call) and len(n.args) == 1 and not n.keywords:
            cn = call_name(n) or ''
            f = symx.FUNCS.get(cn)
            if f == 'sqrt':
                return _ap(sp.sqrt, self.ev(n.args[0]))
            if f == 'Abs':
                return _ap(sp.Abs, self.ev(n.args[0]))
            if f == 'LOG':
                return _ap(sp.Function('LOG'), self.ev(n.args[0]))
            if cn in ('float', 'np.float64', 'np.double'):
                return self.ev(n.args[0])
        raise AnalysisIncomplete('expression outside the lifted vocabulary: %s' % u(n)[:100])

    # tolerance tests on scalars: (positional names of the tolerances, their defaults)
    _CLOSE = {'np.isclose': (('rtol', 'atol'), (1e-05, 1e-08), 'numpy'), 'numpy.isclose': (('rtol', 'atol'), (1e-05, 1e-08), 'numpy'),
              'np.allclose': (('rtol', 'atol'), (1e-05, 1e-08), 'numpy'), 'numpy.allclose': (('rtol', 'atol'), (1e-05, 1e-08), 'numpy'),
              'math.isclose': ((), (1e-09, 0.0), 'math')}

    def close(self, n):
        """`np.isclose(x, y[, rtol, atol])` (|x - y| <= atol + rtol*|y|) / `math.isclose(x, y, rel_tol=, abs_tol=)`
        (|x - y| <= max(rel_tol*max(|x|, |y|), abs_tol)) on scalars as ONE atomic condition of kind 'T' on the
        difference x - y.  It is implied by x - y == 0 (`_feasible`) and, when the tolerance is positive, holds on a
        set with non-empty interior, so `T and not Z` is an inhabited case of the truth table.  A test whose
        tolerance vanishes (no absolute part and a literal 0 on the relative side) IS the exact test -> kind 'Z'."""
        sp = _sp()
        cn = call_name(n) or ''
        spec = self._CLOSE.get(cn)
        if spec is None:
            raise AnalysisIncomplete('tolerance test `%s`: numpy or math semantics not decided' % u(n)[:80])
        pos_names, defaults, family = spec
        if len(n.args) < 2 or any(isinstance(a, ast.Starred) for a in n.args) or len(n.args) > 2 + len(pos_names):
            raise AnalysisIncomplete('tolerance test not modelled: %s' % u(n)[:80])
        kw_names = ('rtol', 'atol') if family == 'numpy' else ('rel_tol', 'abs_tol')
        tols = list(defaults)
        for k, a in enumerate(n.args[2:]):
            tols[k] = const_value(a)
        for k in n.keywords:
            if k.arg in kw_names:
                tols[kw_names.index(k.arg)] = const_value(k.value)
            elif k.arg == 'equal_nan' and const_value(k.value) in (True, False):
                pass
            else:
                raise AnalysisIncomplete('tolerance test not modelled: %s' % u(n)[:80])
        if any(isinstance(t, bool) or not isinstance(t, (int, float)) or t < 0 for t in tols):
            raise AnalysisIncomplete('tolerance of `%s` is not a non-negative constant' % u(n)[:80])
        rel, ab = tols

        def mk(x, y):
            e = sp.expand(x - y)
            if not e.free_symbols and not x.free_symbols and not y.free_symbols:
                bound = ab + rel * abs(y) if family == 'numpy' else max(rel * max(abs(x), abs(y)), ab)
                return bool(abs(e) <= bound)
            # the relative part vanishes identically next to a literal zero (numpy: rtol*|y|; math: |x| <= rel*|x| iff x == 0)
            rel_dead = rel == 0 or (y == 0 if family == 'numpy' else ((x == 0 or y == 0) and rel < 1))
            if ab == 0 and rel_dead:
                return self.atom(x, ast.Eq, y)
            base = min(str(e), str(sp.expand(-e)))
            if rel_dead:
                bound = '%g' % ab
            elif family == 'numpy':
                bound = '%g + %g*|%s|' % (ab, rel, y)
            else:
                bound = 'max(%g*max(|%s|, |%s|), %g)' % (rel, x, y, ab)
            key = ('T', '|%s| <= %s' % (base, bound))
            _COND_SYMS[key] = frozenset(s.name for s in (e.free_symbols | x.free_symbols | y.free_symbols))
            _COND_BASE[key] = ('Z', base)
            return _Ite(key, True, False)
        return _ap(mk, self.ev(n.args[0]), self.ev(n.args[1]))

    def atom(self, l, op, r):
        sp = _sp()

        def mk(kind, e, pos=True):
            if kind == 'NN':            # e >= 0  <=>  not (-e > 0): one atom per sign test, whatever its spelling
                kind, e, pos = 'P', -e, not pos
            e = sp.expand(e)
            if not e.free_symbols:
                val = {'P': e > 0, 'NN': e >= 0, 'Z': e == 0}[kind]
                return bool(val) is pos
            if kind == 'Z':
                s1, s2 = str(e), str(sp.expand(-e))
                txt = min(s1, s2)
            else:
                txt = str(e)
            _COND_SYMS[(kind, txt)] = frozenset(x.name for x in e.free_symbols)
            _COND_EXPR[(kind, txt)] = e
            _COND_NEG[txt] = str(sp.expand(-e))
            return _Ite((kind, txt), pos, not pos)
        if op is ast.Lt:
            return mk('P', r - l)
        if op is ast.Gt:
            return mk('P', l - r)
        if op is ast.LtE:
            return mk('NN', r - l)
        if op is ast.GtE:
            return mk('NN', l - r)
        if op is ast.Eq:
            return mk('Z', l - r)
        if op is ast.NotEq:
            return mk('Z', l - r, False)
        raise AnalysisIncomplete('comparison operator not modelled')

    def cond(self, t):
        if isinstance(t, ast.UnaryOp) and isinstance(t.op, ast.Not):
            return _ap(lambda x: not x, self.cond(t.operand))
        if isinstance(t, ast.BoolOp):
            f = (lambda x, y: x and y) if isinstance(t.op, ast.And) else (lambda x, y: x or y)
            out = self.cond(t.values[0])
            for v in t.values[1:]:
                out = _ap(f, out, self.cond(v))
            return out
        if isinstance(t, ast.Compare):
            out = True
            left = self.ev(t.left)
            for op, right in zip(t.ops, t.comparators):
                rv = self.ev(right)
                a = _ap(lambda x, y, _op=type(op): self.atom(x, _op, y), left, rv)
                out = _ap(lambda x, y: x and y, out, a)
                left = rv
            return out
        v = self.ev(t)
        return _ap(lambda x: x if isinstance(x, bool) else _Ite(('B', str(x)), True, False), v)

    def select(self, c, x, y):
        return _ap(lambda k, p, q: p if k else q, c, x, y)

    # -- statements
    def store(self, t, val, stmt):
        if isinstance(t, ast.Name) and t.id in self.cellname:
            k = self.cellname[t.id]
            if k not in self.stored:
                self.stored.append(k)
        elif isinstance(t, ast.Name):
            k = self.name(t.id)
        elif isinstance(t, ast.Subscript):
            k = self.cell(t)
            if k not in self.stored:
                self.stored.append(k)
        else:
            raise AnalysisIncomplete('assignment target not modelled: %s' % u(t))
        self.env[k] = val
        self.where[k] = stmt

    def run(self, stmts):
        for s in stmts:
            self.step(s)

    def step(self, s):
        if isinstance(s, ast.Pass) or (isinstance(s, ast.Expr) and isinstance(s.value, ast.Constant)):
            return
        if isinstance(s, ast.Expr) and isinstance(s.value, ast.Call) and (
                (call_name(s.value) or '').startswith(_LOGGING) or call_name(s.value) == 'print'):
            return
        if isinstance(s, ast.AnnAssign) and s.value is None:
            return
        if isinstance(s, ast.Assign) and len(s.targets) == 1 and isinstance(s.targets[0], ast.Tuple) and isinstance(s.value, ast.Tuple) \
                and len(s.targets[0].elts) == len(s.value.elts):
            vals = [self.ev(e) for e in s.value.elts]
            for t, val in zip(s.targets[0].elts, vals):
                self.store(t, val, s)
            return
        if isinstance(s, (ast.Assign, ast.AnnAssign)):
            val = self.ev(s.value)
            for t in (s.targets if isinstance(s, ast.Assign) else [s.target]):
                self.store(t, val, s)
            return
        if isinstance(s, ast.AugAssign):
            b = ast.BinOp(left=_as_load(s.target), op=s.op, right=s.value)
            self.store(s.target, self.ev(b), s)
            return
        if isinstance(s, ast.Assert):
            t = self.cond(s.test)
            self.asserts.append(t)
            self.assert_sites.append((t, s, self.depth, self.phase1 is not None))
            if isinstance(s.test, ast.Compare) and len(s.test.ops) == 1:
                less = Cmp(s.test.left, type(s.test.ops[0]), s.test.comparators[0]).as_less()
                if less is not None:
                    try:
                        self.assert_sides[id(s)] = (self.ev(less[0]), self.ev(less[2]))
                    except AnalysisIncomplete:
                        pass
            return
        if isinstance(s, ast.If):
            c = self.cond(s.test)
            for key in _conds(c):
                self.cond_site.setdefault(key, s)
            if isinstance(c, bool):
                self.run(s.body if c else s.orelse)
                return
            base = (dict(self.env), dict(self.where), list(self.stored), list(self.asserts))
            self.depth += 1
            self.run(s.body)
            t_env, t_where, t_stored, t_as = self.env, self.where, self.stored, self.asserts
            self.env, self.where, self.stored, self.asserts = dict(base[0]), dict(base[1]), list(base[2]), list(base[3])
            self.run(s.orelse)
            self.depth -= 1
            self.asserts = list(base[3])       # assertions under a branch are not recorded
            for k in set(t_env) | set(self.env):
                a = t_env[k] if k in t_env else self.sym(self.initial(k))
                b = self.env[k] if k in self.env else self.sym(self.initial(k))
                self.env[k] = self.select(c, a, b)
            e_where, self.where = self.where, dict(base[1])
            for k in set(t_where) | set(e_where):
                ta, eb = t_where.get(k), e_where.get(k)
                ta = ta if ta is not base[1].get(k) else None
                eb = eb if eb is not base[1].get(k) else None
                if ta is not None and eb is not None:
                    # assigned in both branches: name the larger expression
                    self.where[k] = ta if len(ast.dump(ta)) >= len(ast.dump(eb)) else eb
                elif ta is not None or eb is not None:
                    self.where[k] = ta if ta is not None else eb
            for k in t_stored:
                if k not in self.stored:
                    self.stored.append(k)
            return
        if isinstance(s, (ast.Continue, ast.Break, ast.Return, ast.Raise)):
            raise _Escape(u(s))
        raise AnalysisIncomplete('statement not modelled: %s' % u(s)[:80])

    # -- the two phases of an update body
    def writes_acc(self, s):
        return any(isinstance(x, ast.Name) and isinstance(x.ctx, ast.Store) and self.name(x.id) == self.acc for x in ast.walk(s))

    def stores_cell(self, s):
        return any(isinstance(x, ast.Subscript) and isinstance(x.ctx, (ast.Store, ast.Del)) or
                   isinstance(x, ast.Name) and isinstance(x.ctx, (ast.Store, ast.Del)) and x.id in self.cellname for x in ast.walk(s))

    def run_body(self, stmts):
        for s in _fold_continue(list(stmts)):
            if self.writes_acc(s):
                if self.stores_cell(s):
                    raise AnalysisIncomplete('statement updates both the accumulator and an array cell')
                if self.phase1 is None:
                    self.havoc()
            elif self.phase1 is not None and self.stores_cell(s):
                raise AnalysisIncomplete('array store after the likelihood term')
            self.step(s)
        if self.phase1 is None:
            self.havoc()

    def havoc(self):
        """End of the update phase: remember the new cell values and replace
        them by fresh symbols `cell'` (cells holding the same value share one
        symbol), so that the likelihood term is a function of the NEW state."""
        self.phase1 = {k: self.env[k] for k in self.stored}
        self.scalars1 = {k: v for k, v in self.env.items() if k not in self.phase1}
        fresh = []
        for k in sorted(self.stored):
            for k2, old, s2 in fresh:
                if _teq(old, self.phase1[k]):
                    self.env[k] = s2
                    break
            else:
                s2 = self.sym(k + "'")
                fresh.append((k, self.phase1[k], s2))
                self.env[k] = s2
        for k, v in list(self.scalars1.items()):
            for k2, old, s2 in fresh:
                if _teq(old, v):
                    self.env[k] = s2
                    break


def _has_continue(s):
    """A `continue` below s that belongs to the loop in whose body s sits."""
    if isinstance(s, ast.Continue):
        return True
    if isinstance(s, (ast.For, ast.While, ast.FunctionDef, ast.AsyncFunctionDef, ast.Lambda, ast.ClassDef)):
        return False
    return any(_has_continue(c) for c in ast.iter_child_nodes(s))


def _fold_continue(stmts, cont=()):
    """The body of a loop with every `continue` that sits under plain `if`s
    expressed by if/else: `if c: A; continue` + rest == `if c: A else: rest`
    (the rest is duplicated into every arm that falls through).  Same effect per
    iteration; the statements are the original nodes."""
    if not stmts:
        return list(cont)
    s, tail = stmts[0], list(stmts[1:])
    if isinstance(s, ast.Continue):
        return []
    if isinstance(s, ast.If) and _has_continue(s):
        k = _fold_continue(tail, cont)
        new = ast.If(test=s.test, body=_fold_continue(s.body, k) or [ast.Pass()], orelse=_fold_continue(s.orelse, k))
        return [ast.copy_location(new, s)]
    return [s] + _fold_continue(tail, cont)


def _cell_stores(root, arrays):
    """Statements below root that store into a cell of one of the arrays."""
    out = []
    for st in ast.walk(root):
        if isinstance(st, (ast.Assign, ast.AugAssign, ast.AnnAssign)):
            tgs = st.targets if isinstance(st, ast.Assign) else [st.target]
            if any(isinstance(x, ast.Subscript) and isinstance(x.ctx, ast.Store) and isinstance(x.value, ast.Name) and x.value.id in arrays
                   for t in tgs for x in ast.walk(t)):
                out.append(st)
    return out


def _as_load(t):
    import copy
    t2 = copy.deepcopy(t)
    for x in ast.walk(t2):
        if hasattr(x, 'ctx'):
            x.ctx = ast.Load()
    return t2


def _run_reference(src):
    ex = _Exec({})
    ex.run_body(ast.parse(src).body)
    return ex


# ---------------------------------------------------------------------------
# roles

class Roles:
    pass


def _loops_between(mod, node, stop):
    """Enclosing loops of node, innermost first, up to (excluding) stop."""
    out = []
    n = mod.parent.get(node)
    while n is not None and n is not stop:
        if isinstance(n, (ast.For, ast.While)):
            out.append(n)
        n = mod.parent.get(n)
    return out if n is stop else None


def _inside(mod, node, anc):
    n = node
    while n is not None:
        if n is anc:
            return True
        n = mod.parent.get(n)
    return False


def _subscripts(root):
    """(Subscript, is_store) of every name-based subscript below root."""
    for x in ast.walk(root):
        if isinstance(x, ast.Subscript) and isinstance(x.value, ast.Name):
            yield x, isinstance(x.ctx, (ast.Store, ast.Del))


def _index_apart(inner, outer_var):
    """`for j in range(i + k, ...)` with a positive integer constant k and unit step: j > i in every iteration, so
    `A[j]` and `A[i]` are different cells."""
    parts = _range_parts(inner.iter)
    if parts is None:
        return False
    sp = _sp()
    try:
        start, step = sp.expand(symx.lift(parts[0])), sp.expand(symx.lift(parts[2]))
    except AnalysisIncomplete:
        return False
    d = sp.expand(start - sp.Symbol(outer_var, real=True))
    return bool(step == 1 and d.is_Integer and d > 0)


def promoted_cells(mod, fn, outer, inner, arrays):
    """Scalar replacement of an array cell over an inner loop ("register promotion"), by role:

        for i ...:                       (outer)
            t = A[i]                     (load, directly in the outer body, ahead of the inner loop)
            for j in range(i + k, ...):  (inner; k a positive constant)
                ... t read and rebound; A accessed only as A[j] ...
            A[i] = t                     (write-back, directly in the outer body, behind the inner loop)

    is the same computation as the inner loop with `A[i]` in the place of every `t` and neither load nor write-back,
    PROVIDED that (1) inside the inner loop A occurs only as the base of `A[j]`, j the inner loop variable, which
    differs from i in every iteration (`_index_apart`), so the cell A[i] is neither read nor written there and `t` holds
    at every point what the cell would hold; (2) `t` occurs nowhere else in the function (besides a value-less
    declaration), so nothing observes the stale cell or the scalar; (3) no other statement of the outer body mentions A
    or t, and neither loop variable is rebound; (4) the inner loop is not left by `return` (the write-back would be
    skipped).  With zero iterations load + write-back are `A[i] = A[i]`.  Returns {t: (A, load, write-back)} for the
    promotions that satisfy all of this; anything else is left to the caller (which then sees an unexplained store)."""
    out = {}
    if not (isinstance(outer.target, ast.Name) and isinstance(inner.target, ast.Name)) or inner.orelse:
        return out
    i, j = outer.target.id, inner.target.id
    k = [n for n, s in enumerate(outer.body) if s is inner]
    if not k or i == j or not _index_apart(inner, i):
        return out
    before, after = outer.body[:k[0]], outer.body[k[0] + 1:]

    def cell_i(e, ctx):
        return isinstance(e, ast.Subscript) and isinstance(e.ctx, ctx) and isinstance(e.value, ast.Name) and e.value.id in arrays \
            and isinstance(e.slice, ast.Name) and e.slice.id == i
    loads, backs = {}, {}
    for s in before:
        if isinstance(s, ast.Assign) and len(s.targets) == 1 and isinstance(s.targets[0], ast.Name) and cell_i(s.value, ast.Load):
            loads.setdefault(s.targets[0].id, []).append(s)
    for s in after:
        if isinstance(s, ast.Assign) and len(s.targets) == 1 and cell_i(s.targets[0], ast.Store) and isinstance(s.value, ast.Name):
            backs.setdefault(s.value.id, []).append(s)
    rebinds = lambda root, nm, skip: any(isinstance(x, ast.Name) and x.id == nm and isinstance(x.ctx, (ast.Store, ast.Del))
                                         and x is not skip for x in ast.walk(root))
    if rebinds(outer, i, outer.target) or rebinds(inner, j, inner.target) or any(isinstance(x, ast.Return) for x in ast.walk(inner)):
        return out
    for t in sorted(set(loads) & set(backs)):
        if len(loads[t]) != 1 or len(backs[t]) != 1 or t in arrays or t in (i, j):
            continue
        load, back = loads[t][0], backs[t][0]
        A = load.value.value.id
        if back.targets[0].value.id != A:
            continue
        ok = True
        for x in ast.walk(fn):
            if not (isinstance(x, ast.Name) and x.id in (t, A)):
                continue
            if _inside(mod, x, inner):
                if x.id == A:
                    p = mod.parent.get(x)
                    ok = ok and isinstance(p, ast.Subscript) and p.value is x and isinstance(p.slice, ast.Name) and p.slice.id == j
                continue
            if _inside(mod, x, load) or _inside(mod, x, back):
                continue
            if x.id == A and not _inside(mod, x, outer):
                continue
            p = mod.parent.get(x)
            if x.id == t and isinstance(p, ast.AnnAssign) and p.target is x and p.value is None:
                continue            # `cdef double t`
            ok = False
        if ok and not any(isinstance(x, (ast.FunctionDef, ast.AsyncFunctionDef, ast.Lambda, ast.ClassDef)) for x in ast.walk(outer)):
            out[t] = (A, load, back)
    return out


def find_roles(ck, mod, fn, impl):
    rule = 'C12.D3.roles'
    r = Roles()
    r.mod, r.fn, r.impl, r.fi = mod, fn, impl, finfo(mod, fn)
    ps = params(fn)
    if len(ps) < 3:
        ck.missing(rule, '%s: parameters (C, tol, max_iter)' % impl)
        return None
    r.C, r.tol, r.cap = ps[0], ps[1], ps[2]
    outer = [l for l in walk_local(fn) if isinstance(l, ast.For) and not _loops_between(mod, l, fn)
             and any(isinstance(x, ast.For) and x is not l for x in ast.walk(l))]
    if len(outer) != 1:
        ck.missing(rule, '%s: exactly one outer `for` loop around the update loops (found %d)' % (impl, len(outer)))
        return None
    r.loop = loop = outer[0]
    if not isinstance(loop.target, ast.Name):
        ck.missing(rule, '%s: iteration counter is not a plain name' % impl)
        return None
    r.n_iter = loop.target.id
    st2, st1, ld2, ld1 = set(), set(), set(), set()
    for sub, is_store in _subscripts(loop):
        two = isinstance(sub.slice, ast.Tuple) and len(sub.slice.elts) == 2
        one = not isinstance(sub.slice, (ast.Tuple, ast.Slice))
        nm = sub.value.id
        if two:
            (st2 if is_store else ld2).add(nm)
        elif one:
            (st1 if is_store else ld1).add(nm)
    ro2, ro1 = ld2 - st2, ld1 - st1

    def pick(cands, pinned, what):
        if len(cands) == 1:
            return next(iter(cands))
        if pinned in cands:
            return pinned
        ck.missing(rule, '%s: %s not identified (candidates: %s)' % (impl, what, ', '.join(sorted(cands)) or 'none'))
        return None
    r.X = pick(st2, 'X', 'the symmetric work matrix (array stored with a 2-D index in the iteration)')
    r.Xrs = pick(st1, 'X_rs', 'the running row sums (array stored with a 1-D index in the iteration)')
    r.Crs = pick(ro1, 'C_rs', 'the row sums of the counts (1-D array only read in the iteration)')
    if None in (r.X, r.Xrs, r.Crs):
        return None
    r.Cparam = r.C
    if r.C not in ro2:
        if len(ro2) == 1:
            r.C = next(iter(ro2))       # the converted copy of the counts lives under a name of its own
        else:
            ck.missing(rule, '%s: the count matrix `%s` is not read with a 2-D index in the iteration' % (impl, r.C))
            return None
    r.states = (r.C, r.X, r.Xrs, r.Crs)
    # update loops, through the stores into X
    diag, pair = [], []
    for sub, is_store in _subscripts(loop):
        if not is_store or sub.value.id != r.X:
            continue
        if not (isinstance(sub.slice, ast.Tuple) and len(sub.slice.elts) == 2 and all(isinstance(e, ast.Name) for e in sub.slice.elts)):
            ck.missing(rule, '%s: store `%s` is not indexed by two loop variables' % (impl, u(sub)))
            return None
        p, q = (e.id for e in sub.slice.elts)
        ls = _loops_between(mod, sub, loop)
        if ls is None or not all(isinstance(l, ast.For) and isinstance(l.target, ast.Name) for l in ls):
            ck.missing(rule, '%s: loops around `%s` not recognised' % (impl, u(sub)))
            return None
        tg = [l.target.id for l in ls]
        if p == q and tg == [p]:
            diag.append(ls[0])
        elif p != q and len(tg) == 2 and set(tg) == {p, q}:
            pair.append((ls[1], ls[0]))
        else:
            ck.missing(rule, '%s: store `%s` is not inside `for %s` / `for %s, %s` loops (found loops over %s)' % (impl, u(sub), p, p, q, ', '.join(tg)))
            return None
    if not diag or not pair or any(d is not diag[0] for d in diag) or any(p[0] is not pair[0][0] or p[1] is not pair[0][1] for p in pair):
        ck.missing(rule, '%s: one diagonal update loop and one pair update loop nest (found %d / %d stores)' % (impl, len(diag), len(pair)))
        return None
    r.diag = diag[0]
    r.pair_i, r.pair_j = pair[0]
    r.di = r.diag.target.id
    r.pi, r.pj = r.pair_i.target.id, r.pair_j.target.id
    # every in-place change of X / X_rs happens in one of the two bodies; C / C_rs are never changed
    # a running row sum of the outer pair index kept in a scalar over the inner loop and written back behind it
    r.promoted = promoted_cells(mod, fn, r.pair_i, r.pair_j, (r.Xrs,))
    backs = [b for _, _, b in r.promoted.values()]
    for nm in (r.X, r.Xrs):
        for s in _inplace_sites(r.fi, nm):
            if any(s is b for b in backs):
                continue
            if not (_inside(mod, s, r.diag) or _inside(mod, s, r.pair_j)):
                ck.missing(rule, '%s: `%s` changes %s outside the recognised update loops' % (impl, u(s)[:80], nm))
                return None
    for nm in (r.C, r.Crs):
        for s in _inplace_sites(r.fi, nm):
            ck.missing(rule, '%s: `%s` changes %s in place' % (impl, u(s)[:80], nm))
            return None
    # the accumulator of the pseudo log-likelihood, as a def-use chain: a scalar that is carried through the
    # iterations of the first update loop starting from a `= 0` inside the sweep, and a scalar carried through the
    # second update loop starting from the value the first one ends with.  Plain copies `p = q` between the
    # stations (an accumulator handed to / returned from an extracted helper) are looked through.
    fi = r.fi
    first, second = ((r.diag, r.pair_i) if fi.cfg.dominates(r.diag, r.pair_i) else
                     (r.pair_i, r.diag) if fi.cfg.dominates(r.pair_i, r.diag) else (None, None))
    if first is None:
        ck.missing(rule, '%s: neither update loop precedes the other on every path' % impl)
        return None
    chains = []
    for a1 in _carried_scalars(first):
        roots1 = _entry_roots(fi, mod, first, a1, skip=first)
        if len(roots1) != 1:
            continue
        (_, reset), = roots1
        if reset in ('PARAM', 'UNBOUND') or not _inside(mod, reset, loop) or not isinstance(reset, ast.Assign) \
                or const_value(reset.value) != 0 or isinstance(const_value(reset.value), bool):
            continue
        w1 = {(a1, s) for s in _scalar_writes(first, a1)}
        for a2 in _carried_scalars(second):
            roots2 = _entry_roots(fi, mod, second, a2, skip=second)
            if roots2 & w1 and roots2 - w1 == roots1:
                chains.append((a1, a2, reset))
    if len(chains) != 1:
        ck.missing(rule, '%s: pseudo log-likelihood accumulator (`<acc> = 0` in a sweep, carried through both update loops): found %d' % (impl, len(chains)))
        return None
    a1, a2, r.reset = chains[0]
    r.acc = {'diag': a1 if first is r.diag else a2, 'pair': a2 if first is r.diag else a1}
    r.logl = a2                         # what the sweep ends with (the convergence test looks at it)
    if not (r.fi.cfg.dominates(r.reset, r.diag) and r.fi.cfg.dominates(r.reset, r.pair_i)):
        ck.missing(rule, '%s: `%s` does not precede both update loops' % (impl, u(r.reset)))
        return None
    ck.ok(rule, mod, loop, '%s: C=%s X=%s X_rs=%s C_rs=%s acc=%s' % (impl, r.C, r.X, r.Xrs, r.Crs, r.logl),
          'roles located through parameters, stores and loops')
    return r


def _scalar_writes(root, nm):
    """Statements below root that (re)bind the plain name nm."""
    out = []
    for x in ast.walk(root):
        if isinstance(x, ast.AugAssign) and isinstance(x.target, ast.Name) and x.target.id == nm:
            out.append(x)
        elif isinstance(x, ast.Assign) and any(isinstance(n, ast.Name) and n.id == nm for t in x.targets for n in ast.walk(t)
                                               if isinstance(getattr(n, 'ctx', None), ast.Store)):
            out.append(x)
        elif isinstance(x, ast.AnnAssign) and x.value is not None and isinstance(x.target, ast.Name) and x.target.id == nm:
            out.append(x)
    return out


def _carried_scalars(L):
    """Plain names whose new value inside loop L is a function of their own
    previous value (`n += e`, `n = n + e`): candidates for an accumulator."""
    out = []
    for x in ast.walk(L):
        nm = None
        if isinstance(x, ast.AugAssign) and isinstance(x.target, ast.Name):
            nm = x.target.id
        elif isinstance(x, ast.Assign) and len(x.targets) == 1 and isinstance(x.targets[0], ast.Name) and any(
                isinstance(n, ast.Name) and n.id == x.targets[0].id for n in ast.walk(x.value)):
            nm = x.targets[0].id
        if nm is not None and nm not in out:
            out.append(nm)
    return out


def _entry_roots(fi, mod, at, nm, skip=None, depth=6):
    """{(name, site)}: the definitions that determine what `nm` holds when
    statement `at` is reached - definitions inside `skip` (the loop itself,
    when asking for the value on entry) are ignored, plain copies `p = q` are
    replaced by the definitions of q that reach them."""
    out, seen = set(), set()

    def go(at_, nm_, skip_, d):
        for s in fi.rd.defs_at(at_, nm_):
            if s not in ('PARAM', 'UNBOUND') and skip_ is not None and _inside(mod, s, skip_):
                continue
            key = (nm_, s if isinstance(s, str) else id(s))
            if key in seen:
                continue
            seen.add(key)
            if d > 0 and isinstance(s, ast.Assign) and len(s.targets) == 1 and isinstance(s.targets[0], ast.Name) \
                    and isinstance(s.value, ast.Name):
                go(s, s.value.id, None, d - 1)
            else:
                out.add((nm_, s))
    go(at, nm, skip, depth)
    return out


def _range_parts(e):
    if not (isinstance(e, ast.Call) and call_name(e) == 'range' and not e.keywords and 1 <= len(e.args) <= 3) \
            or any(isinstance(a, ast.Starred) for a in e.args):
        return None
    a = list(e.args)
    return (ast.Constant(value=0), a[0], ast.Constant(value=1)) if len(a) == 1 else (a[0], a[1], ast.Constant(value=1)) if len(a) == 2 else tuple(a)


def _range_verdict(e, accepted, sizes, extra=()):
    """Decide `range(...)` over integer expressions semantically: start, stop
    and step are lifted to polynomials in n (every spelling of the number of
    states) and the enclosing loop variables.  Unit step and the same start and
    stop as an accepted form -> match; unit step, integer-affine bounds in the
    same symbols but another start or stop -> another index set -> near.
    None: not such a range (the caller falls back to the pattern list)."""
    sp = _sp()
    parts = _range_parts(e)
    if parts is None:
        return None
    rename = {C(t): 'n' for t in sizes}
    rename.update({t: 'n' for t in sizes})
    try:
        got = [sp.expand(symx.lift(x, rename=rename)) for x in parts]
        want = [[sp.expand(symx.lift(x, rename=rename)) for x in _range_parts(ast.parse(t, mode='eval').body)] for t in accepted]
    except AnalysisIncomplete:
        return None
    allowed = {'n'} | set(extra)
    if any(not (x.is_polynomial() and all(sy.name in allowed for sy in x.free_symbols)) for x in got):
        return None
    if got[2] != 1:
        return ('far', 0, 'non-unit step')
    if any(got[0] == w[0] and got[1] == w[1] for w in want):
        return ('match', {})
    return ('near', 1, accepted[0])


class _Unknown(str):
    """Text of a construct whose role was located but whose content the rule
    did not recognise (already reported as incomplete)."""


def _sizes(r):
    out = []
    for a in (r.C, r.X):
        out += ['len(%s)' % a, '%s.shape[0]' % a, '%s.shape[1]' % a]
    for a in (r.Crs, r.Xrs):
        out += ['len(%s)' % a, '%s.shape[0]' % a, '%s.size' % a]
    return out


def _esc_guard(mod, node, loop):
    """Conjunction of the conditions under which `node` (inside loop) runs."""
    conds = []
    n, child = mod.parent.get(node), node
    while n is not None and n is not loop:
        if isinstance(n, ast.If):
            conds.append((n, any(child is x for x in n.body)))
        elif not isinstance(n, ast.stmt):
            pass
        else:
            return None
        child, n = n, mod.parent.get(n)
    return conds


# ---------------------------------------------------------------------------
# D3: the sweep

def sweep_model(ck, r):
    """Obligations on one implementation against the reference; returns the
    model (role -> comparable value) used for the sibling comparison."""
    rule = 'C12.D3.reference'
    mod, fn, fi, impl = r.mod, r.fn, r.fi, r.impl
    F = fn.name
    model = {}
    scope = set(r.states)
    sizes = _sizes(r)

    def rng(loopnode, forms, what, extra=()):
        e = fi.expand(loopnode.iter, stop=r.states)
        pats = [f % {'N': n} for n in sizes for f in forms]
        v = _range_verdict(e, [f % {'N': 'n'} for f in forms], sizes, extra) or classify(e, pats, scope=scope | set(extra))
        ck.decide(v, rule + '.range', mod, loopnode, F, '%s: for %s in %s' % (impl, u(loopnode.target), u(loopnode.iter)),
                  '%s ranges over %s' % (what, forms[0] % {'N': 'n'}),
                  '%s: %s must range over %s (n = number of states); `%s` visits other cells' % (impl, what, forms[0] % {'N': 'n'}, fi.xu(loopnode.iter, stop=r.states)))
        if v[0] == 'far':
            return _Unknown(fi.xu(loopnode.iter, stop=r.states))
        return forms[0] % {'N': 'n'} if v[0] == 'match' else fi.xu(loopnode.iter, stop=r.states)
    model['range.diag'] = rng(r.diag, ['range(%(N)s)', 'range(0, %(N)s)'], 'the diagonal update')
    model['range.pair.i'] = rng(r.pair_i, ['range(%(N)s - 1)', 'range(0, %(N)s - 1)', 'range(%(N)s)', 'range(0, %(N)s)'], 'the first index of the pair update')
    i = r.pi
    model['range.pair.j'] = rng(r.pair_j, ['range(%s + 1, %%(N)s)' % i, 'range(1 + %s, %%(N)s)' % i], 'the second index of the pair update (j > i)', extra=(i,))
    order = fi.cfg.dominates(r.diag, r.pair_i)
    model['order'] = 'diag<pair' if order else 'pair<diag'
    ck.check(order, rule + '.sweep-order', mod, r.pair_i, F, '%s: diagonal loop, then pair loop' % impl,
             'a sweep updates the diagonal first, then the pairs i<j', '%s: the reference sweep updates the diagonal before the pairs' % impl)

    # no iteration of an update loop may be skipped or cut short
    skipped = {}
    for tag, top, idx in (('diag', r.diag, (r.di,)), ('pair', r.pair_i, (r.pi, r.pj))):
        for x in ast.walk(top):
            if not isinstance(x, (ast.Continue, ast.Break, ast.Return, ast.Raise)):
                continue
            own = (_loops_between(mod, x, top) or [top])[0]
            g = _esc_guard(mod, x, own)
            kind = type(x).__name__.lower()
            if g and isinstance(x, ast.Continue) and own in (r.diag, r.pair_j) and not any(
                    fi.cfg.reachable(g[-1][0], st, avoiding=[own])
                    for st in _cell_stores(own, (r.X, r.Xrs)) + [w for t in r.promoted for w in _scalar_writes(own, t)]):
                # a `continue` behind the last store of the iteration: it skips (part of) the likelihood term only;
                # the symbolic execution below reads it as the if/else it stands for
                continue
            skipped[tag] = True
            if g and own in (r.diag, r.pair_i, r.pair_j) and isinstance(x, (ast.Continue, ast.Break)) and all(
                    _closed_over(fi.expand(n.test, stop=r.states), scope | set(idx)) for n, _ in g):
                n0 = g[-1][0]
                txt = ' and '.join(('%s' if pol else 'not (%s)') % u(n.test) for n, pol in g)
                model['%s.every' % tag] = 'not when %s' % txt
                ck.bad('C12.D3.every-pair', mod, n0, F, '%s: if %s: %s' % (impl, txt, kind),
                       '%s: the %s update is skipped whenever `%s`: the reference sweep updates EVERY %s in every sweep; a cell '
                       'that is never updated stays frozen at its start value C[i,j] + C[j,i], and the iteration converges to a '
                       'constrained optimum instead of the reversible MLE' % (impl, tag, txt, 'pair i<j' if tag == 'pair' else 'diagonal cell'))
            else:
                ck.missing('C12.D3.every-pair', '%s: `%s` inside the %s update loop (%s): control flow not modelled' % (impl, kind, tag, mod.loc(x)))
        if tag not in skipped:
            model['%s.every' % tag] = 'always'
            ck.ok('C12.D3.every-pair', mod, top, '%s: %s loop body has no continue/break/return ahead of a store' % (impl, tag),
                  'every cell is updated in every sweep')

    # statements of the outer pair loop around the inner one: only scalars of the immutable state may be hoisted there
    prelude = []
    if 'pair' not in skipped:
        k = [n for n, s in enumerate(r.pair_i.body) if s is r.pair_j]
        before, after = (r.pair_i.body[:k[0]], r.pair_i.body[k[0] + 1:]) if k else (None, None)
        if k:
            # load / write-back of a promoted cell (`promoted_cells`): the scalar IS the cell X_rs[i] during the inner loop
            moved = [s for _, ld, bk in r.promoted.values() for s in (ld, bk)]
            before = [s for s in before if not any(s is m for m in moved)]
            after = [s for s in after if not any(s is m for m in moved)]
        live = lambda ss: [s for s in ss if not isinstance(s, ast.Pass) and not (isinstance(s, ast.Expr) and isinstance(s.value, ast.Constant))]
        if before is None or live(after) or any(
                not (isinstance(s, ast.Assign) and all(isinstance(t, ast.Name) for t in s.targets)) or
                {n.id for n in ast.walk(s.value) if isinstance(n, ast.Name)} & ({r.X, r.Xrs, r.logl} | set(r.acc.values())) for s in live(before)):
            ck.missing(rule, '%s: statements of the outer pair loop besides the inner loop are not modelled' % impl)
            skipped['pair'] = True
        else:
            prelude = live(before)

    model['_skipped'] = sorted(skipped)
    for tag, L, alias, ref_src, cells in (
            ('diag', r.diag, {r.di: 'i'}, REF_DIAG, ('X[i,i]', 'X_rs[i]')),
            ('pair', r.pair_j, {r.pi: 'i', r.pj: 'j'}, REF_PAIR, ('X[i,j]', 'X[j,i]', 'X_rs[i]', 'X_rs[j]'))):
        if tag in skipped:
            continue
        alias = dict(alias)
        alias.update({r.C: 'C', r.X: 'X', r.Xrs: 'X_rs', r.Crs: 'C_rs', r.acc[tag]: 'logl'})
        if len(set(alias.values())) != len(alias):
            ck.missing(rule, '%s: roles are not distinct names' % impl)
            continue
        ex = _Exec(alias)
        if tag == 'pair':
            ex.cellname = {t: '%s[%s]' % (alias[A], alias[r.pi]) for t, (A, _, _) in r.promoted.items()}
        try:
            if tag == 'pair':
                ex.run(prelude)
            ex.run_body(L.body)
            ref = _run_reference(ref_src)
            ref_alts = [_run_reference(src) for src in REF_ALTS.get(tag, ())]
        except (AnalysisIncomplete, _Escape) as e:
            ck.missing(rule, '%s: body of the %s update loop not executable symbolically: %s' % (impl, tag, e))
            continue
        extra = [k for k in ex.phase1 if k not in cells]
        if extra:
            ck.missing(rule, '%s: the %s update also stores %s, which the reference update does not' % (impl, tag, ', '.join(extra)))
            continue
        all_ok = True
        blamed = set()
        for k in cells:
            if k not in ex.phase1:
                all_ok = False
                ck.bad(rule, mod, L, F, '%s: %s' % (impl, k), '%s: the %s update never stores %s (reference: %s = %s)' % (
                    impl, tag, k, REF_OF[k], REFERENCE[REF_OF[k]]))
                continue
            v, why = cmp_tree(ex.phase1[k], ref.phase1[k], [al.phase1[k] for al in ref_alts])
            model['%s.%s' % (tag, k)] = ex.phase1[k]
            node = ex.where.get(k) or L
            construct = '%s: %s' % (impl, u(node)[:150])
            detail = '%s: the new value of %s differs from the reference Prinz equation %s = %s: %s' % (
                impl, k, REF_OF[k], REFERENCE[REF_OF[k]], why)
            if v != 'match':
                all_ok = False
                # name the first intermediate that already differs from its reference counterpart
                def foreign_test(got, wants):
                    """The first `if` of the body whose test is a condition of `got` that no reference tree has:
                    the value is selected by a case distinction the reference does not make (another test of the same
                    quantity - a tolerance for an exact comparison, >= for > - or a test of another quantity)."""
                    known = set()
                    for w in wants:
                        known |= _conds(w)
                    sites = [ex.cond_site[c] for c in sorted(_conds(got) - known) if c in ex.cond_site]
                    return sites[0] if sites else None
                hit = None
                for nm in ('a', 'b', 'c', 'v'):
                    if nm in ex.scalars1 and nm in ref.scalars1 and nm in ex.where:
                        wants = [ref.scalars1[nm]] + [al.scalars1[nm] for al in ref_alts if nm in al.scalars1]
                        v2, why2 = cmp_tree(ex.scalars1[nm], wants[0], wants[1:])
                        if v2 != 'match':
                            hit = (nm, why2, foreign_test(ex.scalars1[nm], wants) if nm == 'v' else None)
                            break
                test_site = hit[2] if hit else foreign_test(ex.phase1[k], [ref.phase1[k]] + [al.phase1[k] for al in ref_alts])
                if test_site is not None:
                    node = test_site
                    construct = '%s: if %s' % (impl, u(node.test)[:140])
                    detail = '%s: the new value of %s is selected by `if %s`, a case distinction the reference Prinz update does ' \
                             'not make (reference: `a == 0` -> keep X[j,i], else the positive root %s; rationalised where `b > 0`): %s' % (
                                 impl, k, u(node.test)[:100], REFERENCE['v'], hit[1] if hit else why)
                elif hit:
                    nm, why2 = hit[0], hit[1]
                    node = ex.where[nm]
                    construct = '%s: %s' % (impl, u(node)[:150])
                    detail = '%s: `%s` differs from the reference Prinz equation %s = %s (it determines %s): %s' % (
                        impl, u(node)[:150], nm, REFERENCE[nm], k, why2)
            if v != 'match' and (id(node), v) in blamed:
                continue        # consequence of a construct that has been reported already
            blamed.add((id(node), v))
            ck.decide(v, rule, mod, node, F, construct, '%s equals the reference Prinz update (%s) after symbolic execution' % (k, REF_OF[k]), detail)
        if tag == 'pair' and 'X[i,j]' in ex.phase1 and 'X[j,i]' in ex.phase1:
            sym = 'match' if _teq(ex.phase1['X[i,j]'], ex.phase1['X[j,i]']) else cmp_tree(ex.phase1['X[j,i]'], ex.phase1['X[i,j]'])[0]
            ck.decide(sym, rule + '.symmetric', mod, ex.where.get('X[j,i]') or L, F,
                      '; '.join(sorted({u(ex.where[k])[:60] for k in ('X[i,j]', 'X[j,i]') if k in ex.where})),
                      'X[i,j] and X[j,i] both take the new value (X stays symmetric)',
                      '%s: both X[i, j] and X[j, i] must be set to the same new value v' % impl)
            if all_ok:
                ck.ok(rule + '.order', mod, ex.where.get('X_rs[i]') or L, 'row-sum updates use the value X[i,j] had before the store',
                      'row sums are updated with the OLD X[i,j] (the final row sums equal X_rs + (v - X_old))')
        if tag == 'pair' and 'X[i,j]' in ex.phase1:
            try:
                _root_cancellation(ck, r, L, ex)
            except (AnalysisIncomplete, AttributeError, KeyError, IndexError, TypeError, ValueError, RecursionError) as e:
                ck.missing('C12.D3.root.no-cancellation', '%s: new value of the pair not analysable (%r)' % (impl, e))
        # assertions inside the update: compared between the siblings (informational) and each decided on its own
        model['_asserts.%s' % tag] = sorted(_show(a, 400) for a in ex.asserts)
        try:
            _sweep_asserts(ck, r, tag, ex)
        except (AnalysisIncomplete, AttributeError, KeyError, IndexError, TypeError, ValueError, RecursionError) as e:
            ck.missing('C12.D1.sweep-assert-implied', '%s: assertion inside the %s update not analysable (%r)' % (impl, tag, e))
        # the likelihood term and its guard
        acc = ex.env.get('logl')
        model['%s.logl' % tag] = acc
        _log_guard(ck, r, tag, L, ex, acc)
    return model


# Invariants of the sweep in exact arithmetic, when the body of an update starts (admitted input: non-negative
# counts, every state has counts): the counts and the cells of X are >= 0, and a row sum is the cell of the pair plus
# a non-negative remainder (the other cells of the row).  Written as substitutions into non-negative indeterminates.
_NONNEG_SUBST = {
    'pair': {'X_rs[i]': ('X[i,j]', "rest(X_rs[i])"), 'X_rs[j]': ('X[i,j]', "rest(X_rs[j])"),
             'C_rs[i]': ('C[i,j]', "rest(C_rs[i])"), 'C_rs[j]': ('C[j,i]', "rest(C_rs[j])")},
    'diag': {'X_rs[i]': ('X[i,i]', "rest(X_rs[i])"), 'C_rs[i]': ('C[i,i]', "rest(C_rs[i])")},
}
# the indeterminates that vanish TOGETHER for an admitted input: a pair without counts in either direction
# (X[i,j] = C[i,j] + C[j,i] = 0 at the first sweep), a state without self-counts
_ZERO_POINT = {'pair': ('C[i,j]', 'C[j,i]', 'X[i,j]'), 'diag': ('C[i,i]', 'X[i,i]')}
_ZERO_WHAT = {'pair': 'a pair of states without counts in either direction (C[i,j] = C[j,i] = 0, hence X[i,j] = 0)',
              'diag': 'a state without self-counts (C[i,i] = 0, hence X[i,i] = 0)'}


def _sign_of(e, tag):
    """Sign of the polynomial e on the admitted states of the sweep: -> (kind, e at the zero point) with kind
    'pos' (> 0 everywhere), 'nonneg' (>= 0 everywhere, > 0 where every indeterminate is positive), 'nonpos',
    'neg', 'zero', or None (sign not established: mixed coefficients, not a polynomial, foreign operands)."""
    sp = _sp()
    subst = _NONNEG_SUBST[tag]
    allowed = set(subst) | {cell for cell, _ in subst.values()} | set(_ZERO_POINT[tag])
    if any(x.name not in allowed for x in e.free_symbols):
        return None
    sym = lambda t: sp.Symbol(t, real=True)
    e2 = sp.expand(e.xreplace({sym(k): sym(cell) + sym(rest) for k, (cell, rest) in subst.items()}))
    if e2 == 0:
        return 'zero', e2
    gens = sorted(e2.free_symbols, key=str)
    if gens:
        if not e2.is_polynomial(*gens):
            return None
        poly = sp.Poly(e2, *gens)
        coeffs, const = poly.coeffs(), poly.coeff_monomial(1)
    else:
        coeffs, const = [e2], e2
    if any(not (c.is_number and c.is_real) for c in coeffs):
        return None
    at_zero = sp.expand(e2.xreplace({sym(k): 0 for k in _ZERO_POINT[tag]}))
    if all(c > 0 for c in coeffs):
        return ('pos' if const > 0 else 'nonneg'), at_zero
    if all(c < 0 for c in coeffs):
        return ('neg' if const < 0 else 'nonpos'), at_zero
    return None


def _one_signed_poly(e):
    """(sympy Poly, sign) of a polynomial whose coefficients all have one sign (sign 0: the zero polynomial), else None."""
    sp = _sp()
    e = sp.expand(e)
    if e == 0:
        return None, 0
    gens = sorted(e.free_symbols, key=str)
    if not gens:
        return (None, (1 if e > 0 else -1)) if e.is_number and e.is_real else None
    if not e.is_polynomial(*gens):
        return None
    poly = sp.Poly(e, *gens)
    cs = poly.coeffs()
    if any(not (c.is_number and c.is_real) for c in cs):
        return None
    if all(c > 0 for c in cs):
        return poly, 1
    if all(c < 0 for c in cs):
        return poly, -1
    return None


def _assert_tolerance(ck, r, tag, ex, stmt):
    """An asserted ordering `q <= tolerance` inside an update body, q a quantity whose sign rests on the cancellation
    `row sum - cell >= 0` (its polynomial in the cells has mixed signs and becomes one-signed only after writing each
    running row sum as cell + non-negative remainder - the reference `c`): in floating point the remainder carries the
    rounding error of the incrementally updated row sum (relative to the WHOLE row sum), so q exceeds 0 by up to
    u * M, M = the magnitude bound of q (every `row sum - cell` replaced by the row sum).  Necessary for "a model
    rather than an internal assertion failure": the tolerance does not vanish at an admitted state where M does not.
    Decided on the monomials (all indeterminates are non-negative): a monomial m of M such that every monomial of the
    tolerance carries an indeterminate m does not -> the tolerance is exactly 0 on the states where only the
    indeterminates of m are positive, while q is non-positive there only up to rounding -> violation.  Every monomial
    of M present in the tolerance -> tolerance >= k * M -> ok.  Anything else (absolute tolerance, non-polynomial
    tolerance, two cancellation-prone sides) -> no verdict of this rule.  The literal tolerance 0 is
    C12.D1.no-zero-tolerance-sign-assert."""
    rule = 'C12.D1.sweep-assert-tolerance'
    sp = _sp()
    sides = ex.assert_sides.get(id(stmt))
    if sides is None or any(isinstance(x, (_Ite, bool)) for x in sides):
        return
    subst = _NONNEG_SUBST[tag]
    sym = lambda t: sp.Symbol(t, real=True)
    allowed = set(subst) | {cell for cell, _ in subst.values()} | set(_ZERO_POINT[tag])
    if any(x.name not in allowed for e in sides for x in e.free_symbols):
        return
    to_rest = {sym(k): sym(cell) + sym(rest) for k, (cell, rest) in subst.items()}
    from_rest = {sym(rest): sym(k) - sym(cell) for k, (cell, rest) in subst.items()}

    def prone(e):
        """sign established only through row sum = cell + remainder"""
        return _one_signed_poly(e) is None and _one_signed_poly(e.xreplace(to_rest)) is not None
    small, big = sides
    if prone(small) and not prone(big):
        q, tol = small, big
    elif prone(big) and not prone(small):
        q, tol = -big, -small
    else:
        return
    pq = _one_signed_poly(q.xreplace(to_rest))
    pt = _one_signed_poly(tol)
    if pq is None or pq[1] != -1 or pq[0] is None or pt is None or pt[1] != 1 or pt[0] is None:
        return              # q not established non-positive / tolerance 0, constant, or not a one-signed polynomial of the cells
    # magnitude bound: |coefficients|, every remainder of a running row sum back to the whole row sum
    xrs_rest = {sym(rest): sym(cell) + sym(rest) for k, (cell, rest) in subst.items() if k.startswith('X_rs')}
    M = sp.expand(sum(abs(c) * sp.Mul(*[g ** k for g, k in zip(pq[0].gens, mon)]).xreplace(xrs_rest)
                      for mon, c in pq[0].terms()))
    T = sp.expand(tol.xreplace(to_rest))
    gens = sorted(M.free_symbols | T.free_symbols, key=str)
    supp = lambda P: {frozenset(g for g, k in zip(gens, mon) if k) for mon, _ in sp.Poly(P, *gens).terms()}
    monos = lambda P: {mon for mon, _ in sp.Poly(P, *gens).terms()}
    sM, sT = supp(M), supp(T)
    construct = '%s: %s' % (r.impl, u(stmt)[:140])
    # the cell of X is positive as soon as the pair has counts in one direction (it starts as C[i,j] + C[j,i] and the
    # positive root keeps it positive): it is not an independent way for the tolerance to vanish
    xcells = {g for g in gens if g.name.startswith('X[')}
    counts = {g for g in gens if g.name.startswith('C[')}
    naked = sorted((m for m in sM if m & counts and not any(t - xcells <= m for t in sT)), key=lambda m: (len(m), sorted(map(str, m))))
    if naked:
        m = naked[0]
        zero = sorted({str(g) for t in sT for g in t} - {str(g) for g in m})
        ck.bad(rule, r.mod, stmt, r.fn.name, construct,
               '%s: the asserted quantity `%s` is non-positive only through `row sum - cell >= 0`, which holds up to the rounding of the '
               'incrementally updated row sums (error relative to the whole row sum): it can exceed 0 by about 1e-16 * (%s). The tolerance '
               '`%s` is exactly 0 whenever %s = 0, also where %s > 0 (admitted: counts in one direction only, no self-counts), so the '
               'assertion then demands the exact sign and raises AssertionError for admissible counts instead of returning a model '
               '(the reference tolerance is proportional to (C[i,j] + C[j,i]) * X_rs[i] * X_rs[j])' % (
                   r.impl, _short(sp.factor(q), 100), _short(sp.factor(M.xreplace(from_rest)), 100), _short(sp.factor(tol), 100),
                   ', '.join(zero[:3]), ' * '.join(sorted(str(g) for g in m))))
    elif monos(M) <= monos(T):
        ck.ok(rule, r.mod, stmt, construct, 'the tolerance is at least a multiple of the magnitude bound of the asserted quantity '
              '(it vanishes only where the quantity vanishes identically)')


def _sweep_asserts(ck, r, tag, ex):
    """Every assertion inside an update body is implied by the invariants of the sweep (in exact arithmetic; the
    rounding of the running sums is C12.D1.no-zero-tolerance-sign-assert / running-sum-rederived), for EVERY
    admitted state including pairs without counts.  Necessary for "terminates with a model rather than an internal
    assertion failure".  The asserted comparison is read off the symbolic execution as the sign of a polynomial in the
    cells; after writing each row sum as `cell + remainder` all indeterminates are non-negative, so a polynomial
    whose coefficients all have one sign has that sign everywhere.  Three-valued: implied -> ok; the opposite sign is
    established, or a STRICT comparison whose two sides both vanish for a pair without counts -> violation; no sign
    established -> not decided."""
    rule = 'C12.D1.sweep-assert-implied'
    mod, F, impl = r.mod, r.fn.name, r.impl

    def holds(t):
        """'ok' | ('bad', why) | None"""
        if isinstance(t, bool):
            return 'ok' if t else ('bad', 'the asserted condition is constantly false')
        if not isinstance(t, _Ite):
            return None
        e = _COND_EXPR.get(t.c) if t.c[0] == 'P' else None
        sg = _sign_of(e, tag) if e is not None else None
        a, b = holds(t.a), holds(t.b)
        if a == 'ok' and b == 'ok':
            return 'ok'
        if sg is None:
            return None
        kind, at_zero = sg
        if kind == 'pos':
            return a
        if kind in ('nonpos', 'neg', 'zero'):
            return b
        # kind == 'nonneg': e > 0 where every indeterminate is positive, e >= 0 everywhere
        if isinstance(b, tuple) and at_zero == 0 and a == 'ok':
            return ('bad', 'the comparison is strict, but for %s both sides are exactly 0 (every term of their difference carries one of '
                           'these factors), so it is False there' % _ZERO_WHAT[tag])
        if isinstance(a, tuple) and b == 'ok':
            return ('bad', 'the difference of its two sides has the opposite sign whenever the counts and the cells of X involved are '
                           'positive (all coefficients of one sign after writing each row sum as cell + non-negative remainder)')
        if isinstance(a, tuple) and isinstance(b, tuple):
            return a
        return None
    for t, stmt, depth, late in ex.assert_sites:
        construct = '%s: %s' % (impl, u(stmt)[:140])
        v = holds(t)
        if v == 'ok':
            ck.ok(rule, mod, stmt, construct, 'implied by the invariants of the sweep (non-negative counts and cells, row sum = cell + '
                  'non-negative remainder), also for pairs without counts')
            if depth == 0 and not late:
                try:
                    _assert_tolerance(ck, r, tag, ex, stmt)
                except (AnalysisIncomplete, AttributeError, KeyError, IndexError, TypeError, ValueError, RecursionError):
                    pass        # an additional necessary condition; the shapes it does not model are left to the rule above
        elif isinstance(v, tuple) and depth == 0 and not late and _closed(t):
            ck.bad(rule, mod, stmt, F, construct,
                   '%s: the assertion inside the %s update fails for admitted count matrices: %s. The estimator then ends in an internal '
                   'AssertionError instead of a model (the reference asserts c <= tolerance with a NON-strict comparison: c and the '
                   'tolerance are both 0 for a pair without counts)' % (impl, tag, v[1]))
        else:
            ck.missing(rule, '%s: `%s` inside the %s update: not decided whether it holds for every admitted state%s' % (
                impl, u(stmt)[:80], tag, ' (under a branch / after the update)' if depth or late else ''))


def _sign_known_nonneg(t, on, off):
    """The case (conditions `on` hold, conditions `off` do not) implies t >= 0.
    Conditions are the syntactic sign tests of the implementation:
    ('P', e): e > 0, ('NN', e): e >= 0."""
    sp = _sp()
    pos, neg = str(sp.expand(t)), str(sp.expand(-t))
    return (('P', pos) in on or ('NN', pos) in on        # t > 0 / t >= 0 holds
            or ('P', neg) in off or ('NN', neg) in off)   # not (-t > 0) / not (-t >= 0)


def _cancelling_sums(leaf):
    """Sums of the shape  k*(t + sqrt(t**2 + e))  inside `leaf`: (t, e, text).
    For t < 0 such a sum is the difference of the two non-negative numbers
    sqrt(t**2 + e) and |t|, which agree to all digits as soon as |e| < eps*t**2
    (and exactly when e == 0): its floating-point value then has no correct
    digit (it is exactly 0 for a true value of about e / (2|t|))."""
    sp = _sp()
    out = []
    if isinstance(leaf, bool):
        return out
    half = sp.Rational(1, 2)
    for A in sp.preorder_traversal(leaf):
        if not A.is_Add:
            continue
        for arg in A.args:
            k, root = arg.as_coeff_Mul()
            if not (root.is_Pow and root.exp == half and k.is_number and k != 0):
                continue
            R = sp.expand(root.base)
            t = (A - arg) / k
            t2 = sp.expand(t ** 2)
            e = sp.expand(R - t2)
            nR, ne = (len(sp.Add.make_args(x)) for x in (R, e))
            # the radicand CONTAINS t**2: subtracting t**2 cancels monomials of the radicand
            if t != 0 and ne < nR:
                out.append((t, e, '%s + sqrt((%s)**2 + e)' % (_short(t), _short(t))))
    return out


def _short(x, n=70):
    t = str(x)
    return t if len(t) <= n else t[:n] + '...'


def _root_cancellation(ck, r, L, ex):
    """Every case of the new pair value is free of the cancelling form
    `t + sqrt(t**2 + e)` with t of unknown or negative sign.  The sign of t
    in a case is what the implementation's own sign tests (truth table over
    the syntactic conditions of the value's decision tree) establish."""
    rule = 'C12.D3.root.no-cancellation'
    sp = _sp()
    mod, F, impl = r.mod, r.fn.name, r.impl
    vt = ex.phase1['X[i,j]']
    node = ex.where.get('X[i,j]') or L
    for nm, val in ex.scalars1.items():
        if nm in ex.where and _teq(val, vt) and isinstance(ex.where[nm], ast.stmt):
            node = ex.where[nm]
            break
    cs = sorted(_conds(vt))
    if len(cs) > 6:
        ck.missing(rule, '%s: too many case distinctions in the new pair value' % impl)
        return
    found, bad = 0, None
    for bits in itertools.product((True, False), repeat=len(cs)):
        leaf = vt
        for c, pol in zip(cs, bits):
            leaf = _restrict(leaf, c, pol)
        on = {c for c, pol in zip(cs, bits) if pol}
        off = {c for c, pol in zip(cs, bits) if not pol}
        # impossible sign combinations of one quantity (e > 0 but not e >= 0)
        if not _feasible(on, off):
            continue
        for t, e, txt in _cancelling_sums(leaf):
            found += 1
            if not _sign_known_nonneg(t, on, off) and bad is None:
                case = ' and '.join('%s%s(%s)' % ('' if pol else 'not ', c[0], _short(c[1], 40)) for c, pol in zip(cs, bits)) or 'always'
                bad = (t, e, case)
    if not found:
        ck.ok(rule, mod, node, '%s: new pair value' % impl, 'no sum of the form t + sqrt(t**2 + e) in the new value')
        return
    if bad is None:
        ck.ok(rule, mod, node, '%s: root of the pair quadratic' % impl,
              'every sum t + sqrt(t**2 + e) is evaluated only where the sign tests establish t >= 0 (no cancellation)')
        return
    if not _closed(vt):
        ck.missing(rule, '%s: the new pair value involves operands outside the located roles' % impl)
        return
    t, e, case = bad
    ck.bad(rule, mod, node, F, '%s: root of the pair quadratic' % impl,
           '%s: the new X[i,j] is `t + sqrt(t**2 + e)` with t = -b, e = -4ac = %s [case %s] and no sign test establishes t >= 0: '
           'for b > 0 (the ordinary case) this subtracts two nearly equal numbers; once |4ac| < 2**-52 * b**2 (stationary weights '
           'of i and j ~1e16 apart, e.g. eight links with 100:1 counts) sqrt returns b exactly and X[i,j] becomes exactly 0: an '
           'observed transition gets probability 0 (log-likelihood -inf, below the transpose estimate) and is returned as converged. '
           'Use -2c / (b + sqrt(D)) where b > 0, the textbook form where b <= 0 (t = %s)'
           % (impl, _short(sp.factor(e) if len(str(e)) < 2000 else e, 60), _short(case, 60), _short(t, 60)))


def _log_guard(ck, r, tag, L, ex, acc):
    rule = 'C12.D3.log-guard'
    sp = _sp()
    mod, F, impl = r.mod, r.fn.name, r.impl
    LOGf = sp.Function('LOG')
    node = ex.where.get('logl') or L
    g = r.mod.parent.get(node)
    node = g if isinstance(g, ast.If) else node
    if acc is None:
        ck.missing(rule, '%s: no likelihood term in the %s loop' % (impl, tag))
        return
    cs = sorted(_conds(acc))
    n = 0
    if len(cs) > 6:
        ck.missing(rule, '%s: too many case distinctions around the likelihood term' % impl)
        return
    verdict, why = 'match', ''
    for bits in itertools.product((True, False), repeat=len(cs)):
        leaf = acc
        for c, pol in zip(cs, bits):
            leaf = _restrict(leaf, c, pol)
        on = {c for c, pol in zip(cs, bits) if pol}
        off = {c for c, pol in zip(cs, bits) if not pol}
        if isinstance(leaf, bool) or not _feasible(on, off):
            continue
        logs = leaf.atoms(LOGf)
        for lg in logs:
            n += 1
            num = sp.fraction(sp.together(lg.args[0]))[0]
            if ('P', str(sp.expand(num))) not in on and ('NN', str(sp.expand(-num))) not in off:
                verdict = 'near' if _closed(acc) else 'far'
                why = 'log(%s) is evaluated when %s' % (lg.args[0], ' and '.join('%s%s(%s)' % ('' if pol else 'not ', c[0], c[1]) for c, pol in zip(cs, bits)) or 'always')
    if n == 0:
        ck.missing(rule, '%s: the %s loop adds no log term to the accumulator' % (impl, tag))
        return
    ck.decide(verdict, rule, mod, node, F, '%s: %s' % (impl, (u(node.test) if isinstance(node, ast.If) else u(node))[:100]),
              'the log term is added only when its argument is positive',
              '%s: %s; the guard must test the very quantity whose logarithm is taken (> 0); otherwise '
              '0 * log(0) = NaN enters the log-likelihood and the convergence test stops the iteration '
              'after one sweep' % (impl, why))


def d3_siblings(ck, rp, mp_model, rx, mx_model):
    rule = 'C12.D3.siblings'
    agree = 0
    unmodelled = set(mp_model.pop('_skipped', [])) | set(mx_model.pop('_skipped', []))
    for k in sorted(k for k in set(mp_model) | set(mx_model) if k.startswith('_asserts.')):
        a, b = mp_model.pop(k, None), mx_model.pop(k, None)
        if a != b:
            ck.observe(rule, rp.mod, rp.loop, 'assertions inside the %s update differ: py %s | pyx %s' % (k.split('.')[1], a, b))
    keys = sorted(k for k in set(mp_model) | set(mx_model) if k.endswith('.every') or k.split('.')[0] not in unmodelled)
    for k in keys:
        a, b = mp_model.get(k), mx_model.get(k)
        if a is None or b is None:
            ck.missing(rule, 'role `%s` extracted from only one implementation' % k)
            continue
        if isinstance(a, _Unknown) or isinstance(b, _Unknown):
            v, why = ('match', '') if str(a) == str(b) else ('far', 'not recognised in one implementation: %s | %s' % (a, b))
        elif isinstance(a, (str, list, tuple)) or isinstance(b, (str, list, tuple)):
            v, why = ('match', '') if a == b else ('near', '%s | %s' % (a, b))
        else:
            v, why = cmp_tree(a, b)
            if v == 'near' and not _closed(b):
                v = 'far'
        sa_, sb_ = (a if isinstance(a, str) else _show(a) if not isinstance(a, (list, tuple)) else '; '.join(a)), \
                   (b if isinstance(b, str) else _show(b) if not isinstance(b, (list, tuple)) else '; '.join(b))
        if v == 'match':
            agree += 1
            ck.ok(rule, rp.mod, rp.loop, '%s: %s' % (k, sa_[:110]), 'same value in builders.py and libmsm.pyx')
        elif v == 'near':
            ck.bad(rule, rp.mod, rp.loop, '_prinz_mle_py <-> _mle_prinz_dense', '%s' % k,
                   'the pure-Python and the compiled estimator differ in `%s` (after symbolic execution; sqrt/log/len spellings '
                   'canonicalised): py: %s  |  pyx: %s  (%s): the two implementations no longer compute the same update / take '
                   'the same branch' % (k, sa_[:140], sb_[:140], why[:200]))
        else:
            ck.missing(rule, 'role `%s` could not be compared: %s' % (k, why[:160]))
    if agree == len(keys) and not unmodelled:
        ck.floor(rule, agree, 15, 'agreeing roles')


def _literal_number(e, depth=0):
    """Value of an arithmetic expression over numeric LITERALS (`10 ** 5`, `1e-10`, `-1`, `int(1e5)`), folded by the
    rule's own arithmetic; None when it is anything else (a name, a call, an exponent that is not a small integer)."""
    if depth > 8:
        return None
    v = const_value(e)
    if isinstance(v, (int, float)) and not isinstance(v, bool):
        return v
    if isinstance(e, ast.UnaryOp) and isinstance(e.op, (ast.USub, ast.UAdd)):
        x = _literal_number(e.operand, depth + 1)
        return None if x is None else (-x if isinstance(e.op, ast.USub) else x)
    if isinstance(e, ast.Call) and call_name(e) in ('int', 'float') and len(e.args) == 1 and not e.keywords:
        x = _literal_number(e.args[0], depth + 1)
        if x is None or (call_name(e) == 'int' and x != int(x)):
            return None
        return int(x) if call_name(e) == 'int' else float(x)
    if isinstance(e, ast.BinOp):
        a, b = _literal_number(e.left, depth + 1), _literal_number(e.right, depth + 1)
        if a is None or b is None:
            return None
        if isinstance(e.op, ast.Add):
            return a + b
        if isinstance(e.op, ast.Sub):
            return a - b
        if isinstance(e.op, ast.Mult):
            return a * b
        if isinstance(e.op, ast.Div) and b != 0:
            return a / b
        if isinstance(e.op, ast.Pow) and isinstance(b, int) and abs(b) <= 64 and isinstance(a, (int, float)) and abs(a) <= 1e6 and (a != 0 or b >= 0):
            return a ** b
    return None


def d3_defaults(ck, rp, rx):
    """`builders._prinz_mle_py(C)` and `libmsm._mle_prinz_dense(C)` agree on every matrix only if the parameters that
    decide when the iteration stops - the tolerance and the iteration cap, located as the 2nd / 3rd parameter of each
    implementation - have the same default: another tolerance stops at another iterate (the models differ by more
    than either tolerance), another cap turns a model into a non-convergence warning."""
    from ..core import param_default
    rule = 'C12.D3.siblings.defaults'
    for what, a, b in (('convergence tolerance', rp.tol, rx.tol), ('iteration cap', rp.cap, rx.cap)):
        da, db = param_default(rp.fn, a), param_default(rx.fn, b)
        construct = 'default of the %s: py %s=%s | pyx %s=%s' % (what, a, u(da) if da is not None else '<none>', b, u(db) if db is not None else '<none>')
        if da is None and db is None:
            ck.ok(rule, rp.mod, rp.fn, construct, 'neither implementation has a default')
            continue
        va, vb = (None if d is None else _literal_number(d) for d in (da, db))
        if da is None or db is None or va is None or vb is None:
            ck.missing(rule, '%s: not two literal numbers: not compared' % construct)
            continue
        ck.check(va == vb, rule, rp.mod, rp.fn, '_prinz_mle_py <-> _mle_prinz_dense', 'default of the %s' % what,
                 'same default in builders.py and libmsm.pyx (%s)' % u(da),
                 'the %s defaults to %s in builders._prinz_mle_py and to %s in libmsm._mle_prinz_dense: called the same way (`f(C)`, as '
                 '`mle` and `_prinz_mle` do) the two implementations stop at different iterates / one of them ends in the non-convergence '
                 'warning, so they no longer agree on every count matrix' % (what, u(da), u(db)))


# ---------------------------------------------------------------------------
# D1

def d1_no_exact_float_asserts(ck, mod, fn):
    rule = 'C12.D1.no-exact-float-assert'
    fi = finfo(mod, fn)
    n = 0
    for s in walk_local(fn):
        if not isinstance(s, ast.Assert):
            continue
        n += 1
        bad = None
        test = fi.expand(s.test, strict=False)
        for c in ast.walk(test):
            if isinstance(c, ast.Compare) and any(isinstance(op, (ast.Eq, ast.NotEq)) for op in c.ops):
                sides = [c.left] + list(c.comparators)
                has_red = any(any(isinstance(x, ast.Call) and ((isinstance(x.func, ast.Attribute) and x.func.attr in ('sum', 'mean', 'prod'))
                                                                or call_name(x) in ('np.sum', 'np.mean', 'sum')) for x in ast.walk(sd)) for sd in sides)
                has_const = any(isinstance(const_value(sd), (int, float)) for sd in sides)
                if has_red and has_const:
                    bad = c
        ck.check(bad is None, rule, mod, s, fn.name, u(s)[:140], 'no exact equality on a floating-point reduction',
                 'the assertion compares a floating-point sum with a constant for EXACT equality: it fails '
                 'for most inputs purely through rounding of the final division (internal AssertionError '
                 'instead of a model)')
        # zero-tolerance SIGN assertion on a cancellation-prone quantity (finding G4):
        # inside the sweep, `assert E <= 0` / `E >= 0` against the literal 0 where E is a
        # product/sum containing a DIFFERENCE of cells of arrays that the sweep itself
        # updates (running row sums): the sign of such a difference is only exact up to
        # rounding, so the assertion aborts on admissible counts
        if not _in_loop(mod, s, fn):
            continue
        stored = {u(t.value) for st, t in subscript_stores(fn) if _in_loop(mod, st, fn)}
        for c in conjuncts(s.test, True) or []:
            if not isinstance(c, Cmp) or c.op not in (ast.Lt, ast.LtE, ast.Gt, ast.GtE):
                continue
            for val, other in ((c.lhs, c.rhs), (c.rhs, c.lhs)):
                if const_value(other) not in (0, 0.0) or isinstance(const_value(other), bool):
                    continue
                e = fi.expand(val, strict=False)
                diffs = [b for b in ast.walk(e) if isinstance(b, ast.BinOp) and isinstance(b.op, ast.Sub) and
                         any(isinstance(x, ast.Subscript) and u(x.value) in stored for x in ast.walk(b))]
                n += 1
                ck.check(not diffs, 'C12.D1.no-zero-tolerance-sign-assert', mod, s, fn.name, u(s)[:140],
                         'no sign assertion with zero tolerance on a difference of running sums',
                         'the asserted quantity contains `%s`, a difference of cells the sweep updates incrementally; '
                         'it is non-negative only up to rounding, so `%s` (literal 0, no tolerance) raises '
                         'AssertionError for admissible counts (e.g. a state whose only neighbour is j) instead of returning a model'
                         % (u(diffs[0])[:60] if diffs else '', u(s)[:60]))
    return n


def d1_running_sums(ck, r):
    """A running sum (X_rs: initialised from X, then only ever changed by
    `X_rs[k] = X_rs[k] + delta` inside the iteration) carries the rounding of
    every increment of every earlier sweep: its error is absolute, of the size
    eps * (largest value it ever had), while the sums themselves may shrink by
    orders of magnitude over the (up to max_iter) sweeps.  A SIGN test on a
    difference `X_rs[k] - X[k, l]` (mathematically >= 0: a row sum minus one of
    its non-negative summands) is then decided by that stale error.  Necessary
    condition for "never an internal assertion failure": if the sweep asserts
    the sign of an expression containing such a difference, the running sums
    are re-derived from X (X_rs = X.sum(axis=1)) in every sweep, i.e. no path
    leads from the assertion round the iteration loop back to the assertion
    without passing a re-derivation."""
    rule = 'C12.D1.running-sum-rederived'
    mod, fn, fi, impl, loop = r.mod, r.fn, r.fi, r.impl, r.loop
    F = fn.name
    X, R = r.X, r.Xrs

    def is_cell(e, arr):
        return isinstance(e, ast.Subscript) and isinstance(e.value, ast.Name) and e.value.id == arr

    # sign assertions inside the sweep on an expression that contains X_rs[..] - <term with a cell of X> (either order)
    sites = []
    for a in ast.walk(loop):
        if not isinstance(a, ast.Assert):
            continue
        for c in conjuncts(a.test, True) or []:
            if not isinstance(c, Cmp) or c.op not in (ast.Lt, ast.LtE, ast.Gt, ast.GtE):
                continue
            hit = None
            for side in (c.lhs, c.rhs):
                e = fi.expand(side, strict=False, stop=r.states)
                for b in ast.walk(e):
                    if isinstance(b, ast.BinOp) and isinstance(b.op, ast.Sub) and (
                            (is_cell(b.left, R) and any(is_cell(x, X) for x in ast.walk(b.right))) or
                            (is_cell(b.right, R) and any(is_cell(x, X) for x in ast.walk(b.left)))):
                        hit = b
                        break
                if hit is not None:
                    break
            if hit is not None:
                sites.append((a, hit))
                break
    if not sites:
        ck.ok(rule, mod, loop, '%s: no sign assertion on a difference row sum - summand inside the sweep' % impl,
              'nothing in the sweep aborts on the sign of a rounding-prone difference')
        return
    # how X_rs changes inside the iteration
    incremental, rederive, other = [], [], []
    sumforms = CS('%s.sum(axis=1)' % X, '%s.sum(axis=-1)' % X, '%s.sum(1)' % X, '%s.sum(-1)' % X)
    for st in ast.walk(loop):
        if isinstance(st, ast.AugAssign):
            tg = st.target
            if is_cell(tg, R):
                incremental.append(st)
            elif isinstance(tg, ast.Name) and tg.id == R:
                other.append(st)
        elif isinstance(st, (ast.Assign, ast.AnnAssign)) and getattr(st, 'value', None) is not None:
            for tg in (st.targets if isinstance(st, ast.Assign) else [st.target]):
                back = [t for t, (_, _, bk) in getattr(r, 'promoted', {}).items() if bk is st]
                if back:
                    # write-back of a row sum that lived in a scalar over the inner loop: incremental iff the scalar is
                    (incremental if back[0] in _carried_scalars(r.pair_j) else other).append(st)
                elif is_cell(tg, R):
                    ev = fi.expand(st.value, strict=False, stop=r.states)
                    # the new value of the cell is a function of its own previous value
                    (incremental if any(is_cell(x, R) and u(x.slice) == u(tg.slice) for x in ast.walk(ev)) else other).append(st)
                elif isinstance(tg, ast.Name) and tg.id == R:
                    if fi.xu(st.value, stop=r.states) in sumforms:
                        rederive.append(st)
                    else:
                        other.append(st)
                elif isinstance(tg, (ast.Tuple, ast.List)) and any(isinstance(x, ast.Name) and x.id == R for x in ast.walk(tg)):
                    other.append(st)
    uncovered = [a for a, _ in sites
                 if fi.cfg.reachable(a, loop, avoiding=rederive) and fi.cfg.reachable(loop, a, avoiding=rederive)]
    a0, d0 = sites[0]
    construct = '%s: running row sums vs. sign assertion on `row sum - summand` in the sweep' % impl
    if not uncovered:
        ck.ok(rule, mod, rederive[0] if rederive else a0, construct,
              'the row sums are re-derived from X between any two sweeps that reach the assertion (%s)' % u(rederive[0])[:60])
        return
    if other:
        ck.missing(rule, '%s: `%s` changes the row sums inside the iteration in a way the rule does not model' % (impl, u(other[0])[:80]))
        return
    if not incremental:
        ck.missing(rule, '%s: no incremental update of the row sums found inside the iteration' % impl)
        return
    ck.bad(rule, mod, uncovered[0], F, construct,
           '%s: inside `for %s in %s` the row sums %s are initialised once and then only updated incrementally (`%s`), while `%s` '
           'asserts the sign of an expression containing `%s`: the rounding of all earlier increments stays in %s as an ABSOLUTE '
           'error while the row sums of a strongly directional chain shrink by a factor of several per sweep, so the difference '
           '(exactly 0 for a state with one neighbour) turns negative beyond any fixed relative tolerance: AssertionError instead of '
           'a model (e.g. 9-state line, 300 counts forward / 1 back). Re-derive %s = %s.sum(axis=1) in every sweep' % (
               impl, u(loop.target), u(loop.iter), R, u(incremental[0])[:45], u(uncovered[0])[:30], u(d0)[:30], R, R, X))


def _in_loop(mod, node, fn):
    p = mod.parent.get(node)
    while p is not None and p is not fn:
        if isinstance(p, (ast.For, ast.While)):
            return True
        p = mod.parent.get(p)
    return False


# ---------------------------------------------------------------------------
# D2

def _cap_verdict(cmpn, lv, cap):
    """Does `lhs REL rhs` hold exactly when lv == cap - 1 (and not one step earlier)?"""
    sp = _sp()
    try:
        d = symx.lift(cmpn.lhs) - symx.lift(cmpn.rhs)
    except AnalysisIncomplete:
        return 'far'
    n, m = sp.Symbol(lv, real=True), sp.Symbol(cap, real=True)
    if d.free_symbols - {n, m} or n not in d.free_symbols:
        return 'far'
    at_end, before = sp.expand(d.subs(n, m - 1)), sp.expand(d.subs(n, m - 2))
    if at_end.free_symbols or before.free_symbols:
        return 'near' if cmpn.rel in ('==', '<', '<=', '>', '>=') and at_end.free_symbols <= {m} else 'far'
    holds = {'==': lambda x: x == 0, '<': lambda x: x < 0, '<=': lambda x: x <= 0, '>': lambda x: x > 0,
             '>=': lambda x: x >= 0}.get(cmpn.rel)
    if holds is None:
        return 'far'
    return 'match' if bool(holds(at_end)) and not bool(holds(before)) else 'near'


_BUILTIN_WARNINGS = ('Warning', 'UserWarning', 'RuntimeWarning', 'DeprecationWarning', 'FutureWarning', 'PendingDeprecationWarning',
                     'SyntaxWarning', 'ImportWarning', 'UnicodeWarning', 'BytesWarning', 'ResourceWarning', 'EncodingWarning')


def _category_verdict(ck, mod, fi, cat):
    """match: the category is (an import alias of) ConvergenceWarning; near: none given / a builtin warning class / a
    constant; far: a name the rule cannot resolve."""
    if cat is None:
        return 'near'
    e = fi.expand(cat)
    txt = u(e)
    if txt.endswith('ConvergenceWarning') or _qualified(ck, mod, txt).endswith('ConvergenceWarning'):
        return 'match'
    if isinstance(e, ast.Constant) or txt.split('.')[-1] in _BUILTIN_WARNINGS:
        return 'near'
    return 'far'


def d2_warning(ck, r):
    rule = 'C12.D2.warning'
    mod, fn, fi, loop = r.mod, r.fn, r.fi, r.loop
    check_warn_calls(ck, rule + '.wellformed', mod, [(fn.name, fn)])
    ws = [c for c in calls_in(fn, 'warnings.warn', 'warn')]
    lv, cap = r.n_iter, r.cap
    for c in ws:
        cat = c.args[1] if len(c.args) > 1 else kwarg(c, 'category')
        ck.decide(_category_verdict(ck, mod, fi, cat), rule + '.category', mod, c, fn.name, u(c)[:120],
                  'category is ConvergenceWarning', 'the non-convergence warning must carry category ConvergenceWarning')
        ws_stmt = mod.enclosing_stmt(c)
        g = mod.parent.get(ws_stmt)
        if not isinstance(g, ast.If):
            if g is fn:
                ck.bad(rule + '.reachable', mod, c, fn.name, u(c)[:80], 'warning is not guarded by an iteration-cap test')
            else:
                ck.missing(rule + '.reachable', '%s: the warning sits in a `%s` (%s), not under a test of the iteration cap: not modelled' % (
                    r.impl, type(g).__name__.lower(), mod.loc(ws_stmt)))
        else:
            pol = any(ws_stmt is x for x in g.body)
            cs = conjuncts(fi.expand(g.test), pol)
            if cs is None or len(cs) != 1 or not isinstance(cs[0], Cmp):
                ck.missing(rule + '.reachable', 'guard of the convergence warning is not a single comparison: %s' % u(g.test)[:100])
            else:
                v = _cap_verdict(cs[0], lv, cap)
                ck.decide(v, rule + '.reachable', mod, g, fn.name, u(g.test),
                          'the warning fires exactly when the iteration cap was exhausted',
                          'after `for %s in range(%s)` is exhausted %s equals %s - 1 (Python range semantics, also in '
                          'Cython); the condition `%s` does not hold exactly then, so a non-converged model is returned silently '
                          '(or a converged one is reported as failed)' % (lv, cap, lv, cap, u(g.test)))
        # must come after the loop
        if _inside(mod, c, loop):
            ck.missing(rule + '.reachable', '%s: the warning is issued inside the iteration loop (%s): not modelled' % (r.impl, mod.loc(ws_stmt)))
        else:
            ck.check(fi.cfg.reachable(loop, ws_stmt), rule + '.reachable', mod, c, fn.name,
                     'position of the warning', 'warning is evaluated after the iteration loop', 'the cap test must follow the loop')
    ck.floor(rule + '.wellformed', len(ws), 1, 'convergence warning in %s' % fn.name)
    return d2_convergence(ck, r)


def _liftable(*es):
    try:
        for e in es:
            symx.lift(e)
        return True
    except AnalysisIncomplete:
        return False


def _change_vs_tol(small, big, logl, old, tol):
    """`small < big` read as the sign of D = big - small.  True: D is
    |logl - old| - tol (the change is the big side); False: D is
    tol - |logl - old|; None: neither (or not liftable)."""
    sp = _sp()
    try:
        D = symx.lift(big) - symx.lift(small)
    except AnalysisIncomplete:
        return None
    l, o, t = (sp.Symbol(n, real=True) for n in (logl, old, tol))
    want = sp.Abs(l - o) - t
    if sp.expand(D - want) == 0:
        return True
    if sp.expand(D + want) == 0:
        return False
    return None


def d2_convergence(ck, r):
    """`break` of the iteration loop: the loop continues (and remembers the
    likelihood) exactly while |logl - old| > tol."""
    rule = 'C12.D2.convergence'
    mod, fn, fi, loop = r.mod, r.fn, r.fi, r.loop
    F = fn.name
    bad_msg = 'the loop must continue (oldlogl = logl) while abs(logl - oldlogl) > tol and break otherwise'
    brs = [x for x in ast.walk(loop) if isinstance(x, ast.Break) and _loops_between(mod, x, loop) == []]
    if len(brs) != 1:
        ck.missing(rule, '%s: exactly one `break` of the iteration loop (found %d)' % (r.impl, len(brs)))
        return None
    g = _esc_guard(mod, brs[0], loop)
    if not g or len(g) != 1:
        ck.missing(rule, '%s: the `break` is not under exactly one `if`' % r.impl)
        return None
    ifn, pb = g[0]
    # the remembered likelihood: the name that is assigned the accumulator at the level of the iteration loop
    upd = [s for s in ast.walk(loop) if isinstance(s, ast.Assign) and len(s.targets) == 1 and isinstance(s.targets[0], ast.Name)
           and s.targets[0].id != r.logl and _loops_between(mod, s, loop) == [] and fi.xu(s.value, stop=(r.logl,)) == r.logl]
    # ... and that the test of the `break` reads (a copy of the accumulator made for another purpose is not it)
    cands = {s.targets[0].id for s in upd} - set(r.acc.values())
    in_test = {n.id for n in ast.walk(fi.expand(ifn.test, stop=(r.logl,) + tuple(sorted(cands)))) if isinstance(n, ast.Name)}
    if cands & in_test:
        cands &= in_test
    upd = [s for s in upd if s.targets[0].id in cands]
    olds = sorted(cands)
    if not olds:
        # nothing is assigned the accumulator: is there a remembered value in the test that is never refreshed?
        seen = {n.id for n in ast.walk(ifn.test) if isinstance(n, ast.Name)}
        others = sorted(seen - {r.tol, r.logl, 'abs', 'np', 'fabs', 'math'})
        if len(others) == 1 and r.logl in seen and not _scalar_writes(loop, others[0]):
            ck.bad(rule, mod, ifn, F, u(ifn.test), bad_msg + ': `%s` is compared with `%s` but never set to it in the loop' % (others[0], r.logl))
            return None
    if len(olds) != 1:
        ck.missing(rule, '%s: `<old> = %s` in the iteration loop (found %d candidates)' % (r.impl, r.logl, len(olds)))
        return None
    r.old = olds[0]
    sc = {r.tol, r.logl, r.old}
    # strip `not`s; the loop continues when `test` has polarity `cont`
    test, cont = fi.expand(ifn.test, stop=(r.logl, r.old)), not pb
    while isinstance(test, ast.UnaryOp) and isinstance(test.op, ast.Not):
        test, cont = test.operand, not cont
    less = None
    if isinstance(test, ast.Compare) and len(test.ops) == 1:
        less = Cmp(test.left, type(test.ops[0]), test.comparators[0]).as_less()
    if less is None:
        # a boolean combination / call: may be an equal spelling of the reference test
        ck.decide('far', rule, mod, ifn, F, u(ifn.test), '', bad_msg)
        return None
    small, strict, big = less
    forms = []
    for f in ('abs', 'np.abs', 'fabs', 'math.fabs', 'np.fabs'):
        forms += ['%s(%s - %s)' % (f, r.logl, r.old), '%s(%s - %s)' % (f, r.old, r.logl)]
    closed = _closed_over(test, sc)
    # `small < big` as the sign of D = big - small: the reference is D == |logl - old| - tol (tol on the small side)
    sym = _change_vs_tol(small, big, r.logl, r.old, r.tol)
    if sym is not None:
        tol_small = sym
    else:
        if u(small) == r.tol:
            change, tol_small = big, True
        elif u(big) == r.tol:
            change, tol_small = small, False
        else:
            ck.decide('near' if closed and sym is None and _liftable(small, big) else 'far', rule, mod, ifn, F, u(ifn.test), '',
                      bad_msg + ' (the change must be compared with the tolerance)')
            return None
        vb = classify(change, forms, scope=sc)
        if vb[0] != 'match':
            ck.decide(vb if closed else 'far', rule, mod, ifn, F, u(ifn.test), '', bad_msg)
            return None
    if not cont and not tol_small and not strict:
        # `break if change <= tol`: the complementary comparison in the other branch: equal except for NaN likelihoods
        ck.missing(rule, '%s: the loop is left when `%s` holds (complement of the reference test): equivalence for NaN '
                   'likelihoods not decided' % (r.impl, u(test)))
        return None
    if not (cont and tol_small and strict):
        ck.bad(rule, mod, ifn, F, u(ifn.test), bad_msg + ' (the loop continues %s `%s`)' % ('while' if cont else 'unless', u(test)))
        return None
    good = upd
    other = [s for s in ast.walk(loop) if isinstance(s, (ast.Assign, ast.AugAssign)) and s not in upd and
             r.old in [t.id for t in (s.targets if isinstance(s, ast.Assign) else [s.target]) if isinstance(t, ast.Name)]]
    if other:
        ck.decide('near' if _closed_over(other[0].value, sc) else 'far', rule, mod, other[0], F, u(other[0]), '',
                  bad_msg + ': `%s` is also changed by `%s`' % (r.old, u(other[0])[:80]))
        return None
    # on every path back to the loop head the old likelihood is replaced by the new one
    covered = any(not fi.cfg.reachable(ifn, loop, avoiding=[s]) for s in good)
    ck.check(covered, rule, mod, ifn, F, u(ifn.test),
             'continue while the change of the pseudo log-likelihood exceeds tol, else break', bad_msg +
             ': a continuing sweep can reach the next one without `%s = %s`' % (r.old, r.logl))
    # start value of the remembered likelihood
    outside = [s for s in fi.rd.defs_at(loop, r.old) if s not in ('PARAM', 'UNBOUND') and not _inside(mod, s, loop)]
    init = None
    if len(outside) == 1 and isinstance(outside[0], ast.Assign):
        init = const_value(fi.expand(outside[0].value))
    if init is None:
        ck.missing(rule, '%s: constant start value of `%s` before the loop' % (r.impl, r.old))
    else:
        ck.check(init == 0, rule + '.init', mod, outside[0], F, u(outside[0]), 'remembered likelihood starts at 0',
                 'the remembered likelihood must start at 0 (both implementations)')
    return ('tol < |logl - old|', init)


# ---------------------------------------------------------------------------
# D5

def d5_result(ck, r):
    rule = 'C12.D5.result'
    mod, fn, fi, impl = r.mod, r.fn, r.fi, r.impl
    F = fn.name
    X, R, Cn, S = r.X, r.Xrs, r.C, r.Crs
    rets = returns_of(fn)
    # a return is either behind the iteration (every path to it runs the loop) or bypasses it
    behind = [x for x in rets if fi.cfg.dominates(r.loop, x) and not _inside(mod, x, r.loop)]
    bypass = [x for x in rets if x not in behind and not fi.cfg.reachable(r.loop, x)]
    other = [x for x in rets if x not in behind and x not in bypass]
    for x in other:
        ck.missing(rule, '%s: `%s` (%s) is reached both with and without finishing the iteration: not modelled' % (impl, u(x)[:60], mod.loc(x)))
    for x in bypass:
        _bypass_return(ck, r, x)
    behind = [x for x in behind if isinstance(x.value, ast.Tuple) and len(x.value.elts) == 2]
    if not behind or len(behind) + len(bypass) + len(other) != len(rets):
        ck.missing(rule, '%s: `return T, pi` behind the iteration' % impl)
    for ret in behind:
        ck.ok(rule, mod, ret, '%s: %s' % (impl, u(ret)), 'returns (T, pi) after the iteration')
        te, pe = (fi.expand(e, stop=r.states) for e in ret.value.elts)
        ns = ['len(%s)' % X, '%s.shape[0]' % X, 'len(%s)' % Cn, '%s.shape[0]' % Cn, 'len(%s)' % R, '%s.shape[0]' % R]
        forms = []
        for ax in ('1', '-1'):
            rs = '%s.sum(axis=%s)' % (X, ax)
            forms += ['%s / %s[:, None]' % (X, rs), '%s / %s.sum(axis=%s, keepdims=True)' % (X, X, ax)]
            for n in ns:
                forms += ['%s / %s.reshape(%s, 1)' % (X, rs, n), '%s / %s.reshape((%s, 1))' % (X, rs, n)]
        v = classify(te, forms, scope=set(r.states))
        t_rows = v[0] == 'match'
        ck.decide(v, rule, mod, _def_stmt(fi, ret.value.elts[0]) or ret, F, 'T = %s' % fi.xu(ret.value.elts[0], stop=r.states)[:150], 'T = X / rowsum(X) (column-vector broadcast)',
                  '%s: T must be X divided by its row sums shaped (n, 1)' % impl)
        forms = ['%s / %s.sum()' % (R, R), '%s / %s.sum()[..., None]' % (R, R), '%s / %s.sum(axis=0)' % (R, R)]
        v = classify(pe, forms, scope=set(r.states))
        ck.decide(v, rule, mod, _def_stmt(fi, ret.value.elts[1]) or ret, F, 'pi = %s' % fi.xu(ret.value.elts[1], stop=r.states)[:150],
                  'pi = rowsum(X) / sum(X)', '%s: pi must be X_rs / X_rs.sum()' % impl)
        try:
            _d5_sanity_asserts(ck, r, ret, t_rows)
        except (AnalysisIncomplete, AttributeError, KeyError, IndexError, TypeError, ValueError, RecursionError) as e:
            ck.missing('C12.D5.result.sanity-assert', '%s: assertions behind the iteration not analysable (%r)' % (impl, e))
    # initialisation: the definitions that reach the iteration loop
    for nm, forms, sc, ok_txt, bad_txt in (
            (X, ['%s + %s.T' % (Cn, Cn), '%s.T + %s' % (Cn, Cn), '%s + %s.transpose()' % (Cn, Cn), '%s.transpose() + %s' % (Cn, Cn)],
             {Cn}, 'X starts as C + C^T', 'X must be initialised to C + C.T'),
            (R, ['%s.sum(axis=1)' % X, '%s.sum(axis=-1)' % X, '%s.sum(1)' % X], {X}, 'X_rs = row sums of X', 'X_rs must be X.sum(axis=1)'),
            (S, ['%s.sum(axis=1)' % Cn, '%s.sum(axis=-1)' % Cn, '%s.sum(1)' % Cn], {Cn}, 'C_rs = row sums of C', 'C_rs must be C.sum(axis=1)')):
        sites = [s for s in fi.rd.defs_at(r.loop, nm) if not (s not in ('PARAM', 'UNBOUND') and _inside(mod, s, r.loop))]
        if len(sites) != 1 or sites[0] in ('PARAM', 'UNBOUND') or fi.def_value(sites[0], nm) is None:
            ck.missing(rule + '.init', '%s: single initialisation of %s before the iteration' % (impl, nm))
            continue
        s0 = sites[0]
        v = classify(fi.expand(fi.def_value(s0, nm), stop=r.states), forms, scope=sc)
        ck.decide(v, rule + '.init', mod, s0, F, u(s0), ok_txt, bad_txt)
        if nm != X:
            # row sums are taken of the matrix the iteration starts from
            src = X if nm == R else Cn
            ck.check(fi.rd.defs_at(s0, src) == fi.rd.defs_at(r.loop, src) and not any(
                fi.cfg.reachable(s0, m, avoiding=[r.loop]) and fi.cfg.reachable(m, r.loop) and not _inside(mod, m, r.loop)
                for m in _inplace_sites(fi, src)), rule + '.init', mod, s0, F, '%s is current when the iteration starts' % nm,
                '%s is not changed between `%s` and the iteration' % (src, u(s0)), '%s is changed after its row sums were taken' % src)
    # precondition: every state has counts
    # (what holds when the iteration starts: assertions that dominate it, and the guard clauses `if t: raise` ahead of it)
    atoms, mentions = [], []
    conds = [(s.test, True, s) for s in walk_local(fn)
             if isinstance(s, ast.Assert) and fi.cfg.dominates(s, r.loop) and not _inside(mod, s, r.loop)]
    conds += [(t, pol, owner) for t, pol, owner in (_controlling_tests(mod, r.loop, fn) or []) if isinstance(owner, ast.If)]
    for t, pol, s in conds:
        mentions.append(({n.id for n in ast.walk(fi.expand(t, stop=r.states)) if isinstance(n, ast.Name)}, s))
        for a in conjuncts(t, pol) or []:
            if isinstance(a, tuple):
                atoms.append((fi.xu(a[1], stop=r.states), a[2], s))
    for nm in (R, S):
        want = CS('np.all(%s > 0)' % nm, '(%s > 0).all()' % nm, 'all(%s > 0)' % nm)
        # `not any(x <= 0)`: the same set of real vectors
        want_not = CS('np.any(%s <= 0)' % nm, '(%s <= 0).any()' % nm, 'any(%s <= 0)' % nm)
        pos = [s for t, pol, s in atoms if (pol and t in want) or (not pol and t in want_not)]
        if not pos and any(nm in names for names, s in mentions):
            ck.missing(rule + '.precondition', '%s: a condition on `%s` is established ahead of the iteration (%s) in a form the rule does '
                       'not recognise' % (impl, nm, mod.loc([s for names, s in mentions if nm in names][0])))
            continue
        ck.check(len(pos) >= 1, rule + '.precondition', mod, pos[0] if pos else fn, F, 'assert np.all(%s > 0)' % nm,
                 'every state has counts (precondition after trimming)', 'the estimator must reject states without counts')


def _sanity_sense(test, parent, red, P):
    """How the reduction `red` (a sum that the result formulas make 1 up to rounding) enters the asserted `test`.
    True: the test states that the sum is about 1 - a tolerance test `isclose/allclose(sum, 1)` or an ordering
    `[abs](sum - 1) <(=) bound` / `bound >(=) ...` with a positive literal bound, in positive position (only `and`,
    `all(...)`-style wrappers and an even number of `not` above it).  False: the complement (negated tolerance test,
    deviation on the LARGE side of the bound): fails for every input.  None: anything else (exact equality is
    C12.D1.no-exact-float-assert's business; ordering of the sum itself against 1, disjunctions, unknown wrappers)."""
    atom, holds = None, None
    if isinstance(P, ast.Call) and (call_name(P) or '').split('.')[-1] in ('allclose', 'isclose'):
        atom, holds = P, True
    elif isinstance(P, ast.BinOp) and isinstance(P.op, ast.Sub):
        dev = P
        up = parent.get(dev)
        while True:
            # |deviation|, and its largest entry: abs(d), np.abs(d), d.max(), abs(d).max()
            if isinstance(up, ast.Call) and call_name(up) in ('abs', 'np.abs', 'np.fabs', 'math.fabs', 'fabs', 'np.absolute') \
                    and len(up.args) == 1 and up.args[0] is dev and not up.keywords:
                dev, up = up, parent.get(up)
            elif isinstance(up, ast.Attribute) and up.attr == 'max' and up.value is dev and isinstance(parent.get(up), ast.Call) \
                    and parent[up].func is up and not parent[up].args and not parent[up].keywords:
                dev, up = parent[up], parent.get(parent[up])
            else:
                break
        if isinstance(up, ast.Compare) and len(up.ops) == 1:
            less = Cmp(up.left, type(up.ops[0]), up.comparators[0]).as_less()
            if less is not None:
                small, _, big = less
                bound = const_value(big if small is dev else small)
                if (small is dev or big is dev) and isinstance(bound, (int, float)) and not isinstance(bound, bool) and 0 < bound < 1:
                    atom, holds = up, small is dev
    if atom is None:
        return None
    node, conj = atom, False
    while node is not test:
        up = parent.get(node)
        if up is None:
            return None
        if isinstance(up, ast.UnaryOp) and isinstance(up.op, ast.Not):
            if conj:
                return None     # not (A and B): a disjunction
            holds = not holds
        elif isinstance(up, ast.BoolOp) and isinstance(up.op, ast.And) and holds:
            conj = True
        elif isinstance(up, ast.Call) and len(up.args) == 1 and up.args[0] is node and not up.keywords \
                and call_name(up) in ('np.all', 'all', 'bool'):
            pass
        elif isinstance(up, ast.Attribute) and up.attr == 'all' and isinstance(parent.get(up), ast.Call) \
                and parent[up].func is up and not parent[up].args and not parent[up].keywords:
            up = parent[up]
        else:
            return None
        node = up
    return holds


def _d5_sanity_asserts(ck, r, ret, t_rows):
    """The sanity assertions between the iteration and `return T, pi` are implied by the result formulas
    (C12.D5.result: T = X / rowsum(X)[:, None], pi = X_rs / X_rs.sum()): a reduction of T inside such an assertion
    runs along the axis the normalisation made stochastic (the ROWS: axis 1 / -1) and is compared with 1.  The
    column sums of a row-stochastic matrix are 1 only for doubly stochastic T, so an assertion on them fails for
    almost every admitted input (internal AssertionError instead of a model).  Located by role: `A.sum(...)` with A
    the returned T / pi inside an `assert` that the iteration dominates."""
    import copy
    rule = 'C12.D5.result.sanity-assert'
    mod, fn, fi, impl = r.mod, r.fn, r.fi, r.impl
    F = fn.name
    te, pe = ret.value.elts
    Tn, pn = (e.id if isinstance(e, ast.Name) else None for e in (te, pe))
    post = [s for s in walk_local(fn) if isinstance(s, ast.Assert) and fi.cfg.dominates(r.loop, s) and not _inside(mod, s, r.loop)
            and fi.cfg.reachable(s, ret)]
    roles = {Tn: 'T', pn: 'pi'}
    roles.pop(None, None)
    watched = set(roles) | set(r.states)
    for s in post:
        construct = '%s: %s' % (impl, u(s)[:140])
        try:
            test = fi.expand(s.test, strict=False, stop=tuple(sorted(watched)))
        except Exception:
            test = s.test
        test = _Neg().visit(copy.deepcopy(test))
        names = {n.id for n in ast.walk(test) if isinstance(n, ast.Name)}
        if not names & watched:
            continue            # about something else (argument validation, the iteration counter)
        parent = {}
        for n in ast.walk(test):
            for ch in ast.iter_child_nodes(n):
                parent[ch] = n
        reds = [n for n in ast.walk(test) if isinstance(n, ast.Call) and isinstance(n.func, ast.Attribute) and n.func.attr == 'sum'
                and isinstance(n.func.value, ast.Name) and n.func.value.id in roles and not n.args]
        used = {n.id for n in ast.walk(test) if isinstance(n, ast.Name) and n.id in watched}
        covered = {n.func.value.id for n in reds}
        if not reds or used - covered:
            ck.missing(rule, '%s: `%s` behind the iteration is not a test of a sum of the returned T / pi: not decided whether the '
                             'result formulas imply it' % (impl, u(s)[:80]))
            continue
        for red in reds:
            what = roles[red.func.value.id]
            ax = kwarg(red, 'axis')
            axv = const_value(ax) if ax is not None else None
            if any(k.arg not in ('axis',) for k in red.keywords) or (ax is not None and (isinstance(axv, bool) or not isinstance(axv, int))):
                ck.missing(rule, '%s: reduction `%s` in a sanity assertion: axis not a literal' % (impl, u(red)[:60]))
                continue
            # what the sum is compared with
            P = parent.get(red)
            other = None
            if isinstance(P, ast.Call) and (call_name(P) or '').split('.')[-1] in ('allclose', 'isclose') and len(P.args) >= 2 and red in P.args[:2]:
                other = P.args[1] if P.args[0] is red else P.args[0]
            elif isinstance(P, ast.BinOp) and isinstance(P.op, ast.Sub):
                other = P.right if P.left is red else P.left
            elif isinstance(P, ast.Compare) and len(P.ops) == 1:
                other = P.comparators[0] if P.left is red else P.left
            ov = const_value(other) if other is not None else None
            if what == 'T':
                if axv in (0, -2) and not t_rows:
                    ck.missing(rule, '%s: `%s` sums T along the columns and T was not recognised as X / rowsum(X): not decided' % (impl, u(s)[:80]))
                    continue
                if axv in (0, -2):
                    ck.bad(rule, mod, s, F, '%s: axis of the sanity assertion on T' % impl,
                           '%s: `%s` sums T along axis %d, i.e. it asserts that the COLUMN sums of T are 1. T = X / rowsum(X)[:, None] is '
                           'row-stochastic: its rows sum to 1, its columns only for doubly stochastic T (uniform stationary distribution). '
                           'For every other admitted count matrix the assertion fails and the estimator ends in an internal AssertionError '
                           'instead of returning the model' % (impl, u(s)[:80], axv))
                    continue
                if axv not in (1, -1):
                    ck.missing(rule, '%s: `%s` reduces T over all axes: not decided' % (impl, u(red)[:60]))
                    continue
            elif axv not in (None, 0, -1):
                ck.missing(rule, '%s: `%s`: axis of a reduction of the 1-D pi not decided' % (impl, u(red)[:60]))
                continue
            if isinstance(ov, bool) or not isinstance(ov, (int, float)) or ov != 1:
                ck.missing(rule, '%s: `%s`: the value the sum of %s is compared with is not the literal 1: not decided' % (impl, u(s)[:80], what))
                continue
            # ... and the assertion states that the sum IS (about) 1: polarity of the atom inside the asserted test,
            # direction of a comparison of the deviation with a bound
            sense = _sanity_sense(test, parent, red, P)
            if sense is None:
                ck.missing(rule, '%s: `%s`: how the sum of %s enters the asserted condition (negation, disjunction, ordering against 1) '
                                 'is not decided' % (impl, u(s)[:80], what))
                continue
            if sense is False:
                ck.bad(rule, mod, s, F, '%s: sense of the sanity assertion on %s' % (impl, what),
                       '%s: `%s` asserts that the %s do NOT sum to 1 within the bound (negated tolerance test / deviation on the large side '
                       'of the comparison). By %s the sum is 1 up to rounding for EVERY admitted count matrix, so the assertion fails for '
                       'every input and the estimator ends in an internal AssertionError instead of returning the model' % (
                           impl, u(s)[:80], 'rows of T' if what == 'T' else 'entries of pi',
                           'T = X / rowsum(X)[:, None]' if what == 'T' else 'pi = X_rs / X_rs.sum()'))
                continue
            ck.ok(rule, mod, s, construct, 'the rows of T sum to 1 by T = X / rowsum(X)' if what == 'T' else
                  'pi sums to 1 by pi = X_rs / X_rs.sum()')


_TOLERANCE_TESTS = ('np.allclose', 'np.isclose', 'math.isclose', 'numpy.allclose', 'numpy.isclose', 'isclose', 'allclose')
_INTEGRAL_ATTRS = ('shape', 'size', 'ndim', 'nnz', 'dtype')


def _open_condition(e, polarity, data):
    """The atomic condition holds on a set of count matrices with non-empty
    interior: a tolerance comparison (allclose / isclose, either polarity) or an
    ordering comparison between floating-point functions of the count data.
    Tests of sizes / dtypes and exact (in)equalities are not (-> False);
    None: not a condition on the data at all."""
    def on_data(x):
        names = {n.id for n in ast.walk(x) if isinstance(n, ast.Name)}
        integral = any((isinstance(n, ast.Attribute) and n.attr in _INTEGRAL_ATTRS) or
                       (isinstance(n, ast.Call) and call_name(n) in ('len', 'type', 'isinstance', 'np.ndim', 'np.shape', 'np.size'))
                       for n in ast.walk(x))
        return bool(names & set(data)) and not integral
    if isinstance(e, Cmp):
        if not (on_data(e.lhs) or on_data(e.rhs)):
            return None
        if e.op in (ast.Lt, ast.LtE, ast.Gt, ast.GtE) and all(on_data(x) or isinstance(const_value(x), (int, float)) for x in (e.lhs, e.rhs)):
            return True
        return False
    # `<tolerance test>(...)`, `<tolerance test>(...).all()`, `np.all(<tolerance test>(...))`
    while isinstance(e, ast.Call) and ((isinstance(e.func, ast.Attribute) and e.func.attr in ('all', 'any') and not e.args and isinstance(e.func.value, ast.Call)) or
                                       (call_name(e) in ('np.all', 'all', 'np.any', 'any', 'bool') and len(e.args) == 1 and isinstance(e.args[0], ast.Call))):
        e = e.func.value if isinstance(e.func, ast.Attribute) and e.func.attr in ('all', 'any') and not e.args else e.args[0]
    if not on_data(e):
        return None
    return isinstance(e, ast.Call) and call_name(e) in _TOLERANCE_TESTS


def _bypass_return(ck, r, ret):
    """A `return` that no path through the iteration reaches hands out a value
    that was never iterated.  It is the reversible ML fixed point only on the
    thin set of inputs whose start value already is one (e.g. EXACTLY symmetric
    counts); a guard that holds on a set with non-empty interior (tolerance
    test, ordering of floating-point functions of the counts) necessarily
    admits inputs for which it is not.  Three-valued: such a guard over the
    located operands -> violation; anything else (exact tests, sizes, flags,
    helpers, values computed from other operands) -> not decided."""
    rule = 'C12.D5.result.no-bypass'
    mod, fn, fi, impl = r.mod, r.fn, r.fi, r.impl
    F = fn.name
    where = '%s: `%s` (%s) bypasses the iteration' % (impl, u(ret)[:60], mod.loc(ret))
    tests = _controlling_tests(mod, ret, fn)
    if not tests:
        ck.missing(rule, where + (': it is not under a plain `if`' if tests is None else ' unconditionally'))
        return
    data = set(r.states)
    val = fi.expand(ret.value, stop=r.states) if ret.value is not None else None
    if val is None or not _closed_over(val, data):
        ck.missing(rule, where + ' with a value that is not a function of the located operands (%s): not decided' % ', '.join(r.states))
        return
    atoms, shown = [], []
    for t, pol, owner in tests:
        te = fi.expand(t, stop=r.states)
        cs = conjuncts(te, pol)
        shown.append(('%s' if pol else 'not (%s)') % u(t)[:80])
        if cs is None:
            atoms.append(False)
            continue
        for c in cs:
            if isinstance(c, Cmp):
                atoms.append(_open_condition(c, True, data))
            else:
                atoms.append(_open_condition(c[1], c[2], data) if _closed_over(c[1], data) else False)
    guard = ' and '.join(shown)
    if not atoms or not all(a is True for a in atoms):
        ck.missing(rule, where + ' when `%s`: whether the un-iterated value is the fixed point for every such input is not decided' % guard)
        return
    owner = tests[0][2]
    ck.bad(rule, mod, owner if isinstance(owner, ast.stmt) else ret, F, '%s: return without iteration' % impl,
           '%s: when `%s` the function returns `%s` without running the Prinz iteration. The condition is a tolerance / ordering test on '
           'floating-point functions of the counts: it holds on an open set of count matrices (e.g. counts that are symmetric only up '
           'to the tolerance), whereas a value that was never iterated is the reversible maximum-likelihood fixed point only for the thin '
           'set of inputs whose start value C + C.T already satisfies the Prinz equations (exactly symmetric counts). For the other '
           'admitted inputs the returned (T, pi) violates detailed balance and the self-consistency equations, and differs from the '
           'sibling implementation, which iterates' % (impl, guard, fi.xu(ret.value, stop=r.states)[:120]))


def _def_stmt(fi, name_node):
    if not isinstance(name_node, ast.Name):
        return None
    try:
        ds = [d for d in fi.defs_of_use(name_node) if d not in ('PARAM', 'UNBOUND')]
    except Exception:
        return None
    return ds[0] if len(ds) == 1 else None


# ---------------------------------------------------------------------------
# D4: the test that decides whether the counts are densified covers EVERY
# sparse container (finite abstract domain: the scipy container classes)

_FORMATS = ('csr', 'csc', 'coo', 'lil', 'dok', 'dia', 'bsr')
_SPARSE_KINDS = [(fam, f) for fam in ('matrix', 'array') for f in _FORMATS]
_DENSIFIERS = ('toarray', 'todense')
_ESTIMATORS = ('_prinz_mle_py', '_prinz_mle', '_mle_prinz_dense')


def _kind_name(k):
    return '%s_%s' % (k[1], k[0])


def _qualified(ck, mod, name):
    """Fully qualified spelling of a dotted name through the imports of the
    module (`sparse.issparse` -> `scipy.sparse.issparse`); the text itself if
    it is not an imported external name."""
    if not name:
        return ''
    try:
        t = shared(ck.repo)[0].resolve_dotted(mod.rel, name)
    except Exception:
        t = None
    if t is not None and t.kind == 'ext' and t.ext:
        return t.ext
    return name


def _class_kinds(q):
    """The sparse kinds whose objects are instances of class `q`; None for a
    class the table does not know.  scipy >= 1.11: `spmatrix` and `sparray`
    are disjoint hierarchies, `<fmt>_array` is not a `<fmt>_matrix`."""
    last = q.split('.')[-1]
    if q.split('.')[0] in ('np', 'numpy') and last in ('ndarray', 'matrix', 'generic', 'number'):
        return set()
    if q in ('list', 'tuple', 'dict', 'int', 'float'):
        return set()
    if not q.startswith('scipy.sparse'):
        return None
    if last == 'spmatrix':
        return {k for k in _SPARSE_KINDS if k[0] == 'matrix'}
    if last == 'sparray':
        return {k for k in _SPARSE_KINDS if k[0] == 'array'}
    m = re.match(r'^(%s)_(matrix|array)$' % '|'.join(_FORMATS), last)
    if m:
        return {(m.group(2), m.group(1))}
    return None


def _container_atom(ck, mod, node, operand):
    """kind -> True/False/None for an atomic test of the container class of
    the value spelled `operand`; None if `node` is no such test."""
    if not isinstance(node, ast.Call) or node.keywords:
        return None
    q = _qualified(ck, mod, call_name(node))
    last = q.split('.')[-1]
    if not node.args or u(node.args[0]) != operand:
        return None
    if q.startswith('scipy.sparse') and len(node.args) == 1:
        if last == 'issparse':
            return lambda k: True
        if last == 'isspmatrix':
            return lambda k: k[0] == 'matrix'
        m = re.match(r'^isspmatrix_(%s)$' % '|'.join(_FORMATS), last)
        if m:
            return lambda k, f=m.group(1): k == ('matrix', f)
        return None
    if q == 'isinstance' and len(node.args) == 2:
        cls = node.args[1].elts if isinstance(node.args[1], (ast.Tuple, ast.List)) else [node.args[1]]
        sets = [_class_kinds(_qualified(ck, mod, u(c))) for c in cls]
        known = set().union(*[s for s in sets if s is not None]) if sets else set()
        unknown = any(s is None for s in sets)
        return lambda k: True if k in known else (None if unknown else False)
    if q == 'hasattr' and len(node.args) == 2 and const_value(node.args[1]) in ('toarray', 'todense', 'tocsr', 'tocoo', 'nnz'):
        return lambda k: True
    return None


def _tv(test, k, atom):
    """Three-valued value of a boolean test for container kind k."""
    if isinstance(test, ast.UnaryOp) and isinstance(test.op, ast.Not):
        v = _tv(test.operand, k, atom)
        return None if v is None else not v
    if isinstance(test, ast.BoolOp):
        vs = [_tv(v, k, atom) for v in test.values]
        absorbing = isinstance(test.op, ast.Or)
        if any(v is absorbing for v in vs):
            return absorbing
        return None if any(v is None for v in vs) else (not absorbing)
    f = atom(test)
    return None if f is None else f(k)


def _and3(vs):
    vs = list(vs)
    if any(v is False for v in vs):
        return False
    return None if any(v is None for v in vs) else True


def _or3(vs):
    vs = list(vs)
    if any(v is True for v in vs):
        return True
    return None if any(v is None for v in vs) else False


def _always_leaves(stmts):
    """The block never falls through (ends in raise / return / continue /
    break / `assert False`, or in an if/else whose arms both do)."""
    live = [s for s in stmts if not isinstance(s, ast.Pass)]
    if not live:
        return False
    last = live[-1]
    if isinstance(last, (ast.Raise, ast.Return, ast.Continue, ast.Break)):
        return True
    if isinstance(last, ast.Assert) and const_value(last.test) is False:
        return True
    if isinstance(last, ast.If):
        return _always_leaves(last.body) and _always_leaves(last.orelse)
    return False


def _controlling_tests(mod, node, fn):
    """[(test, polarity, owner)]: the conditions under which `node` is
    evaluated - the `if` statements / conditional expressions around it and
    the earlier guard clauses of the same blocks (`if t: raise/return`).
    None if it sits in a loop / try / with (it may then not be evaluated
    although the tests hold)."""
    out = []
    child, n = node, mod.parent.get(node)
    while n is not None:
        if isinstance(child, ast.stmt):
            for fld in ('body', 'orelse', 'finalbody'):
                block = getattr(n, fld, None)
                if isinstance(block, list) and any(child is x for x in block):
                    for sib in block:
                        if sib is child:
                            break
                        if isinstance(sib, ast.If):
                            b, e = _always_leaves(sib.body), _always_leaves(sib.orelse)
                            if b and not e:
                                out.append((sib.test, False, sib))
                            elif e and not b:
                                out.append((sib.test, True, sib))
        if n is fn:
            return out
        if isinstance(n, ast.If):
            if child is not n.test:
                out.append((n.test, any(child is x for x in n.body), n))
        elif isinstance(n, ast.IfExp):
            if child is not n.test:
                out.append((n.test, child is n.body, n))
        elif isinstance(n, (ast.For, ast.While, ast.Try, ast.With, ast.FunctionDef, ast.Lambda, ast.ListComp, ast.GeneratorExp)):
            return None
        child, n = n, mod.parent.get(n)
    return None


def _densifications_feeding(fi, expr, depth=4):
    """Densifying expressions (`<v>.toarray()`, `<v>.todense()`, `<v>.A`) in
    `expr` or in the definitions its names are reached by."""
    out, seen = [], set()

    def scan(e, d, at):
        for x in ast.walk(e):
            if isinstance(x, ast.Call) and isinstance(x.func, ast.Attribute) and x.func.attr in _DENSIFIERS and not x.args:
                out.append((x, x.func.value))
            elif isinstance(x, ast.Attribute) and x.attr == 'A' and isinstance(x.ctx, ast.Load):
                out.append((x, x.value))
        if d <= 0:
            return
        for x in ast.walk(e):
            if isinstance(x, ast.Name) and isinstance(x.ctx, ast.Load):
                try:
                    sites = fi.rd.defs_at(at, x.id)
                except Exception:
                    continue
                for s in sites:
                    if s in ('PARAM', 'UNBOUND') or id(s) in seen:
                        continue
                    seen.add(id(s))
                    v = fi.def_value(s, x.id)
                    if v is not None:
                        scan(v, d - 1, s)
    scan(expr, depth, fi.stmt(expr))
    return out


def d4_densify_guard(ck, mod):
    """`mle`: for every sparse container class the value handed to the
    estimator has been densified.  The guards of the densifications that
    reach an estimator call are evaluated over the finite domain of scipy's
    sparse container classes (7 formats x {matrix, array})."""
    rule = 'C12.D4.densify-guard'
    try:
        fn = mod.func('mle')
    except AnalysisIncomplete:
        ck.missing(rule, 'function mle not found in %s' % mod.rel)
        return
    fi = finfo(mod, fn)
    ck.analysed(mod, fn)
    n = 0
    done = set()
    for E in calls_in(fn, *_ESTIMATORS):
        args = E.args + [k.value for k in E.keywords]
        if not args:
            continue
        dens = _densifications_feeding(fi, args[0])
        if not dens:
            continue            # no densification on the way: C04.D5.container.densify decides that case
        per_kind = {k: [] for k in _SPARSE_KINDS}
        blame, unknown_why = None, None
        for dnode, base in dens:
            tests = _controlling_tests(mod, dnode, fn)
            operand = u(base)
            at = fi.stmt(dnode)
            if tests is None or not tests:
                unknown_why = 'the densification `%s` is not under an `if` on the container class' % u(dnode)[:60]
                for k in _SPARSE_KINDS:
                    per_kind[k].append(None)
                continue

            def atom(t, _operand=operand, _at=at):
                f = _container_atom(ck, mod, t, _operand)
                if f is None:
                    return None
                # the tested value is the densified value: same definitions reach both places
                nm = t.args[0]
                if isinstance(nm, ast.Name) and isinstance(base, ast.Name):
                    ts = fi.stmt(t)
                    if ts is None or fi.rd.defs_at(ts, nm.id) != fi.rd.defs_at(_at, nm.id):
                        return None
                return f
            exp_tests = []
            for t, pol, owner in tests:
                try:
                    # a named test (`sp = issparse(C)`): look at the definition when it is a temporary
                    te = t if not isinstance(t, ast.Name) else (fi.temp_value(t) or t)
                except Exception:
                    te = t
                exp_tests.append((te, pol, owner))
            for k in _SPARSE_KINDS:
                vals = []
                for te, pol, owner in exp_tests:
                    v = _tv(te, k, atom)
                    v = v if pol or v is None else (not v)
                    vals.append(v)
                    if v is False and blame is None:
                        blame = (te, owner, pol)
                per_kind[k].append(_and3(vals))
        verdict = {k: _or3(vs) for k, vs in per_kind.items()}
        missed = [k for k in _SPARSE_KINDS if verdict[k] is False]
        open_ = [k for k in _SPARSE_KINDS if verdict[k] is None]
        n += 1
        if missed and blame is not None:
            te, owner, pol = blame
            shown = u(te)[:80] if pol else 'not (%s)' % u(te)[:80]
            key = (id(owner), tuple(missed))
            if key in done:
                continue
            done.add(key)
            ck.assume('scipy >= 1.11 container classes: issparse() is true for every sparse container, isspmatrix()/spmatrix only for '
                      'the *_matrix classes, the *_array classes (sparray) are a separate hierarchy')
            ck.bad(rule, mod, owner, 'mle', 'mle: %s' % u(te)[:120],
                   'the condition `%s` under which the counts are densified before the iteration is False for the sparse '
                   'containers %s: they reach the element-wise estimator `%s` as they are (len()/2-index cells of a sparse array '
                   'raise TypeError/IndexError) instead of a model; the test must hold for EVERY sparse container '
                   '(scipy.sparse.issparse)' % (shown, ', '.join(_kind_name(k) for k in missed), call_name(E)))
        elif open_ or missed:
            ck.missing(rule, 'mle: cannot decide for %s whether the counts are densified before `%s` (%s)' % (
                ', '.join(_kind_name(k) for k in (open_ or missed)[:4]), call_name(E),
                unknown_why or 'guard of the densification is not a test of the container class of the densified value'))
        else:
            key = tuple(id(d[0]) for d in dens)
            if key in done:
                continue
            done.add(key)
            ck.ok(rule, mod, dens[0][0], 'mle: %s reaches %s under a test that holds for all %d sparse container classes' % (
                u(dens[0][0])[:60], call_name(E), len(_SPARSE_KINDS)), 'every sparse container is densified before the iteration')
    ck.floor(rule, n, 1, 'estimator call in mle fed by a densification')


def d4_dispatch(ck, mp):
    """`_prinz_mle` hands ITS count matrix (possibly through a value-preserving
    conversion: contiguity, float dtype, ndarray view) to the compiled
    estimator on the dense path."""
    rule = 'C12.D4.dispatch'
    fd = mp.func('_prinz_mle')
    fi = finfo(mp, fd)
    ps = params(fd)
    cs = [c for c in calls_in(fd) if (call_name(c) or '').split('.')[-1] == '_mle_prinz_dense']
    if len(cs) != 1 or not ps:
        ck.check(False, rule, mp, cs[0] if cs else fd, '_prinz_mle', u(cs[0]) if cs else '?',
                 'dense input goes to the compiled estimator', '_prinz_mle must call _mle_prinz_dense(C, ...) exactly once (found %d calls)' % len(cs))
        return
    c, P = cs[0], ps[0]
    a = c.args[0] if c.args else kwarg(c, 'C')
    if a is None or isinstance(a, ast.Starred):
        ck.missing(rule, '_prinz_mle: first argument of `%s` not explicit' % u(c)[:80])
        return
    def forms_of(N):
        forms = [N]
        for f in ('np.asarray', 'np.ascontiguousarray', 'np.array', 'np.asanyarray'):
            forms += ['%s(%s)' % (f, N)] + ['%s(%s, dtype=%s)' % (f, N, t) for t in ('float', 'np.float64', 'np.double', "'float64'")]
        for t in ('float', 'np.float64', 'np.double', "'float64'"):
            forms += ['%s.astype(%s)' % (N, t), '%s.copy().astype(%s)' % (N, t), '%s.astype(%s).copy()' % (N, t),
                      'np.ascontiguousarray(%s.astype(%s))' % (N, t), "np.require(%s, dtype=%s, requirements='C')" % (N, t),
                      "np.array(%s, dtype=%s, order='C')" % (N, t)]
        return forms + ['%s.copy()' % N, "np.require(%s, requirements='C')" % N, "np.array(%s, order='C')" % N]

    def provenance(e, depth=6):
        """`e` is a value-preserving conversion of ONE name, and every definition that reaches that name is the
        parameter itself or, recursively, such a conversion (a matrix converted in steps / only on some paths is
        still the caller's matrix).  The verdict of the first link that is not recognised is passed on."""
        names = {n.id for n in ast.walk(e) if isinstance(n, ast.Name) and isinstance(n.ctx, ast.Load)} - {'np', 'numpy'}
        if len(names) != 1:
            return classify(e, forms_of(P), scope={P})
        N = next(iter(names))
        v = classify(e, forms_of(N), scope={N})
        if v[0] != 'match':
            return v if N == P else ('far',)
        for use in [n for n in ast.walk(e) if isinstance(n, ast.Name) and n.id == N]:
            for site in fi.defs_of_use(use):
                if site == 'PARAM' and N == P:
                    continue
                val = None if isinstance(site, str) else fi.def_value(site, N)
                if val is None or depth <= 0 or provenance(val, depth - 1)[0] != 'match':
                    return ('far',)
        return v
    v = classify(fi.expand(a), forms_of(P), scope={P})
    # the parameter itself must be the caller's matrix (not rebound before the call)
    if v[0] == 'match':
        uses = [n for n in ast.walk(a) if isinstance(n, ast.Name) and n.id == P]
        if uses and set(fi.defs_of_use(uses[0])) != {'PARAM'}:
            v = ('far',)
    if v[0] == 'far':
        # ... or reach the call through a chain of such conversions (nodes of the function itself: def-use works on them)
        v2 = provenance(a)
        v = v2 if v2[0] == 'match' else v
    ck.decide(v, rule, mp, c, '_prinz_mle', u(c), 'dense input goes to the compiled estimator',
              '_prinz_mle must call _mle_prinz_dense(C, ...) with its own count matrix')
    _dispatch_dense_path(ck, mp, fd, fi, c, P)


def _dense_atom(ck, mod, node, operand):
    """Truth value of an atomic test of the container class of `operand` for a
    dense numpy.ndarray (the only container the dispatcher is handed after the
    densification in `mle`): True / False; None if `node` is no such test or
    the class is not in the table."""
    if not isinstance(node, ast.Call) or node.keywords or not node.args or u(node.args[0]) != operand:
        return None
    q = _qualified(ck, mod, call_name(node))
    last = q.split('.')[-1]
    if q.startswith('scipy.sparse') and len(node.args) == 1:
        if last in ('issparse', 'isspmatrix') or re.match(r'^isspmatrix_(%s)$' % '|'.join(_FORMATS), last):
            return False
        return None
    if q == 'isinstance' and len(node.args) == 2:
        cls = node.args[1].elts if isinstance(node.args[1], (ast.Tuple, ast.List)) else [node.args[1]]
        vals = []
        for cnode in cls:
            cq = _qualified(ck, mod, u(cnode))
            if cq.split('.')[0] in ('np', 'numpy') and cq.split('.')[-1] == 'ndarray':
                vals.append(True)
            elif _class_kinds(cq) is not None and cq.startswith('scipy.sparse'):
                vals.append(False)
            else:
                vals.append(None)
        return _or3(vals)
    if q == 'hasattr' and len(node.args) == 2 and const_value(node.args[1]) in ('toarray', 'todense', 'tocsr', 'tocoo', 'nnz'):
        return False
    return None


def _dispatch_dense_path(ck, mp, fd, fi, c, P):
    """The call of the compiled estimator is EVALUATED for a dense matrix: the
    conditions that control it (enclosing `if`s, earlier guard clauses that
    leave the function) are tests of the container class of the parameter and
    hold for a numpy.ndarray.  Necessary for "terminates with a model rather
    than an internal assertion failure" at the observation point
    `_prinz_mle(C)` and for the agreement of the two implementations there: a
    dispatcher whose dense arm is the `assert False` / raise arm returns no
    model for any admitted input.  Three-valued over the syntactic tests:
    a recognised container test that is False for an ndarray -> violation;
    a test of something else -> not decided."""
    rule = 'C12.D4.dispatch.dense-path'
    tests = _controlling_tests(mp, c, fd)
    if tests is None:
        ck.missing(rule, '_prinz_mle: the call of the compiled estimator sits in a loop / try / with: the conditions under '
                         'which it is evaluated are not modelled')
        return
    vals, blame = [], None
    for t, pol, owner in tests:
        try:
            te = t if not isinstance(t, ast.Name) else (fi.temp_value(t) or t)
        except Exception:
            te = t

        def atom(x):
            val = _dense_atom(ck, mp, x, P)
            if val is None:
                return None
            nm = x.args[0]
            # the tested value is the caller's matrix
            if not isinstance(nm, ast.Name) or set(fi.defs_of_use(nm)) != {'PARAM'}:
                return None
            return lambda k, _v=val: _v
        val = _tv(te, None, atom)
        val = val if pol or val is None else (not val)
        vals.append(val)
        if val is False and blame is None:
            blame = (t, pol, owner)
    verdict = _and3(vals) if vals else True
    if verdict is True:
        ck.ok(rule, mp, c, '_prinz_mle: %s' % (' and '.join(('%s' if pol else 'not (%s)') % u(t)[:60] for t, pol, _ in tests) or 'unconditional'),
              'for a dense ndarray every condition that controls the call of the compiled estimator holds')
    elif verdict is False:
        t, pol, owner = blame
        shown = ('%s' if pol else 'not (%s)') % u(t)[:80]
        ck.bad(rule, mp, owner if isinstance(owner, ast.stmt) else c, '_prinz_mle', '_prinz_mle: condition of the dense path',
               '_prinz_mle calls the compiled estimator only when `%s`, which is False for a dense numpy.ndarray: every admitted '
               'count matrix (mle densifies sparse input beforehand) takes the other arm - the `assert False` / fall-through of '
               'the unimplemented sparse case - so _prinz_mle(C) ends in an internal AssertionError (or returns None) instead of a '
               'model, while _prinz_mle_py(C) returns the MLE: the two implementations no longer agree on any matrix' % shown)
    else:
        k = vals.index(None)
        ck.missing(rule, '_prinz_mle: whether `%s` holds for a dense ndarray is not decided (not a test of the container class of '
                         'the parameter)' % (('%s' if tests[k][1] else 'not (%s)') % u(tests[k][0])[:80]))


# ---------------------------------------------------------------------------
# D3: the compiled sibling accepts every memory layout the Python one accepts

def _cy_buffer_options(ck, mod, fname):
    """{name: {option: value}} of the buffer declarations (arguments and cdef
    locals) of function `fname`, read from Cython's own parse tree: the shared
    front end keeps only dtype and ndim."""
    import os
    from .. import pyxfront
    from Cython.Compiler.Visitor import TreeVisitor
    tree = pyxfront._cy_parse(os.path.join(ck.repo.root, mod.rel), mod.rel)
    found = {}

    def opts_of(bt):
        if type(bt).__name__ != 'TemplatedTypeNode':
            return None
        o = {}
        kw = getattr(bt, 'keyword_args', None)
        for it in (kw.key_value_pairs if kw is not None else []):
            val = getattr(it.value, 'value', None)
            o[str(it.key.value)] = str(val) if val is not None else None
        return o

    def declname(d):
        while d is not None and not getattr(d, 'name', None):
            d = getattr(d, 'base', None)
        return getattr(d, 'name', None)

    class V(TreeVisitor):
        def __init__(self):
            super().__init__()
            self.inside = 0

        def visit_Node(self, n):
            tn = type(n).__name__
            if tn == 'DefNode' and n.name == fname and not self.inside:
                self.inside += 1
                for a in n.args:
                    o = opts_of(a.base_type)
                    if o is not None:
                        found[declname(a.declarator)] = ('argument', o, a.pos[1] if a.pos else 0)
                self.visitchildren(n)
                self.inside -= 1
                return
            if tn == 'CVarDefNode' and self.inside:
                o = opts_of(n.base_type)
                if o is not None:
                    for d in n.declarators:
                        found[declname(d)] = ('local', o, n.pos[1] if n.pos else 0)
            self.visitchildren(n)
    V().visit(tree)
    return found


class _Line:
    def __init__(self, lineno):
        self.lineno = lineno


# expressions whose value is a freshly allocated array that is contiguous in
# the given order whatever the layout of the operands (frozen numpy facts)
_CONTIG_1D = ['__.sum(axis=__)', '__.sum(__)', '__.mean(axis=__)', '__.copy()', 'np.zeros(__)', 'np.ones(__)', 'np.empty(__)',
              'np.zeros(__, dtype=__)', 'np.ones(__, dtype=__)', 'np.empty(__, dtype=__)', 'np.ascontiguousarray(__)',
              'np.asfortranarray(__)', 'np.arange(__)']
_CONTIG = {
    # elementwise op of an array and its own transpose: conflicting stride orders, numpy allocates C order
    'c': ['_A + _A.T', '_A.T + _A', '_A + _A.transpose()', '_A.transpose() + _A', 'np.ascontiguousarray(__)', '__.copy()',
          "__.copy(order='C')", "np.array(__, order='C')", "np.array(__, dtype=__, order='C')", 'np.zeros(__)', 'np.empty(__)',
          'np.ones(__)', 'np.zeros(__, dtype=__)', 'np.empty(__, dtype=__)', 'np.ones(__, dtype=__)',
          "np.require(__, requirements='C')", "__.astype(__, order='C')"],
    'fortran': ['np.asfortranarray(__)', "__.copy(order='F')", "np.array(__, order='F')", "np.array(__, dtype=__, order='F')",
                "np.zeros(__, order='F')", "np.empty(__, order='F')", "np.require(__, requirements='F')", "__.astype(__, order='F')"],
}


def _known_contiguous(e, mode, ndim):
    from ..match import match_any
    pats = list(_CONTIG.get(mode, []))
    if ndim == 1:
        pats += _CONTIG_1D
    return match_any(pats, e) is not None


def d3_layout(ck, rx, mp):
    """Sibling agreement on the DOMAIN: `_prinz_mle_py` copies its argument and
    therefore accepts every memory layout; a `mode="c"` / `mode="fortran"`
    buffer declaration makes Cython's buffer acquisition raise ValueError for
    every other layout (Fortran-ordered result of fancy-index trimming,
    transposed view, strided block)."""
    rule = 'C12.D3.domain.layout'
    mod, fn, fi = rx.mod, rx.fn, rx.fi
    F = fn.name
    try:
        opts = _cy_buffer_options(ck, mod, F)
    except AnalysisIncomplete as e:
        ck.missing(rule, 'buffer declarations of %s not readable: %s' % (F, e))
        return
    except Exception as e:
        ck.missing(rule, 'buffer declarations of %s not readable (%r)' % (F, e))
        return
    n = 0
    for name, (where, o, line) in sorted(opts.items(), key=lambda kv: kv[1][2]):
        mode = (o.get('mode') or 'strided').lower()
        ndim = int(o['ndim']) if (o.get('ndim') or '').isdigit() else None
        decl = '%s %s: mode="%s"' % (where, name, mode)
        n += 1
        if mode in ('strided', 'full'):
            ck.ok(rule, mod, _Line(line), '%s %s%s' % (where, name, '' if 'mode' not in o else ' (mode="%s")' % mode),
                  'buffer accepts every memory layout')
            continue
        if mode not in _CONTIG:
            ck.missing(rule, '%s: buffer mode not in the table (%s)' % (F, decl))
            continue
        if where == 'argument':
            # every caller in the package must hand over an array that is contiguous in that order
            sites = []
            for m2 in (mp, mod):
                for q, f2 in m2.functions.items():
                    for c in calls_in(f2, F):
                        sites.append((m2, f2, c))
            pos = params(fn).index(name) if name in params(fn) else None
            unsafe = []
            for m2, f2, c in sites:
                a = c.args[pos] if pos is not None and pos < len(c.args) else kwarg(c, name)
                if a is None or not _known_contiguous(finfo(m2, f2).expand(a), mode, ndim):
                    unsafe.append('%s::%s `%s`' % (m2.rel.split('/')[-1], f2.name, u(c)[:60]))
            if sites and not unsafe:
                ck.ok(rule, mod, _Line(line), decl, 'every caller passes an array made contiguous in that order')
                continue
            ck.bad(rule, mod, _Line(line), F, decl,
                   'the compiled estimator declares its count-matrix argument `%s` with mode="%s": Cython\'s buffer acquisition '
                   'raises ValueError("ndarray is not %s-contiguous") for every other layout (Fortran-ordered result of '
                   'C[keep][:, keep], transposed view, strided block), while the pure-Python sibling (which copies its argument) '
                   'returns the MLE; the caller %s passes the matrix as it is. The two implementations no longer agree on '
                   'every count matrix' % (name, mode, 'C' if mode == 'c' else 'Fortran', ', '.join(unsafe) or '(public entry point)'))
        else:
            # a local buffer: every value assigned to it must be contiguous in that order
            vals = []
            for s in walk_local(fn):
                v = fi.def_value(s, name) if isinstance(s, (ast.Assign, ast.AnnAssign)) else None
                if v is not None:
                    vals.append((s, v))
            unknown = [(s, v) for s, v in vals if not _known_contiguous(fi.expand(v, stop=rx.states), mode, ndim)]
            other = 'c' if mode == 'fortran' else 'fortran'
            wrong = [(s, v) for s, v in unknown if ndim and ndim >= 2 and _known_contiguous(fi.expand(v, stop=rx.states), other, ndim)]
            if vals and not unknown:
                ck.ok(rule, mod, vals[0][0], decl, 'initialiser is a fresh array contiguous in that order for every input layout')
            elif wrong:
                ck.bad(rule, mod, wrong[0][0], F, decl,
                       'the local buffer `%s` is declared mode="%s" but `%s` is a fresh %s-ordered array for every input: the '
                       'assignment raises ValueError("ndarray is not %s-contiguous") for every matrix with more than one state, '
                       'while the pure-Python sibling returns the MLE' % (
                           name, mode, u(wrong[0][1])[:60], 'C' if other == 'c' else 'Fortran', 'C' if mode == 'c' else 'Fortran'))
            else:
                ck.missing(rule, '%s: %s - layout of the assigned value `%s` not decided' % (
                    F, decl, u(unknown[0][1])[:60] if unknown else '?'))
    ck.floor(rule, n, 4, 'buffer declarations in %s' % F)


_F64 = ('float', 'np.float64', 'np.double', 'numpy.float64', "'float64'", "'f8'", "'d'", "'double'")


def _yields_float64(e):
    """The expression is an ndarray whose dtype is float64 whatever the dtype
    of its operand (frozen numpy facts: explicit dtype= / astype)."""
    from ..match import match_any
    pats = []
    for t in _F64:
        pats += ['np.asarray(__, dtype=%s)' % t, 'np.asanyarray(__, dtype=%s)' % t, 'np.ascontiguousarray(__, dtype=%s)' % t,
                 'np.array(__, dtype=%s)' % t, 'np.array(__, dtype=%s, order=__)' % t, 'np.array(__, dtype=%s, copy=__)' % t,
                 'np.require(__, dtype=%s)' % t, 'np.require(__, dtype=%s, requirements=__)' % t,
                 '__.astype(%s)' % t, '__.astype(%s).copy()' % t, '__.astype(%s, order=__)' % t,
                 'np.ascontiguousarray(__.astype(%s))' % t, 'np.asarray(__, %s)' % t, 'np.array(__, %s)' % t]
    return match_any(pats, e) is not None


# -- element type of an array along the paths of a small wrapper: finite abstract domain of dtypes -----------------
# (name, kind, itemsize, admitted by the quantifier "integer or real counts" and a realistic input)
_DTYPES = (('int64', 'i', 8, True), ('float32', 'f', 4, True), ('int32', 'i', 4, True), ('uint64', 'u', 8, True),
           ('float16', 'f', 2, True), ('longdouble', 'f', 16, True), ('float64', 'f', 8, True), ('>f8', 'f', 8, False),
           ('bool', 'b', 1, False), ('complex128', 'c', 16, False), ('object', 'O', 8, False))
_DT_SPELL = {'float64': _F64 + ('np.float_', "'<f8'", "'=f8'", 'np.dtype(float)', "np.dtype('float64')", 'np.dtype(np.float64)'),
             'float32': ('np.float32', 'np.single', "'float32'", "'f4'", "'f'", 'numpy.float32'),
             'float16': ('np.float16', 'np.half', "'float16'", "'f2'", "'e'"),
             'longdouble': ('np.longdouble', 'np.float128', "'longdouble'", "'g'"),
             'int64': ('np.int64', "'int64'", "'i8'", 'np.int_', 'np.intp', 'int'), 'int32': ('np.int32', "'int32'", "'i4'", 'np.intc'),
             'uint64': ('np.uint64', "'uint64'", "'u8'"), 'bool': ('bool', 'np.bool_', "'bool'"),
             'complex128': ('complex', 'np.complex128', "'complex128'"), 'object': ('object', 'np.object_', "'O'"), '>f8': ("'>f8'",)}
# abstract scalar classes of np.issubdtype(<dtype>, K): the kinds they contain
_DT_CLASS = {'np.floating': 'f', 'np.integer': 'iu', 'np.signedinteger': 'i', 'np.unsignedinteger': 'u', 'np.inexact': 'fc',
             'np.number': 'iufc', 'np.complexfloating': 'c', 'np.generic': 'iufcbO', 'np.bool_': 'b'}
_DT_PRESERVING = ('np.asarray', 'np.asanyarray', 'np.ascontiguousarray', 'np.asfortranarray', 'np.array', 'np.require', 'np.atleast_2d',
                  'np.squeeze', 'np.copy')


def _dtype_named(node):
    t = u(node).replace('numpy.', 'np.').replace('"', "'")
    for d, sp in _DT_SPELL.items():
        if t in sp:
            return d
    return None


def _dtype_eval(e, env):
    """Element type (a name of _DTYPES) of the array `e` denotes, given the element types of the names; None if the
    table does not decide it.  Frozen numpy facts: explicit dtype= / astype decide the result whatever the operand;
    asarray & co. without dtype, copy, transposition, a basic slice keep the operand's."""
    if isinstance(e, ast.Name):
        return env.get(e.id)
    if isinstance(e, ast.Attribute) and e.attr == 'T':
        return _dtype_eval(e.value, env)
    if isinstance(e, ast.Call):
        cn = (call_name(e) or '').replace('numpy.', 'np.')
        if any(isinstance(x, ast.Starred) for x in e.args) or any(k.arg is None for k in e.keywords):
            return None
        if isinstance(e.func, ast.Attribute) and e.func.attr == 'astype' and (e.args or kwarg(e, 'dtype') is not None):
            return _dtype_named(e.args[0] if e.args else kwarg(e, 'dtype'))
        if isinstance(e.func, ast.Attribute) and e.func.attr in ('copy', 'view', 'transpose', 'squeeze') and not e.args and not e.keywords:
            return _dtype_eval(e.func.value, env)
        if cn in _DT_PRESERVING and e.args:
            dt = kwarg(e, 'dtype')
            if dt is None and len(e.args) >= 2 and cn in ('np.asarray', 'np.asanyarray', 'np.ascontiguousarray', 'np.array', 'np.require'):
                dt = e.args[1]
            if dt is None or (isinstance(dt, ast.Constant) and dt.value is None):
                return _dtype_eval(e.args[0], env)
            return _dtype_named(dt)
    return None


def _dtype_test_atom(env, dense_atom):
    """atom(test) -> function(k) -> True / False, or None: tests of the element type of a name whose element type is
    known (np.issubdtype(X.dtype, K), X.dtype ==/!= K, X.dtype in (...), X.dtype.kind ==/in ..., X.dtype.itemsize == n),
    besides the container tests of the caller (`dense_atom`)."""
    info = {d: (k, n) for d, k, n, _ in _DTYPES}

    def dtype_of(x):
        if isinstance(x, ast.Attribute) and x.attr == 'dtype':
            return _dtype_eval(x.value, env)
        return None

    def atom(t):
        f = dense_atom(t)
        if f is not None:
            return f
        val = None
        if isinstance(t, ast.Call) and (call_name(t) or '').replace('numpy.', 'np.') == 'np.issubdtype' and len(t.args) == 2 and not t.keywords:
            d = dtype_of(t.args[0])
            K = u(t.args[1]).replace('numpy.', 'np.')
            if d is not None and K in _DT_CLASS:
                val = info[d][0] in _DT_CLASS[K]
            elif d is not None and d != '>f8' and _dtype_named(t.args[1]) is not None and K.startswith('np.'):
                val = d == _dtype_named(t.args[1])         # a concrete scalar type: the test looks at the type, not the byte order
        elif isinstance(t, ast.Compare) and len(t.ops) == 1:
            l, op, r = t.left, t.ops[0], t.comparators[0]
            for a, b in ((l, r), (r, l)):
                d = dtype_of(a)
                if d is not None and isinstance(op, (ast.Eq, ast.NotEq)) and _dtype_named(b) is not None:
                    val = (d == _dtype_named(b)) is isinstance(op, ast.Eq)
                    break
            if val is None and isinstance(l, ast.Attribute) and l.attr in ('kind', 'itemsize') and dtype_of(l.value) is not None:
                have = info[dtype_of(l.value)][0 if l.attr == 'kind' else 1]
                cv = const_value(r)
                if isinstance(r, (ast.Tuple, ast.List, ast.Set)) and all(const_value(x) is not None for x in r.elts):
                    cv = tuple(const_value(x) for x in r.elts)
                if isinstance(op, (ast.Eq, ast.NotEq)) and isinstance(cv, (str, int)) and not isinstance(cv, bool):
                    val = (have == cv) is isinstance(op, ast.Eq)
                elif isinstance(op, (ast.In, ast.NotIn)) and isinstance(cv, (str, tuple)) and l.attr == 'kind':
                    val = (have in cv) is isinstance(op, ast.In)
            if val is None and isinstance(op, (ast.In, ast.NotIn)) and dtype_of(l) is not None and isinstance(r, (ast.Tuple, ast.List, ast.Set)) \
                    and all(_dtype_named(x) is not None for x in r.elts):
                val = (dtype_of(l) in [_dtype_named(x) for x in r.elts]) is isinstance(op, ast.In)
        return None if val is None else (lambda k, _v=val: _v)
    return atom


def dtype_at_call(mod, fn, call, arg, P, dense_atom):
    """Abstract execution of the (loop-free part of the) body of `fn` for every element type d of its parameter P:
    [(d, element type of `arg` when `call` is evaluated or None, decided, [tests taken])] - one entry per path that
    reaches the call; `decided`: every test on the path was a container / element-type test with a known value, so the
    path IS taken by a dense ndarray of that element type.  None if the call sits where the walk does not go."""
    results = []

    class _Stop(Exception):
        pass

    def holds_call(s):
        return any(x is call for x in ast.walk(s))

    def kill(s, env):
        for x in ast.walk(s):
            if isinstance(x, ast.Name) and isinstance(x.ctx, (ast.Store, ast.Del)):
                env[x.id] = None

    def run(stmts, env, sure, taken, d0):
        """States [(env, sure, taken)] that fall through the block."""
        states = [(env, sure, taken)]
        for s in stmts:
            nxt = []
            for env, sure, taken in states:
                atom = _dtype_test_atom(env, dense_atom)
                if isinstance(s, ast.If):
                    if holds_call(s.test):
                        raise _Stop()
                    v = _tv(s.test, None, atom)
                    for arm, pol in ((s.body, True), (s.orelse, False)):
                        if v is (not pol):
                            continue
                        nxt += run(arm, dict(env), sure and v is not None, taken + [(s.test, pol)], d0)
                    continue
                if isinstance(s, (ast.For, ast.While, ast.Try, ast.With, ast.FunctionDef, ast.ClassDef, ast.AsyncFunctionDef)):
                    if holds_call(s):
                        raise _Stop()
                    env = dict(env)
                    kill(s, env)
                    leaves = any(isinstance(x, (ast.Return, ast.Raise, ast.Break, ast.Continue)) for x in ast.walk(s))
                    nxt.append((env, sure and not leaves, taken))
                    continue
                if holds_call(s):
                    inner = [x for x in ast.walk(s) if isinstance(x, (ast.IfExp, ast.BoolOp, ast.Lambda, ast.ListComp, ast.GeneratorExp,
                                                                        ast.SetComp, ast.DictComp)) and any(y is call for y in ast.walk(x))]
                    results.append((d0, _dtype_eval(arg, env), sure and not inner, taken))
                if isinstance(s, (ast.Return, ast.Raise)):
                    continue
                if isinstance(s, ast.Assert):
                    v = _tv(s.test, None, atom)
                    if v is False:
                        continue
                    nxt.append((env, sure and v is True, taken))
                    continue
                env = dict(env)
                if isinstance(s, ast.Assign) and len(s.targets) == 1 and isinstance(s.targets[0], ast.Name):
                    env[s.targets[0].id] = _dtype_eval(s.value, env)
                else:
                    kill(s, env)
                    for x in ast.walk(s):       # `X.dtype = ...`, `X.shape = ...`
                        if isinstance(x, ast.Attribute) and isinstance(x.ctx, ast.Store) and isinstance(x.value, ast.Name):
                            env[x.value.id] = None
                nxt.append((env, sure, taken))
            states = nxt
        return states
    try:
        for d0, _, _, _ in _DTYPES:
            run(fn.body, {P: d0}, True, [], d0)
    except _Stop:
        return None
    return results


def d3_dtype(ck, rx, mp):
    """Sibling agreement on the DOMAIN, element type: `_prinz_mle_py` converts
    its argument (C12.D4.copy: astype(float)) and therefore accepts integer and
    float32 counts; a `np.ndarray[np.float64_t, ndim=2]` argument makes Cython's
    buffer acquisition raise ValueError("Buffer dtype mismatch") for every other
    dtype.  Argument / parameter agreement: every call of the compiled estimator
    in the package passes an expression whose dtype is float64 by construction
    (dtype-provenance of the argument expression)."""
    rule = 'C12.D3.domain.dtype'
    mod, fn = rx.mod, rx.fn
    F = fn.name
    P = rx.Cparam
    at = getattr(fn, 'cy_argtypes', {}).get(P)
    if at is None or not at.is_buffer or not at.elem:
        ck.ok(rule, mod, fn, '%s: `%s` is not a typed buffer' % (F, P), 'no element type is imposed on the caller')
        return
    if at.elem not in ('np.float64_t', 'np.double_t', 'double', 'np.npy_float64', 'np.npy_double'):
        ck.missing(rule, '%s: element type %s of `%s` not in the table' % (F, at.elem, P))
        return
    pos = params(fn).index(P)
    n = 0
    for m2 in (mp, mod):
        for q, f2 in m2.functions.items():
            for c in calls_in(f2):
                if (call_name(c) or '').split('.')[-1] != F:
                    continue
                n += 1
                a = c.args[pos] if pos < len(c.args) and not any(isinstance(x, ast.Starred) for x in c.args[:pos + 1]) else kwarg(c, P)
                if a is None:
                    ck.missing(rule, '%s::%s: count-matrix argument of `%s` not explicit' % (m2.rel.split('/')[-1], f2.name, u(c)[:60]))
                    continue
                f2i = finfo(m2, f2)
                e = f2i.expand(a)
                construct = '%s: element type of the count matrix handed to the compiled estimator' % f2.name
                if _yields_float64(e):
                    ck.ok(rule, m2, c, construct, '`%s` is float64 for every input dtype' % u(e)[:60])
                    continue
                srcs = {x.id for x in ast.walk(e) if isinstance(x, ast.Name) and isinstance(x.ctx, ast.Load)} - {'np', 'numpy'}
                bare = isinstance(e, ast.Name) or (isinstance(e, ast.Call) and not any(k.arg == 'dtype' for k in e.keywords)
                                                    and call_name(e) in ('np.asarray', 'np.ascontiguousarray', 'np.asanyarray', 'np.array',
                                                                         'np.require') and len(e.args) == 1 and isinstance(e.args[0], ast.Name)) \
                    or (isinstance(e, ast.Call) and isinstance(e.func, ast.Attribute) and e.func.attr == 'copy' and not e.args
                        and isinstance(e.func.value, ast.Name))
                from_param = bool(srcs) and all(
                    set(f2i.defs_of_use(x)) == {'PARAM'} for x in ast.walk(a) if isinstance(x, ast.Name) and x.id in srcs and x.id in params(f2))
                if bare and srcs <= set(params(f2)) and from_param:
                    ck.bad(rule, m2, c, f2.name, construct,
                           '%s passes its own argument `%s` to %s unconverted, and %s declares `%s` as np.ndarray[%s, ndim=%s]: Cython\'s '
                           'buffer acquisition raises ValueError("Buffer dtype mismatch") for every other dtype - int64 (what '
                           'assigns_to_counts produces), int32, float32 - while the pure-Python sibling converts with astype(float) and '
                           'returns the MLE: the two implementations do not agree on integer count matrices. Convert at the call: '
                           'np.asarray(%s, dtype=np.float64)' % (f2.name, u(e)[:40], F, F, P, at.elem, at.ndim, u(e)[:40]))
                else:
                    # the argument is converted on some paths only: element type of the argument per element type of the
                    # caller's matrix (finite domain), along the paths of the wrapper
                    P2 = params(f2)[0] if params(f2) else None
                    res = None
                    if P2 is not None:
                        def dense_atom(x, _m=m2, _f=f2i, _p=P2):
                            val = _dense_atom(ck, _m, x, _p)
                            if val is None or not isinstance(x.args[0], ast.Name) or set(_f.defs_of_use(x.args[0])) != {'PARAM'}:
                                return None
                            return lambda k, _v=val: _v
                        res = dtype_at_call(m2, f2, c, a, P2, dense_atom)
                    admitted = {d for d, _, _, adm in _DTYPES if adm}
                    wrong = [x for x in (res or []) if x[1] not in (None, 'float64') and x[2] and x[0] in admitted]
                    if res and all(x[1] == 'float64' for x in res) and {x[0] for x in res} >= admitted:
                        ck.ok(rule, m2, c, construct, 'float64 on every path, for every element type of the caller\'s matrix')
                    elif wrong:
                        d0, got, _, taken = wrong[0]
                        also = sorted({x[0] for x in wrong} - {d0})
                        guard = [t for t, pol in taken if any(isinstance(y, ast.Attribute) and y.attr == 'dtype' for y in ast.walk(t))]
                        node = guard[-1] if guard else c
                        ck.bad(rule, m2, (m2.enclosing_stmt(node) or c) if guard else c, f2.name, construct,
                               '%s hands `%s` to %s with element type %s when the caller\'s matrix is %s (path: %s)%s, and %s declares `%s` '
                               'as np.ndarray[%s, ndim=%s]: Cython\'s buffer acquisition raises ValueError("Buffer dtype mismatch") there, '
                               'while the pure-Python sibling converts with astype(float) and returns the MLE. The conversion to float64 '
                               'must not depend on a test that admits other element types: np.asarray(%s, dtype=np.float64)' % (
                                   f2.name, u(a)[:40], F, got, d0,
                                   ' and '.join(('%s' if pol else 'not (%s)') % u(t)[:60] for t, pol in taken) or 'unconditional',
                                   '; likewise for ' + ', '.join(also) if also else '', F, P, at.elem, at.ndim, P2))
                    else:
                        ck.missing(rule, '%s::%s: dtype of `%s` handed to %s not decided' % (m2.rel.split('/')[-1], f2.name, u(e)[:60], F))
    if n == 0:
        ck.observe(rule, mod, fn, '%s accepts only %s buffers for `%s` and has no caller in the package' % (F, at.elem, P))


# ---------------------------------------------------------------------------
# D3: the compiled sibling computes in the precision of the Python one

_C_DOUBLE = ('double', 'np.float64_t', 'np.double_t', 'np.npy_float64', 'np.npy_double', 'cython.double', 'np.float_t')
_C_NARROW_FLOAT = ('float', 'np.float32_t', 'np.npy_float32', 'cython.float', 'np.float16_t', 'np.npy_float16', 'np.half_t')
_C_INTEGRAL = re.compile(r'^(?:(?:unsigned |signed )?(?:char|short|int|long|long long)|unsigned|signed|bint|size_t|Py_ssize_t|ssize_t|'
                         r'ptrdiff_t|np\.u?int(?:8|16|32|64|p|c)?_t|np\.npy_u?int(?:8|16|32|64|p)?|np\.long_t|np\.ulong_t|np\.uint_t|'
                         r'cython\.(?:u?int|u?long|u?short|u?char|bint|size_t|Py_ssize_t))$')
_FLOAT_FUNCS = ('sqrt', 'log', 'log10', 'log2', 'log1p', 'exp', 'expm1', 'fabs', 'pow', 'hypot', 'sin', 'cos', 'tan', 'atan', 'atan2',
                'tanh', 'floor', 'ceil')
_SAME_KIND_FUNCS = ('abs', 'max', 'min', 'fmax', 'fmin')


def _float_flow(fn, float_buffers, float_names, constants=False):
    """Names of `fn` into which a data-dependent floating-point value flows: least fixed point of "assigned an
    expression that reads a cell of a float64 buffer, a libm / numpy floating function, or a name already in the
    set" (index expressions and comparisons do not carry the value; `constants`: floating literals count too).
    A quotient is floating only if an operand is (int / int is C division under language_level 2)."""
    fl = set(float_names)

    def fv(e):
        if isinstance(e, ast.Constant):
            return constants and isinstance(e.value, float)
        if isinstance(e, ast.Name):
            return e.id in fl
        if isinstance(e, ast.Subscript):
            return isinstance(e.value, ast.Name) and e.value.id in float_buffers
        if isinstance(e, ast.BinOp):
            return fv(e.left) or fv(e.right)
        if isinstance(e, ast.UnaryOp):
            return not isinstance(e.op, ast.Not) and fv(e.operand)
        if isinstance(e, ast.IfExp):
            return fv(e.body) or fv(e.orelse)
        if _cy_cast(e) is not None:
            return fv(_cy_cast(e)[1])
        if isinstance(e, ast.Call):
            last = (call_name(e) or '').split('.')[-1]
            if last in _FLOAT_FUNCS or last in ('float', 'float64', 'double'):
                return True
            if last in _SAME_KIND_FUNCS:
                return any(fv(a) for a in e.args if not isinstance(a, ast.Starred))
        return False
    changed = True
    while changed:
        changed = False
        for s in walk_local(fn):
            pairs = []
            if isinstance(s, ast.Assign):
                for t in s.targets:
                    if isinstance(t, ast.Name):
                        pairs.append((t, s.value))
                    elif isinstance(t, (ast.Tuple, ast.List)) and isinstance(s.value, (ast.Tuple, ast.List)) and len(t.elts) == len(s.value.elts):
                        pairs += [(a, b) for a, b in zip(t.elts, s.value.elts) if isinstance(a, ast.Name)]
            elif isinstance(s, ast.AnnAssign) and s.value is not None and isinstance(s.target, ast.Name):
                pairs.append((s.target, s.value))
            elif isinstance(s, ast.AugAssign) and isinstance(s.target, ast.Name):
                pairs.append((s.target, s.value))
            for t, val in pairs:
                if t.id not in fl and fv(val):
                    fl.add(t.id)
                    changed = True
    return fl, fv


def d3_precision(ck, rx):
    """Sibling agreement on the ARITHMETIC: `_prinz_mle_py` holds every scalar of the sweep - the coefficients, the
    root, the pseudo log-likelihood and the remembered one, the tolerance - in float64 (cells of float64 arrays,
    numpy scalar functions of them, Python floats).  In the compiled estimator a C declaration fixes the
    representation of a scalar: every declared C scalar into which a floating-point value flows (def-use fixed point
    from the cells of the float64 buffers), or which is compared with such a value, has to be `double`.  `float` is
    the 32-bit C type (not Python's float): the value is rounded to 24 bits at every store; an integer type
    truncates it.  Three-valued: double -> ok; a narrower floating / an integral C type -> violation; a type outside
    the table, or a narrow local that only ever holds literals -> not decided."""
    rule = 'C12.D3.domain.precision'
    mod, fn, impl = rx.mod, rx.fn, rx.impl
    F = fn.name
    decls = dict(getattr(fn, 'cy_argtypes', {}) or {})
    decls.update(getattr(fn, 'cy_locals', {}) or {})
    if not decls:
        ck.ok(rule, mod, fn, '%s: no C declarations' % impl, 'every scalar is a Python float (double)')
        return
    where = {}
    for n in ast.walk(fn):
        if isinstance(n, ast.AnnAssign) and hasattr(n, 'cy_type') and isinstance(n.target, ast.Name):
            where.setdefault(n.target.id, n)
    buffers = {nm for nm, t in decls.items() if t.is_buffer}
    fbuf = {nm for nm in buffers if (decls[nm].elem or '') in _C_DOUBLE + _C_NARROW_FLOAT}
    # the role arrays are float64 in the Python sibling (C12.D4.copy, X = C + C.T): a declared element type must say so
    n = 0
    for nm in sorted(buffers & {rx.Cparam, rx.C, rx.X, rx.Xrs, rx.Crs}):
        t = decls[nm]
        if nm == rx.Cparam and nm in (getattr(fn, 'cy_argtypes', {}) or {}):
            continue                    # the argument: C12.D3.domain.dtype
        n += 1
        construct = '%s: cdef %s %s' % (impl, t.text, nm)
        if t.elem in _C_DOUBLE:
            ck.ok(rule, mod, where.get(nm, fn), construct, 'buffer of doubles')
        elif t.elem in _C_NARROW_FLOAT or _C_INTEGRAL.match(t.elem or ''):
            ck.bad(rule, mod, where.get(nm, fn), F, construct,
                   '%s: the work array `%s` is declared with element type %s, but the value assigned to it is float64 (sums of the '
                   'float64 counts): Cython\'s buffer acquisition raises ValueError("Buffer dtype mismatch") for every input, while '
                   'the pure-Python sibling returns the MLE' % (impl, nm, t.elem))
        else:
            ck.missing(rule, '%s: element type `%s` of `%s` not in the table' % (impl, t.elem, nm))
    # data-dependent floating-point values: from the cells of the float64 buffers, through floating functions; the
    # tolerance is a floating-point number by its role
    data, _ = _float_flow(fn, fbuf, {rx.tol})
    fl, _ = _float_flow(fn, fbuf, {rx.tol}, constants=True)
    for nm in sorted(fl & set(decls), key=lambda k: (getattr(where.get(k), 'lineno', 0), k)):
        t = decls[nm]
        if t.is_buffer:
            continue
        if nm not in data:
            # only floating literals are stored in it
            if t.base not in _C_DOUBLE:
                ck.missing(rule, '%s: `%s` is declared `%s` and assigned floating-point constants only: exactness not decided' % (impl, nm, t.text))
            continue
        n += 1
        roles = [w for w, names in (('pseudo log-likelihood accumulator', set(rx.acc.values()) | {rx.logl}),
                                    ('remembered log-likelihood of the convergence test', {getattr(rx, 'old', None)}),
                                    ('convergence tolerance', {rx.tol})) if nm in names]
        what = roles[0] if roles else 'scalar of the sweep'
        construct = '%s: cdef %s %s' % (impl, t.text, nm)
        if t.base in _C_DOUBLE:
            ck.ok(rule, mod, where.get(nm, fn), construct, 'floating-point scalar held in a C double, as in the Python sibling')
        elif t.base in _C_NARROW_FLOAT:
            ck.bad(rule, mod, where.get(nm, fn), F, construct,
                   '%s: `%s` (%s) is declared `%s`, the 32-bit C type (Python\'s `float` is a C double; in a cdef it is not): every '
                   'value stored into it is rounded to 24 significant bits, while the pure-Python sibling keeps it in float64. For the '
                   'log-likelihood this makes `abs(logl - oldlogl) > tol` (tol = 1e-10) False as soon as two successive sweeps round '
                   'to the same float32, i.e. at a relative change of ~1e-7: the compiled estimator stops long before the Prinz '
                   'equations hold to the tolerance, without a ConvergenceWarning, and disagrees with the Python implementation. '
                   'Declare it `double`' % (impl, nm, what, t.text))
        elif _C_INTEGRAL.match(t.base or ''):
            ck.bad(rule, mod, where.get(nm, fn), F, construct,
                   '%s: `%s` (%s) receives a floating-point value computed from the counts but is declared `%s`: the C conversion truncates '
                   'it to an integer, while the pure-Python sibling keeps it in float64. Declare it `double`' % (impl, nm, what, t.text))
        else:
            ck.missing(rule, '%s: C type `%s` of `%s` (%s) not in the table' % (impl, t.text, nm, what))
    # explicit / inlined-helper casts of a data-carrying value: the target type is a representation just as a declaration is
    _, fvd = _float_flow(fn, fbuf, {rx.tol})
    for c in ast.walk(fn):
        if _cy_cast(c) is None or not fvd(_cy_cast(c)[1]):
            continue
        T = _cy_cast(c)[0]
        construct = '%s: <%s>(%s)' % (impl, T, u(_cy_cast(c)[1])[:60])
        if T in _C_DOUBLE:
            ck.ok(rule, mod, c, construct, 'floating-point value passed on as a C double')
        elif T in _C_NARROW_FLOAT or _C_INTEGRAL.match(T):
            ck.bad(rule, mod, c, F, construct,
                   '%s: a floating-point value computed from the counts is converted to `%s` (typed parameter / result of a cdef '
                   'helper, or a cast): it is rounded to 24 bits / truncated there, while the pure-Python sibling keeps it in float64' % (impl, T))
        else:
            ck.missing(rule, '%s: C type `%s` of a cast of a floating-point value not in the table' % (impl, T))
    # the accumulator chain itself must have been looked at (declared -> checked above; undeclared -> Python float)
    for nm in sorted(set(rx.acc.values()) | {rx.logl}):
        if nm not in decls:
            n += 1
            ck.ok(rule, mod, rx.reset, '%s: `%s` is an undeclared local' % (impl, nm), 'the accumulator is a Python float (double)')
        elif nm not in data:
            ck.missing(rule, '%s: no floating-point value was traced into the accumulator `%s`' % (impl, nm))
    ck.floor(rule, n, 2, 'C scalars / buffers of %s that carry floating-point values' % F)


# ---------------------------------------------------------------------------

_MEMO_DECORATORS = ('lru_cache', 'cache', 'cached', 'memoize', 'memoized', 'cached_property')


def d6_no_hidden_state(ck, items):
    """The model is a function of the arguments of the call only (necessary
    for "for every count matrix ..." and for the agreement of the two
    implementations): the estimator functions declare no global / nonlocal
    name, store into no object that is not local to the call, and are not
    memoised (an ndarray argument is unhashable / compared by identity, so a
    cache returns the model of an earlier matrix or raises)."""
    rule = 'C12.D6.no-hidden-state'
    from ..normal import MUTATING_METHODS
    for mod, fn in items:
        fi = finfo(mod, fn)
        module_level = {n.id for st in getattr(mod.tree, 'body', []) if isinstance(st, (ast.Assign, ast.AnnAssign, ast.AugAssign))
                        for t in (st.targets if isinstance(st, ast.Assign) else [st.target]) for n in ast.walk(t) if isinstance(n, ast.Name)}
        local = set(fi.rd.locals) | set(params(fn))
        bad = None
        for d in getattr(fn, 'decorator_list', []) or []:
            nm = (call_name(d) if isinstance(d, ast.Call) else u(d)) or u(d)
            if nm.split('.')[-1] in _MEMO_DECORATORS:
                bad = (d, 'is memoised (`@%s`): the result of a call would depend on earlier calls' % nm)
        for x in walk_local(fn):
            if bad is not None:
                break
            if isinstance(x, (ast.Global, ast.Nonlocal)):
                bad = (x, 'declares `%s`: state that outlives the call' % u(x))
            elif isinstance(x, (ast.Subscript, ast.Attribute)) and isinstance(x.ctx, (ast.Store, ast.Del)):
                base = x
                while isinstance(base, (ast.Subscript, ast.Attribute)):
                    base = base.value
                if isinstance(base, ast.Name) and base.id not in local:
                    bad = (x, 'stores into `%s`, an object that is not local to the call (module-level state)' % u(x)[:60])
            elif isinstance(x, ast.Call) and isinstance(x.func, ast.Attribute) and x.func.attr in MUTATING_METHODS:
                base = x.func.value
                while isinstance(base, (ast.Subscript, ast.Attribute)):
                    base = base.value
                if isinstance(base, ast.Name) and base.id not in local and base.id in module_level:
                    bad = (x, 'changes the module-level object `%s` in place (`%s`)' % (base.id, u(x)[:60]))
        if bad is None:
            ck.ok(rule, mod, fn, '%s: no global/nonlocal, no store into a non-local object, not memoised' % fn.name,
                  'the result depends on the arguments of the call only')
        else:
            ck.bad(rule, mod, bad[0] if hasattr(bad[0], 'lineno') else fn, fn.name, '%s: state outside the call' % fn.name,
                   '%s %s; the estimator must return, for every count matrix, the fixed point for THAT matrix - independent of what '
                   'was estimated before - and the same in both implementations' % (fn.name, bad[1]))


def _guarded(ck, rule, f, r):
    """A part of the analysis that breaks down on an unforeseen shape must not
    hide what the other parts found: it becomes an incomplete obligation."""
    try:
        return f(ck, r)
    except AnalysisIncomplete as e:
        ck.missing(rule, '%s: %s' % (r.impl, e))
    except (AttributeError, KeyError, IndexError, TypeError, ValueError, RecursionError) as e:
        ck.missing(rule, '%s: construct outside the shapes the rule models (%r)' % (r.impl, e))
    return None


def _shared_mle_rule(ck, mp):
    """C04.D5.container (densify / re-wrap in `mle`) lives in C04.py; its
    signature is owned by that file."""
    import inspect
    from . import C04
    f = C04.d5_mle
    if len(inspect.signature(f).parameters) <= 2:
        f(ck, mp)
    elif hasattr(C04, '_sigs'):
        f(ck, mp, C04._sigs(ck))
    else:
        ck.missing('C04.D5.container', 'shared rule C04.d5_mle has an unknown signature')


def check(ck):
    mp, mx = ck.repo.mod(BU), ck.repo.mod(LM)
    fp, fx = mp.func('_prinz_mle_py'), mx.func('_mle_prinz_dense')
    ck.analysed(mp, fp)
    ck.analysed(mx, fx)
    rp = find_roles(ck, mp, fp, 'builders._prinz_mle_py')
    rx = find_roles(ck, mx, fx, 'libmsm._mle_prinz_dense')
    models = []
    for r in (rp, rx):
        if r is None:
            continue
        it = r.fi.expand(r.loop.iter)
        v = _range_verdict(it, ['range(%s)' % r.cap], [], extra=(r.cap,)) or \
            classify(it, ['range(%s)' % r.cap, 'range(0, %s)' % r.cap], scope={r.cap})
        ck.decide(v, 'C12.D4.bounded', r.mod, r.loop, r.fn.name, u(r.loop.iter), '%s: loop bounded by range(max_iter)' % r.impl,
                  '%s: the iteration must be bounded by range(%s)' % (r.impl, r.cap))
        m = _guarded(ck, 'C12.D3.reference', sweep_model, r)
        conv = _guarded(ck, 'C12.D2.warning', d2_warning, r)
        if m is not None:
            if conv is not None:
                m['convergence'] = '%s, start %s' % conv
            models.append(m)
        _guarded(ck, 'C12.D5.result', d5_result, r)
    if len(models) == 2:
        d3_siblings(ck, rp, models[0], rx, models[1])
    if rp is not None and rx is not None:
        try:
            d3_defaults(ck, rp, rx)
        except (AnalysisIncomplete, AttributeError, KeyError, IndexError, TypeError, ValueError, RecursionError) as e:
            ck.missing('C12.D3.siblings.defaults', 'parameter defaults not comparable (%r)' % (e,))
    for r in (rp, rx):
        if r is not None:
            _guarded(ck, 'C12.D1.running-sum-rederived', d1_running_sums, r)
    n = d1_no_exact_float_asserts(ck, mp, fp) + d1_no_exact_float_asserts(ck, mx, fx)
    ck.floor('C12.D1.no-exact-float-assert', n, 8, 'assertions in the two estimators')
    # work on a float copy (python): the definition of C that reaches the iteration
    if rp is not None:
        fi, Cn, P0 = rp.fi, rp.C, rp.Cparam
        sites = [s for s in fi.rd.defs_at(rp.loop, Cn)]
        if sites == ['PARAM']:
            ck.bad('C12.D4.copy', mp, fp, '_prinz_mle_py', Cn, '_prinz_mle_py must copy the counts to float before iterating '
                   '(integer counts would make X an integer array and every update would be truncated)')
        elif len(sites) == 1 and sites[0] not in ('PARAM', 'UNBOUND') and isinstance(fi.def_value(sites[0], Cn), ast.Name) \
                and fi.def_value(sites[0], Cn).id == P0 and set(fi.defs_of_use(fi.def_value(sites[0], Cn))) == {'PARAM'}:
            ck.bad('C12.D4.copy', mp, fp, '_prinz_mle_py', Cn, '_prinz_mle_py must copy the counts to float before iterating '
                   '(integer counts would make X an integer array and every update would be truncated)')
        elif len(sites) != 1 or sites[0] in ('PARAM', 'UNBOUND') or fi.def_value(sites[0], Cn) is None:
            ck.missing('C12.D4.copy', 'single conversion of %s before the iteration' % Cn)
        else:
            forms = []
            for ft in ('float', 'np.float64', 'np.double', "'float64'"):
                forms += ['%s.copy().astype(%s)' % (P0, ft), '%s.astype(%s)' % (P0, ft), 'np.array(%s, dtype=%s)' % (P0, ft),
                          '%s.astype(%s).copy()' % (P0, ft), 'np.array(%s, dtype=%s, copy=True)' % (P0, ft)]
            val = fi.expand(fi.def_value(sites[0], Cn), stop=(P0,))
            uses = [n for n in ast.walk(fi.def_value(sites[0], Cn)) if isinstance(n, ast.Name) and n.id == P0]
            if _yields_float64(val) and _closed_over(val, {P0}) and uses and all(set(fi.defs_of_use(n)) == {'PARAM'} for n in uses):
                # float64 by construction, of the caller's matrix.  Whether it is a fresh array does not matter: the
                # estimator never stores into its counts (C12.D3.roles: C is only read; C12.D6.inputs-unmodified)
                v = ('match', {})
            else:
                v = classify(val, forms, scope={P0})
            ck.decide(v, 'C12.D4.copy', mp, sites[0], '_prinz_mle_py', u(sites[0]), 'the iteration works on a float copy of the counts',
                      '_prinz_mle_py must copy the counts to float before iterating')
    # mle: densify + rewrap (shared with C04)
    _shared_mle_rule(ck, mp)
    # ... and the densification covers every sparse container class
    try:
        d4_densify_guard(ck, mp)
    except (AnalysisIncomplete, AttributeError, KeyError, IndexError, TypeError, ValueError, RecursionError) as e:
        ck.missing('C12.D4.densify-guard', 'mle: construct outside the shapes the rule models (%r)' % (e,))
    # the compiled sibling accepts every memory layout the Python one accepts
    if rx is not None:
        _guarded(ck, 'C12.D3.domain.layout', lambda ck_, r_: d3_layout(ck_, r_, mp), rx)
        _guarded(ck, 'C12.D3.domain.dtype', lambda ck_, r_: d3_dtype(ck_, r_, mp), rx)
        _guarded(ck, 'C12.D3.domain.precision', d3_precision, rx)
    try:
        d6_no_hidden_state(ck, [(mp, mp.func('mle')), (mp, mp.func('_prinz_mle')), (mp, fp), (mx, fx)])
    except (AnalysisIncomplete, AttributeError, KeyError, IndexError, TypeError, ValueError, RecursionError) as e:
        ck.missing('C12.D6.no-hidden-state', 'construct outside the shapes the rule models (%r)' % (e,))
    check_no_arg_mutation(ck, 'C12.D6.inputs-unmodified', [(BU, 'mle'), (BU, '_prinz_mle_py'), (LM, '_mle_prinz_dense'), (BU, '_prinz_mle')])
    # _prinz_mle dispatch
    d4_dispatch(ck, mp)
    return EXPLANATION

"""C12 Reversible MLE: no exact-float assertions, well-formed and reachable
convergence warning, py <-> pyx sibling agreement, reference Prinz equations."""
import ast
import copy

from .. import symx
from ..core import (AnalysisIncomplete, call_name, const_value, kwarg,
                    names_loaded, params, target_names, u, walk_expr,
                    walk_local)
from ..patterns import (Cmp, assigns_to, calls_in, check_no_arg_mutation,
                        check_warn_calls, conjuncts, finfo, returns_of,
                        subscript_stores)
from .msm_common import BU, LM
from ..match import C, CS

EXPLANATION = (
    'Static decision of the structural necessary conditions of the reversible '
    'maximum-likelihood estimator: (D1) no assertion on the result path '
    'compares a floating-point reduction for exact equality; (D2) the '
    'non-convergence warning is well formed (message first, category second) '
    'and its condition is satisfiable after loop exhaustion (n_iter == '
    'max_iter - 1 under Python range semantics); (D3) the Python and the '
    'Cython implementation agree statement by statement after '
    'canonicalisation (np.sqrt/sqrt, np.log/log10, len(C)/n_states, b**2/b*b), '
    'and the diagonal update, the coefficients a, b, c, the root v and both '
    'row-sum updates equal the reference Prinz equations after sympy '
    'expansion; guards of the log terms test the same quantity whose log is '
    'taken; (D4) sparse input is densified to an ndarray and re-wrapped, the '
    'loop is bounded by range(max_iter), the work matrix is a float copy; '
    '(D5) the returned T and pi are X/rowsum(X) and rowsum/total. Optimality '
    'against every reversible competitor and the `assert c <= 0` rounding '
    'question are not decided.')

REFERENCE = {
    # Prinz et al. 2011, eqs. for the reversible MLE (as in msmbuilder)
    'diag': 'C[i,i] * (X_rs[i] - X[i,i]) / (C_rs[i] - C[i,i])',
    'a': '(C_rs[i] - C[i,j]) + (C_rs[j] - C[j,i])',
    'b': 'C_rs[i] * (X_rs[j] - X[i,j]) + C_rs[j] * (X_rs[i] - X[i,j]) - (C[i,j] + C[j,i]) * (X_rs[i] + X_rs[j] - 2*X[i,j])',
    'c': '-(C[i,j] + C[j,i]) * (X_rs[i] - X[i,j]) * (X_rs[j] - X[i,j])',
    'v': '(-b + sqrt(b*b - 4*a*c)) / (2*a)',
    'rs_i': 'X_rs[i] + (v - X[i,j])',
    'rs_j': 'X_rs[j] + (v - X[j,i])',
}


class Canon(ast.NodeTransformer):
    """Canonicalise accepted spelling differences between the siblings."""

    def __init__(self, nstates_text):
        self.nstates_text = nstates_text

    def visit_Call(self, node):
        self.generic_visit(node)
        cn = call_name(node) or ''
        if cn in ('np.sqrt', 'sqrt', 'math.sqrt'):
            node.func = ast.Name(id='sqrt', ctx=ast.Load())
        elif cn in ('np.log', 'log10', 'np.log10', 'log', 'math.log'):
            node.func = ast.Name(id='LOG', ctx=ast.Load())
        if u(node) == self.nstates_text:
            return ast.Name(id='n_states', ctx=ast.Load())
        return node

    def visit_BinOp(self, node):
        self.generic_visit(node)
        if isinstance(node.op, ast.Pow) and const_value(node.right) == 2:
            return ast.BinOp(left=node.left, op=ast.Mult(), right=copy.deepcopy(node.left))
        return node

    def visit_Name(self, node):
        if node.id == self.nstates_text:
            return ast.Name(id='n_states', ctx=node.ctx)
        return node


def main_loop(fn):
    loops = [l for l in fn.body if isinstance(l, ast.For)]
    for l in loops:
        if isinstance(l.iter, ast.Call) and call_name(l.iter) == 'range' and u(l.iter.args[0]) == 'max_iter':
            return l
    return None


def canon_body(loop, nstates_text):
    out = []
    for s in loop.body:
        s2 = Canon(nstates_text).visit(copy.deepcopy(s))
        ast.fix_missing_locations(s2)
        out.append(s2)
    return out


def flat_stmts(stmts):
    out = []
    for s in stmts:
        for x in ast.walk(s):
            if isinstance(x, ast.stmt):
                out.append(x)
    return out


def d3_siblings(ck):
    rule = 'C12.D3.siblings'
    mp, mx = ck.repo.mod(BU), ck.repo.mod(LM)
    fp, fx = mp.func('_prinz_mle_py'), mx.func('_mle_prinz_dense')
    ck.analysed(mp, fp)
    ck.analysed(mx, fx)
    lp, lx = main_loop(fp), main_loop(fx)
    if lp is None or lx is None:
        ck.missing(rule, 'main iteration loop `for n_iter in range(max_iter)` in both implementations')
        return None, None
    ck.ok('C12.D4.bounded', mp, lp, u(lp.iter), 'python loop bounded by range(max_iter)')
    ck.ok('C12.D4.bounded', mx, lx, u(lx.iter), 'cython loop bounded by range(max_iter)')
    bp = flat_stmts(canon_body(lp, 'len(C)'))
    bx = flat_stmts(canon_body(lx, 'n_states'))
    # cython-only declarations are not statements of the loop; compare dumps
    n = max(len(bp), len(bx))
    agree = 0
    for i in range(n):
        a = bp[i] if i < len(bp) else None
        b = bx[i] if i < len(bx) else None
        ta = _sig(a)
        tb = _sig(b)
        if ta == tb:
            agree += 1
            ck.ok(rule, mp, _orig(lp, i), ta[:120], 'same statement in builders.py and libmsm.pyx')
        else:
            node = _orig(lp, i) or lp
            ck.bad(rule, mp, node, '_prinz_mle_py <-> _mle_prinz_dense',
                   'py: %s  |  pyx: %s' % (ta[:110], tb[:110]),
                   'the pure-Python and the compiled estimator differ at statement %d of the iteration '
                   'body (after canonicalising sqrt/log/len spellings): the two implementations no '
                   'longer compute the same update / take the same branch' % i)
            break
    if agree == n:
        ck.floor(rule, agree, 20, 'agreeing statements')
    return lp, lx


def _sig(s):
    if s is None:
        return '<missing>'
    if isinstance(s, (ast.For, ast.While)):
        return 'for %s in %s' % (u(s.target), u(s.iter)) if isinstance(s, ast.For) else 'while %s' % u(s.test)
    if isinstance(s, ast.If):
        return 'if %s [body %d, else %d]' % (u(s.test), len(s.body), len(s.orelse))
    return u(s)


def _orig(loop, i):
    fl = flat_stmts(loop.body)
    return fl[i] if i < len(fl) else None


def d3_reference(ck, mod, fn, loop, impl, nst):
    rule = 'C12.D3.reference'
    body = canon_body(loop, nst)
    stmts = flat_stmts(body)
    orig = flat_stmts(loop.body)
    found = {}
    for s, o in zip(stmts, orig):
        if isinstance(s, ast.Assign):
            t = u(s.targets[0])
            if t == 'X[i, i]':
                found.setdefault('diag', (s, o))
            elif t in ('a', 'b', 'c'):
                found.setdefault(t, (s, o))
            elif t == 'v' and 'sqrt' in u(s.value):
                found.setdefault('v', (s, o))
            elif t == 'X_rs[i]' and 'v' in names_loaded(s.value):
                found.setdefault('rs_i', (s, o))
            elif t == 'X_rs[j]' and 'v' in names_loaded(s.value):
                found.setdefault('rs_j', (s, o))
    # single-assignment scalar temporaries of the loop body (e.g. denom) are
    # substituted; the reference symbols a, b, c, v stay symbolic
    counts = {}
    for s in stmts:
        if isinstance(s, ast.Assign) and isinstance(s.targets[0], ast.Name):
            counts[s.targets[0].id] = counts.get(s.targets[0].id, 0) + 1
    env = {}
    for s in stmts:
        if isinstance(s, ast.Assign) and isinstance(s.targets[0], ast.Name):
            nm = s.targets[0].id
            if counts[nm] == 1 and nm not in ('a', 'b', 'c', 'v', 'logl', 'oldlogl', 'tmp'):
                try:
                    env[nm] = symx.lift(s.value, env=dict(env))
                except AnalysisIncomplete:
                    pass
    for key, ref in REFERENCE.items():
        if key not in found:
            ck.bad(rule, mod, loop, fn.name, key, '%s: the assignment defining `%s` was not found in the iteration body' % (impl, key))
            continue
        s, o = found[key]
        try:
            got = symx.lift(s.value, env=env)
            want = symx.parse(ref)
            ok = symx.equal(got, want)
        except AnalysisIncomplete as e:
            ck.bad(rule, mod, o, fn.name, u(o), '%s: cannot lift `%s`: %s' % (impl, key, e))
            continue
        ck.check(ok, rule, mod, o, fn.name, '%s: %s' % (impl, u(o)),
                 '%s equals the reference Prinz expression after expansion' % key,
                 '%s: `%s` differs from the reference Prinz equation  %s = %s' % (impl, u(o), key, ref))
    # symmetric store and order: row sums updated BEFORE X[i,j], X[j,i] are overwritten
    sym = [(s, o) for s, o in zip(stmts, orig) if isinstance(s, ast.Assign) and u(s.targets[0]) in ('X[i, j]', 'X[j, i]')
           and u(s.value) == 'v']
    ck.check(len(sym) == 2, rule + '.symmetric', mod, sym[0][1] if sym else loop, fn.name,
             '; '.join(u(o) for s, o in sym), 'X[i,j] and X[j,i] both take the new value (X stays symmetric)',
             '%s: both X[i, j] and X[j, i] must be set to v' % impl)
    if len(sym) == 2 and 'rs_i' in found and 'rs_j' in found:
        idx = {id(o): k for k, o in enumerate(orig)}
        ok = max(idx[id(found['rs_i'][1])], idx[id(found['rs_j'][1])]) < min(idx[id(sym[0][1])], idx[id(sym[1][1])])
        ck.check(ok, rule + '.order', mod, found['rs_i'][1], fn.name, 'row-sum updates before the symmetric store',
                 'row sums are updated with the OLD X[i,j] before it is overwritten',
                 '%s: the row-sum updates use X[i, j]; they must precede the store X[i, j] = v' % impl)
    # log guards test the quantity whose log is taken
    for s, o in zip(stmts, orig):
        if isinstance(s, ast.If) and any('LOG(' in u(x) for x in s.body):
            logs = [c for x in s.body for c in ast.walk(x) if isinstance(c, ast.Call) and u(c.func) == 'LOG']
            cs = conjuncts(s.test, True)
            ok = cs is not None and len(cs) == 1 and isinstance(cs[0], Cmp)
            if ok:
                less = cs[0].as_less()
                ok = less is not None and const_value(less[0]) == 0 and less[1]
                guarded = u(less[2]) if ok else '?'
                args = set()
                for c in logs:
                    a = c.args[0]
                    args.add(u(a.left) if isinstance(a, ast.BinOp) and isinstance(a.op, ast.Div) else u(a))
                ok = ok and guarded in args and all(x in (guarded, guarded.replace('[i, j]', '[j, i]')) for x in args)
            ck.check(ok, 'C12.D3.log-guard', mod, o, fn.name, 'if %s: ... %s' % (u(s.test), '; '.join(u(c) for c in logs)[:80]),
                     'the log term is added only when its argument is positive',
                     '%s: the guard `%s` must test the very quantity whose logarithm is taken (> 0); otherwise '
                     '0 * log(0) = NaN enters the log-likelihood and the convergence test stops the iteration '
                     'after one sweep' % (impl, u(s.test)))


def d1_no_exact_float_asserts(ck, mod, fn):
    rule = 'C12.D1.no-exact-float-assert'
    n = 0
    for s in walk_local(fn):
        if not isinstance(s, ast.Assert):
            continue
        n += 1
        bad = None
        for c in ast.walk(s.test):
            if isinstance(c, ast.Compare) and any(isinstance(op, (ast.Eq, ast.NotEq)) for op in c.ops):
                sides = [c.left] + list(c.comparators)
                has_red = any(any(isinstance(x, ast.Call) and ((isinstance(x.func, ast.Attribute) and x.func.attr in ('sum', 'mean', 'prod'))
                                                                or call_name(x) in ('np.sum', 'np.mean', 'sum')) for x in ast.walk(sd)) for sd in sides)
                has_const = any(isinstance(const_value(sd), (int, float)) for sd in sides)
                if has_red and has_const:
                    bad = c
        ck.check(bad is None, rule, mod, s, fn.name, u(s)[:140], 'no exact equality on a floating-point reduction',
                 'the assertion compares a floating-point sum with a constant for EXACT equality: it fails '
                 'for most inputs purely through rounding of the final division (internal AssertionError '
                 'instead of a model)')
    return n


def d2_warning(ck, mod, fn, loop):
    rule = 'C12.D2.warning'
    n = check_warn_calls(ck, rule + '.wellformed', mod, [(fn.name, fn)])
    ws = [c for c in calls_in(fn, 'warnings.warn')]
    for c in ws:
        cat = c.args[1] if len(c.args) > 1 else kwarg(c, 'category')
        ck.check(cat is not None and u(cat).endswith('ConvergenceWarning'), rule + '.category', mod, c, fn.name, u(c)[:120],
                 'category is ConvergenceWarning', 'the non-convergence warning must carry category ConvergenceWarning')
        g = mod.parent.get(mod.enclosing_stmt(c))
        ok = isinstance(g, ast.If)
        why = 'warning is not guarded by an iteration-cap test'
        if ok:
            cs = conjuncts(g.test, True)
            ok = cs is not None and len(cs) == 1 and isinstance(cs[0], Cmp)
            if ok:
                cmpn = cs[0]
                lv = u(loop.target)
                cap = u(loop.iter.args[0])
                txt = (u(cmpn.lhs), cmpn.rel, u(cmpn.rhs))
                sat = txt in ((lv, '==', '%s - 1' % cap), (lv, '>=', '%s - 1' % cap), ('%s - 1' % cap, '==', lv),
                              ('%s - 1' % cap, '<=', lv), (lv, '>', '%s - 2' % cap), ('%s + 1' % lv, '==', cap),
                              ('%s + 1' % lv, '>=', cap))
                ok = sat
                why = ('after `for %s in range(%s)` is exhausted %s equals %s - 1 (Python range semantics, also in '
                       'Cython); the condition `%s` can never hold then, so a non-converged model is returned silently'
                       % (lv, cap, lv, cap, u(g.test)))
        ck.check(ok, rule + '.reachable', mod, g if isinstance(g, ast.If) else c, fn.name,
                 u(g.test) if isinstance(g, ast.If) else u(c)[:80],
                 'the warning fires exactly when the iteration cap was exhausted', why)
        # must come after the loop
        fi = finfo(mod, fn)
        ck.check(fi.cfg.reachable(loop, mod.enclosing_stmt(c)) and not any(x is c for x in ast.walk(loop)), rule + '.reachable', mod, c, fn.name,
                 'position of the warning', 'warning is evaluated after the iteration loop', 'the cap test must follow the loop')
    ck.floor(rule + '.wellformed', len(ws), 1, 'convergence warning in %s' % fn.name)
    # convergence test inside the loop: break when |logl - oldlogl| <= tol
    conv = [s for s in loop.body if isinstance(s, ast.If) and 'tol' in names_loaded(s.test)]
    ok = len(conv) == 1
    if ok:
        cs = conjuncts(conv[0].test, True)
        less = cs[0].as_less() if cs and isinstance(cs[0], Cmp) else None
        ok = less is not None and u(less[0]) == 'tol' and u(less[2]) in ('abs(logl - oldlogl)', 'np.abs(logl - oldlogl)', 'fabs(logl - oldlogl)') \
            and any(u(x) == 'oldlogl = logl' for x in conv[0].body) and any(isinstance(x, ast.Break) for x in conv[0].orelse)
    ck.check(ok, 'C12.D2.convergence', mod, conv[0] if conv else loop, fn.name, u(conv[0].test) if conv else 'convergence test',
             'continue while the change of the pseudo log-likelihood exceeds tol, else break',
             'the loop must continue (oldlogl = logl) while abs(logl - oldlogl) > tol and break otherwise')


def d5_result(ck, mod, fn, impl):
    rule = 'C12.D5.result'
    T = [s for s in assigns_to(fn, 'T') if isinstance(s, ast.Assign)]
    ok = len(T) == 1 and u(T[0].value) in ('X / X.sum(axis=-1).reshape(len(X), 1)', 'X / X.sum(axis=1).reshape(len(X), 1)',
                                            'X / X.sum(axis=1)[:, None]', 'X / X.sum(axis=-1)[:, None]',
                                            'X / X.sum(axis=1).reshape((-1, 1))', 'X / X.sum(axis=1).reshape(-1, 1)')
    ck.check(ok, rule, mod, T[0] if T else fn, fn.name, u(T[0]) if T else 'T', 'T = X / rowsum(X) (column-vector broadcast)',
             '%s: T must be X divided by its row sums shaped (n, 1)' % impl)
    pi = [s for s in assigns_to(fn, 'pi') if isinstance(s, ast.Assign)]
    ok = len(pi) == 1 and u(pi[0].value) in ('X_rs / X_rs.sum()', 'X_rs / X_rs.sum()[..., None]', 'X_rs / np.sum(X_rs)')
    ck.check(ok, rule, mod, pi[0] if pi else fn, fn.name, u(pi[0]) if pi else 'pi', 'pi = rowsum(X) / sum(X)',
             '%s: pi must be X_rs / X_rs.sum()' % impl)
    r = returns_of(fn)
    ck.check(len(r) == 1 and u(r[0].value) == '(T, pi)', rule, mod, r[0] if r else fn, fn.name, u(r[0]) if r else 'return',
             'returns (T, pi)', '%s must return (T, pi)' % impl)
    # initialisation
    X = [s for s in walk_local(fn) if isinstance(s, ast.Assign) and u(s.targets[0]) == 'X']
    ok = len(X) == 1 and u(X[0].value) in ('C + C.T', 'C.T + C')
    ck.check(ok, rule + '.init', mod, X[0] if X else fn, fn.name, u(X[0]) if X else 'X', 'X starts as C + C^T', 'X must be initialised to C + C.T')
    for nm, src in (('X_rs', 'X'), ('C_rs', 'C')):
        ss = [s for s in walk_local(fn) if isinstance(s, ast.Assign) and u(s.targets[0]) == nm and 'sum' in u(s.value)]
        ok = len(ss) == 1 and u(ss[0].value) == '%s.sum(axis=1)' % src
        ck.check(ok, rule + '.init', mod, ss[0] if ss else fn, fn.name, u(ss[0]) if ss else nm, '%s = row sums of %s' % (nm, src),
                 '%s must be %s.sum(axis=1)' % (nm, src))
        pos = [s for s in walk_local(fn) if isinstance(s, ast.Assert) and u(s.test) in CS('np.all(%s > 0)' % nm, '(%s > 0).all()' % nm)]
        ck.check(len(pos) == 1, rule + '.precondition', mod, pos[0] if pos else fn, fn.name, 'assert np.all(%s > 0)' % nm,
                 'every state has counts (precondition after trimming)', 'the estimator must reject states without counts')


def check(ck):
    mp, mx = ck.repo.mod(BU), ck.repo.mod(LM)
    fp, fx = mp.func('_prinz_mle_py'), mx.func('_mle_prinz_dense')
    lp, lx = d3_siblings(ck)
    if lp is not None:
        d3_reference(ck, mp, fp, lp, 'builders._prinz_mle_py', 'len(C)')
        d3_reference(ck, mx, fx, lx, 'libmsm._mle_prinz_dense', 'n_states')
        d2_warning(ck, mp, fp, lp)
        d2_warning(ck, mx, fx, lx)
    n = d1_no_exact_float_asserts(ck, mp, fp) + d1_no_exact_float_asserts(ck, mx, fx)
    ck.floor('C12.D1.no-exact-float-assert', n, 8, 'assertions in the two estimators')
    d5_result(ck, mp, fp, 'builders._prinz_mle_py')
    d5_result(ck, mx, fx, 'libmsm._mle_prinz_dense')
    # work on a float copy (python)
    cp = [s for s in assigns_to(fp, 'C') if isinstance(s, ast.Assign)]
    ok = len(cp) == 1 and u(cp[0].value) in ('C.copy().astype(float)', 'C.astype(float)', 'np.array(C, dtype=float)', 'C.astype(float).copy()')
    ck.check(ok, 'C12.D4.copy', mp, cp[0] if cp else fp, '_prinz_mle_py', u(cp[0]) if cp else 'C', 'the iteration works on a float copy of the counts',
             '_prinz_mle_py must copy the counts to float before iterating')
    # mle: densify + rewrap (shared with C04)
    from .C04 import d5_mle
    d5_mle(ck, mp)
    check_no_arg_mutation(ck, 'C12.D6.inputs-unmodified', [(BU, 'mle'), (BU, '_prinz_mle_py'), (LM, '_mle_prinz_dense'), (BU, '_prinz_mle')])
    # _prinz_mle dispatch
    fd = mp.func('_prinz_mle')
    cs = [c for c in calls_in(fd) if call_name(c) == '_mle_prinz_dense']
    ck.check(len(cs) == 1 and u(cs[0].args[0]) == 'C', 'C12.D4.dispatch', mp, cs[0] if cs else fd, '_prinz_mle', u(cs[0]) if cs else '?',
             'dense input goes to the compiled estimator', '_prinz_mle must call _mle_prinz_dense(C, ...)')
    return EXPLANATION

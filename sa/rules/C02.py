"""C02 K-centers: farthest point, stopping rule, shortcut (structural clauses).

The constructs are located by ROLE (positional parameters of the iteration
functions, the call that invokes the iteration inside the main loop, what is
returned, what is stored under which mask, which branch conditions dominate a
statement) and their contents are compared after expansion of temporaries and
canonicalisation against lists of accepted forms.  A recognised construct
with a different content is a VIOLATION; a shape the rule cannot see through
is reported as analysis-incomplete."""
import ast
import itertools

from .. import nullness
from ..cfg import ENTRY, EXIT, Assume, header_uses
from ..core import (AnalysisIncomplete, arg_or_kw, call_name, const_value,
                    names_loaded, params, target_names, u, walk_expr, walk_local)
from ..match import C, canon, classify, match
from ..patterns import (Cmp, calls_in, conjuncts, finfo, returns_of,
                        subscript_stores)
from .cluster_common import KC, check_running_min_commit

EXPLANATION = (
    'Static decision of the structural necessary conditions of C02: (D1) the '
    'next centre index is argmax of the running-minimum distance array (MPI: '
    'argmax over all-gathered local maxima, index from the matching all-'
    'gathered local argmax) and a cold start has +inf distances so frame 0 is '
    'first; (D2) the main-loop guard is exactly the conjunction of the strict '
    'tests count < n_clusters and maxdist > dist_cutoff with maxdist '
    'recomputed from the distances returned by the same trip, and on every '
    'path into the loop the counted index list has one entry per centre '
    '(cold: both empty; warm: one per supplied centre); (D3) no name is '
    'possibly unbound after a zero-trip loop (must-def dataflow over the CFG); '
    '(D4) on each of the four None/not-None input combinations the stopping '
    'criteria are non-None at the guard (nullness dataflow with branch '
    'pruning); (D5) the triangle-inequality shortcut recomputes frames with '
    'd > d(centre,new)/k, k<=2, seeds the candidate with a COPY of the current '
    'distances and commits through the same strict running-minimum mask, and '
    'measures d(centre,new) on the centres themselves (frames of the data '
    'stand in for them only where kcenters makes every centre that frame). '
    'Optimality (2-approximation) and numeric equality of the two variants '
    'follow by a textbook argument and are not re-proved.')

ITER_FUNCS = ('_kcenters_iteration', '_kcenters_iteration_mpi')
INF_FORMS = ['np.inf', 'float("inf")', 'math.inf', 'np.Inf', 'np.infty', 'numpy.inf', 'np.PINF',
             'float("+inf")', 'float("Infinity")', 'float("infinity")', 'float(np.inf)', 'np.float64(np.inf)',
             'np.float64("inf")', 'float("Inf")', 'float("INF")']


# ---------------------------------------------------------------------------
# generic helpers (candidates for a shared module, see report)

def du_value(fi, nm, strict=True):
    """Value of a single-definition name.  Like FuncInfo.temp_value, but also
    for a name bound to a call the purity oracle does not know
    (`distance_method(...)`, `comm.allgather(...)`): the name then denotes the
    result of THAT call (a def-use fact, the call is not re-evaluated),
    provided the object is never mutated in place and no operand is rebound
    (or, strict, mutated) between the definition and the use."""
    v = fi.temp_value(nm, strict)
    if v is not None:
        return v
    if not (isinstance(nm, ast.Name) and isinstance(nm.ctx, ast.Load)):
        return None
    try:
        defs = fi.defs_of_use(nm)
    except Exception:
        return None
    if len(defs) != 1:
        return None
    site = next(iter(defs))
    if site in ('PARAM', 'UNBOUND') or not isinstance(site, (ast.Assign, ast.AnnAssign)):
        return None
    v = fi.def_value(site, nm.id)
    if v is None or isinstance(v, ast.GeneratorExp):
        return None
    if fi._mutated_in_place(nm.id):
        return None
    use = fi.stmt(nm)
    operands = list(walk_expr(v))
    for c in list(operands):
        # a call of a local single-expression helper also reads the variables
        # of the enclosing function the helper closes over
        if isinstance(c, ast.Call):
            h = local_helper(fi, c.func)
            if h is not None:
                operands += [x for x in ast.walk(h[1]) if isinstance(x, ast.Name) and x.id not in h[0]]
    for m in operands:
        if not (isinstance(m, ast.Name) and isinstance(m.ctx, ast.Load)):
            continue
        if fi.rd.defs_at(site, m.id) != fi.rd.defs_at(use, m.id):
            return None
        for ms in (fi._mutated_in_place(m.id) if strict else []):
            if ms is use or ms is site:
                continue
            if fi.cfg.reachable(site, ms, avoiding=[use]) and fi.cfg.reachable(ms, use, avoiding=[site]):
                return None
    return v


def _helper_expr(stmts):
    """The expression computed by a helper body made only of `return e` and
    `if c: ... [else: ...]` whose branches all return; None otherwise."""
    body = [s for s in stmts if not (isinstance(s, ast.Pass) or (
        isinstance(s, ast.Expr) and isinstance(s.value, ast.Constant)))]
    if not body:
        return None
    s = body[0]
    if isinstance(s, ast.Return) and s.value is not None:
        return s.value
    if isinstance(s, ast.If):
        a = _helper_expr(s.body)
        if s.orelse:
            b = _helper_expr(s.orelse)
        else:
            b = _helper_expr(body[1:])
        if a is None or b is None:
            return None
        return ast.IfExp(test=s.test, body=a, orelse=b)
    return None


def local_helper(fi, func):
    """If the Name `func` (callee of a call) is bound to a nested def of the
    analysed function that merely computes an expression of its positional
    parameters and of names of the enclosing scope: (param names, expr)."""
    if not isinstance(func, ast.Name):
        return None
    try:
        defs = fi.defs_of_use(func)
    except Exception:
        return None
    if len(defs) != 1:
        return None
    h = next(iter(defs))
    if not isinstance(h, ast.FunctionDef) or h.decorator_list:
        return None
    a = h.args
    if a.vararg or a.kwarg or a.kwonlyargs or a.defaults or a.posonlyargs:
        return None
    e = _helper_expr(h.body)
    if e is None:
        return None
    for n in ast.walk(e):
        if isinstance(n, (ast.Lambda, ast.comprehension, ast.NamedExpr, ast.Yield, ast.YieldFrom, ast.Await)):
            return None
    return [x.arg for x in a.args], e


def du_expand(fi, expr, stop=(), strict=True, depth=8, inline=True):
    """FuncInfo.expand with def-use resolution of call-valued names
    (du_value) and inlining of local single-expression helpers.  Every Name
    of the result that stems from a Name of the analysed function carries
    the attribute `_orig` (that node), so that reaching definitions can still
    be asked for the operands of the expanded expression."""

    def subst(e, env, at=None):
        if isinstance(e, ast.Name):
            if e.id in env and isinstance(e.ctx, ast.Load):
                return env[e.id]
            n = ast.Name(id=e.id, ctx=e.ctx)
            if at is not None and isinstance(e.ctx, ast.Load):
                # a free name of the helper: the closure reads the variable of
                # the enclosing function when the CALL is evaluated - the
                # provenance of the read is the statement of the call
                fi.stmt_of[n] = at
                n._orig = n
            return n
        if not isinstance(e, ast.AST):
            return e
        if isinstance(e, (ast.expr_context, ast.operator, ast.unaryop, ast.boolop, ast.cmpop)):
            return e
        new = type(e)()
        for f in e._fields:
            val = getattr(e, f, None)
            if isinstance(val, list):
                setattr(new, f, [subst(x, env, at) for x in val])
            elif isinstance(val, ast.AST):
                setattr(new, f, subst(val, env, at))
            else:
                setattr(new, f, val)
        return new

    def ex(e, d):
        if isinstance(e, ast.Name):
            if d > 0 and e.id not in stop and isinstance(e.ctx, ast.Load):
                v = du_value(fi, e, strict)
                if v is not None:
                    return ex(v, d - 1)
            new = ast.copy_location(ast.Name(id=e.id, ctx=e.ctx), e)
            new._orig = getattr(e, '_orig', e)
            return new
        if not isinstance(e, ast.AST):
            return e
        if isinstance(e, (ast.expr_context, ast.operator, ast.unaryop, ast.boolop, ast.cmpop)):
            return e
        if inline and d > 0 and isinstance(e, ast.Call) and not e.keywords and \
                not any(isinstance(a, ast.Starred) for a in e.args):
            h = local_helper(fi, e.func)
            if h is not None and len(h[0]) == len(e.args):
                env = dict(zip(h[0], [ex(a, d) for a in e.args]))
                at = None
                try:
                    at = fi.stmt(getattr(e, '_src', e))
                except Exception:
                    pass
                return subst(h[1], env, at)
        new = type(e)()
        for f in e._fields:
            val = getattr(e, f, None)
            if isinstance(val, list):
                setattr(new, f, [ex(x, d) for x in val])
            elif isinstance(val, ast.AST):
                setattr(new, f, ex(val, d))
            else:
                setattr(new, f, val)
        for a in ('lineno', 'col_offset', 'end_lineno', 'end_col_offset'):
            if hasattr(e, a):
                setattr(new, a, getattr(e, a))
        new._src = getattr(e, '_src', e)
        return new
    return ex(expr, depth)


def alias_chain(fi, v):
    """Names through which the expression `v` is a plain copy of another
    name: v itself if it is a Name, the Name it is (solely) defined as, and
    so on (`a = b; b = c` -> [a-use, b-use, c-use]).  Every element denotes
    the same value as `v` at the place where `v` is evaluated (du_value
    guarantees a single reaching definition and no rebinding in between)."""
    out = []
    while isinstance(v, ast.Name) and isinstance(v.ctx, ast.Load) and len(out) < 8:
        out.append(v)
        v = du_value(fi, v)
    return out


def object_sites(fi, nm, depth=6):
    """{(definition site, name)} that create the object a Name use can
    denote: reaching definitions, with plain reference copies `x = y`
    followed to the definitions of y reaching the copy."""
    out = set()
    for d in fi.defs_of_use(nm):
        v = fi.def_value(d, nm.id) if d not in ('PARAM', 'UNBOUND') else None
        if isinstance(v, ast.Name) and isinstance(v.ctx, ast.Load) and depth > 0:
            out |= object_sites(fi, v, depth - 1)
        else:
            out.add((d, nm.id))
    return out


def same_computation(fi, a, b):
    """Two expressions produced by du_expand denote the same value: equal
    text, every name stems from uses that denote the same value
    (FuncInfo.same_value, no in-place mutation of the object between the two
    uses), and every call that is not known to be pure is one and the same
    call site in both (a def-use fact: the value of THAT call, held in a
    single-definition name, is used twice)."""
    if u(a) != u(b):
        return False
    na, nb = list(ast.walk(a)), list(ast.walk(b))
    if len(na) != len(nb):
        return False
    for p, r in zip(na, nb):
        if type(p) is not type(r):
            return False
        if isinstance(p, ast.Name):
            op, orr = getattr(p, '_orig', None), getattr(r, '_orig', None)
            if op is None or orr is None:
                return False
            if op is orr:
                continue
            if not fi.same_value(op, orr):
                return False
            sp, sr = fi.stmt(op), fi.stmt(orr)
            for ms in fi._mutated_in_place(p.id):
                if ms is sp or ms is sr:
                    continue
                if (fi.cfg.reachable(sp, ms) and fi.cfg.reachable(ms, sr)) or \
                        (fi.cfg.reachable(sr, ms) and fi.cfg.reachable(ms, sp)):
                    return False
        elif isinstance(p, ast.Call):
            if getattr(p, '_src', None) is not None and getattr(p, '_src', None) is getattr(r, '_src', None):
                continue
            if not _shallow_pure(p):
                return False
    return True


def _shallow_pure(call):
    """The call itself (callee applied to already evaluated receiver and
    arguments) is pure according to the purity oracle of the front end."""
    from ..normal import is_pure
    ph = ast.Name(id='_operand', ctx=ast.Load())
    func = _strip(call.func)
    if isinstance(func, ast.Attribute):
        base = func.value
        while isinstance(base, ast.Attribute):
            base = base.value
        if not isinstance(base, ast.Name):
            func.value = ph
    elif not isinstance(func, ast.Name):
        return False
    c = ast.Call(func=func, args=[ph for _ in call.args],
                 keywords=[ast.keyword(arg=k.arg, value=ph) for k in call.keywords])
    return is_pure(c)


def cx(node):
    """Canonical tree (provenance attributes dropped)."""
    return canon(_strip(node))


def _strip(node):
    """Plain copy of a tree without positions / provenance attributes."""
    def cp(e):
        if not isinstance(e, ast.AST):
            return e
        if isinstance(e, (ast.expr_context, ast.operator, ast.unaryop, ast.boolop, ast.cmpop)):
            return e
        n = type(e)()
        for f in e._fields:
            val = getattr(e, f, None)
            if isinstance(val, list):
                setattr(n, f, [cp(x) for x in val])
            elif isinstance(val, ast.AST):
                setattr(n, f, cp(val))
            else:
                setattr(n, f, val)
        return n
    return cp(node)


def ctext(node):
    return u(cx(node))


def cls(node, pats, scope=None, near=2):
    """match.classify; with `scope`, an expression that is not closed over
    the scope but differs from an accepted form in at most `near` positions
    (argmin for argmax, another array, another constant) is still `near`."""
    node = _strip(node)
    if scope is None:
        return classify(node, pats, near=near)
    v = classify(node, pats, scope=scope)
    if v[0] == 'far' and v[1] <= near:
        return ('near',) + tuple(v[1:])
    return v


def origins(node, name):
    """Original Name nodes (of the analysed function) behind the occurrences
    of `name` in an expression produced by du_expand."""
    out = []
    for x in ast.walk(node):
        if isinstance(x, ast.Name) and x.id == name:
            out.append(getattr(x, '_orig', None))
    return out


def dominating_facts(fi, stmt):
    """Atomic facts (patterns.conjuncts items) known to hold whenever `stmt`
    executes: the conjuncts of every branch condition (with its polarity)
    whose Assume node dominates the statement.  A dominating condition that is
    not a conjunction under its polarity is returned as ('opaque', test, pol)."""
    out = []
    for n in fi.cfg.nodes:
        if isinstance(n, Assume) and fi.cfg.dominates(n, stmt):
            test = fi.expand(n.test)        # a named flag stands for its definition
            cs = conjuncts(test, n.polarity)
            if cs is None:
                out.append(('opaque', test, n.polarity))
            else:
                out.extend(cs)
    return out


def fact_expr(f):
    """(expression, polarity) of a fact."""
    if isinstance(f, Cmp):
        return ast.Compare(left=f.lhs, ops=[f.op()], comparators=[f.rhs]), True
    return f[1], f[2]


def _inside(mod, node, anc):
    p = node
    while p is not None:
        if p is anc:
            return True
        p = mod.parent.get(p)
    return False


# ---------------------------------------------------------------------------
# roles

def iteration_roles(fn):
    """Positional roles of an iteration function (the call site in kcenters
    passes them by position; `centers` and `use_triangle_inequality` by
    keyword)."""
    P = params(fn)
    if len(P) < 5:
        raise AnalysisIncomplete('%s has fewer than 5 parameters' % fn.name)
    r = {'T': P[0], 'DM': P[1], 'D': P[2], 'A': P[3], 'L': P[4],
         'USE': 'use_triangle_inequality' if 'use_triangle_inequality' in P else None,
         'CS': 'centers' if 'centers' in P else None}
    return r


def _is_iteration_callee(fi, func):
    if not isinstance(func, ast.Name):
        return False
    if func.id in ITER_FUNCS:
        return True
    try:
        defs = fi.defs_of_use(func)
    except Exception:
        return False
    if not defs:
        return False
    for site in defs:
        if site in ('PARAM', 'UNBOUND'):
            return False
        v = fi.def_value(site, func.id)
        alts = [v.body, v.orelse] if isinstance(v, ast.IfExp) else [v]
        if not all(isinstance(a, ast.Name) and a.id in ITER_FUNCS for a in alts):
            return False
    return True


def main_loop(fi):
    """[(while loop, iteration call)] of kcenters: the while loops whose body
    calls one of the iteration functions (directly or through a local name
    every definition of which is one of them)."""
    out = []
    for w in walk_local(fi.fn):
        if not isinstance(w, ast.While):
            continue
        cs = [c for s in w.body for c in walk_expr(s) if isinstance(c, ast.Call)
              and _is_iteration_callee(fi, c.func)]
        if cs:
            out.append((w, cs[0]))
    return out


def kcenters_roles(ck, rule, mod):
    """Names playing the roles in kcenters, found from the iteration call."""
    fn = mod.func('kcenters')
    fi = finfo(mod, fn)
    ml = main_loop(fi)
    if len(ml) != 1:
        ck.missing(rule, 'main while loop calling the iteration function (found %d)' % len(ml))
        return None
    w, call = ml[0]
    got = {}
    for role, pos, kw in (('T', 0, 'traj'), ('D', 2, 'distances'), ('A', 3, 'assignments'), ('L', 4, 'center_inds')):
        a = arg_or_kw(call, pos, kw)
        if not isinstance(a, ast.Name):
            ck.missing(rule, 'argument %d (%s) of the iteration call is not a plain name: %s' % (pos, kw, u(call)[:120]))
            return None
        got[role] = a.id
    P = params(fn)
    got['NC'] = 'n_clusters' if 'n_clusters' in P else (P[2] if len(P) > 2 else None)
    got['DC'] = 'dist_cutoff' if 'dist_cutoff' in P else (P[3] if len(P) > 3 else None)
    got['MPI'] = 'mpi_mode' if 'mpi_mode' in P else None
    if got['NC'] is None or got['DC'] is None:
        ck.missing(rule, 'n_clusters / dist_cutoff parameters of kcenters')
        return None
    got.update(fn=fn, fi=fi, loop=w, call=call)
    return got


# ---------------------------------------------------------------------------
# D1

def d1_farthest(ck):
    rule = 'C02.D1.farthest'
    mod = ck.repo.mod(KC)
    n = _d1_serial(ck, rule, mod)
    n += _d1_mpi(ck, rule, mod)
    ck.floor(rule, n, 5, 'farthest-point definitions')
    _d1_coldstart(ck, mod)


def _d1_serial(ck, rule, mod):
    q = '_kcenters_iteration'
    fn = mod.func(q)
    fi = finfo(mod, fn)
    ck.analysed(mod, fn)
    R = iteration_roles(fn)
    T, D = R['T'], R['D']
    forms = ['%s[%s.argmax()]' % (T, D), '%s[int(%s.argmax())]' % (T, D),
             '%s[%s.argmax(axis=0)]' % (T, D), '%s[%s.argmax(0)]' % (T, D)]
    n = 0
    for r in returns_of(fn):
        if not isinstance(r.value, ast.Tuple) or not r.value.elts:
            ck.missing(rule, '%s: return value is not a tuple (new centre first)' % q)
            continue
        first = r.value.elts[0]
        # the definitions of the returned centre, each examined where it is made
        if isinstance(first, ast.Name):
            sites = []
            for site in fi.defs_of_use(first):
                v = fi.def_value(site, first.id) if site not in ('PARAM', 'UNBOUND') else None
                sites.append((site, v))
        else:
            sites = [(r, first)]
        for site, v in sites:
            n += 1
            if v is None:
                ck.missing(rule, '%s: definition of the returned centre `%s` is not a simple assignment' % (q, u(first)))
                continue
            x = fi.expand(v)
            verdict = cls(x, forms, scope={T, D})
            if verdict[0] == 'match':
                # the operand must be the array received as parameter, unchanged
                if fi.rd.defs_at(site, D) != {'PARAM'}:
                    ck.missing(rule, '%s: `%s` is rebound before the farthest point is selected at %s' % (q, D, mod.loc(site)))
                    continue
                early = [ms for ms in fi._mutated_in_place(D) if ms is not site and fi.cfg.reachable(ms, site)]
                if early:
                    ck.missing(rule, '%s: `%s` is modified in place (%s) before the farthest point is selected' % (
                        q, D, u(early[0])[:80]))
                    continue
            ck.decide(verdict, rule, mod, site, q, u(site),
                      'next centre = frame at argmax of the running-minimum distances passed in',
                      'the next centre must be %s[np.argmax(%s)] with `%s` the running-minimum distance '
                      'array received as parameter (farthest-point rule); found `%s`' % (T, D, D, ctext(x)))
    return n


def _empty_fact(f, L):
    """Does the fact say that list L is empty?"""
    if isinstance(f, Cmp):
        l, r = ctext(f.lhs), ctext(f.rhs)
        ln = 'len(%s)' % L
        if f.op is ast.Eq:
            return {l, r} in ({ln, '0'}, {L, '[]'})
        less = f.as_less()
        if less is not None:
            small, strict, big = less
            if ctext(small) == ln and const_value(big) is not None:
                return (strict and const_value(big) == 1) or (not strict and const_value(big) == 0)
        return False
    if f[0] == 'expr':
        return f[2] is False and ctext(f[1]) in (L, 'len(%s)' % L, 'bool(%s)' % L)
    return False


def _d1_mpi(ck, rule, mod):
    q = '_kcenters_iteration_mpi'
    fn = mod.func(q)
    fi = finfo(mod, fn)
    ck.analysed(mod, fn)
    R = iteration_roles(fn)
    D, L = R['D'], R['L']
    n = 0
    df = [c for c in calls_in(fn) if (call_name(c) or '').split('.')[-1] == 'distribute_frame']
    if len(df) != 1:
        ck.missing(rule, 'distribute_frame call in _kcenters_iteration_mpi (found %d)' % len(df))
        return n
    call = df[0]
    cstmt = fi.stmt(call)
    owner = arg_or_kw(call, 2, 'owner_rank')
    widx = arg_or_kw(call, 1, 'world_index')
    empties = [a for a in fi.cfg.nodes if isinstance(a, Assume) and (
        lambda cs: cs is not None and any(_empty_fact(f, L) for f in cs))(conjuncts(a.test, a.polarity))]
    # (np.array(<name>) is spelled <name>.copy() by the front end)
    owner_forms = ['np.array(__.allgather(%s.max())).argmax()' % D, '__.allgather(%s.max()).argmax()' % D,
                   'np.asarray(__.allgather(%s.max())).argmax()' % D, 'int(np.array(__.allgather(%s.max())).argmax())' % D,
                   '__.allgather(%s.max()).copy().argmax()' % D]
    owner_defs = fi.defs_of_use(owner) if isinstance(owner, ast.Name) else set()
    for nm, role in ((owner, 'owner'), (widx, 'index')):
        if not isinstance(nm, ast.Name):
            ck.missing(rule, '%s argument of distribute_frame is not a plain name: %s' % (role, u(nm)))
            continue
        defs = fi.defs_of_use(nm)
        for site in defs:
            v = fi.def_value(site, nm.id) if site not in ('PARAM', 'UNBOUND') else None
            n += 1
            if v is None:
                ck.missing(rule, '%s: definition of `%s` reaching distribute_frame is not a simple assignment' % (q, nm.id))
                continue
            if isinstance(v, ast.Constant):
                # cold start: the first centre is frame 0 of rank 0, admissible
                # only while no centre exists
                if not (v.value == 0 and v.value is not False):
                    ck.bad(rule, mod, site, q, u(site),
                           'a constant %s can only be the cold-start default, which must be frame 0 on rank 0' % role)
                    continue
                others = [d for d in defs if d is not site and d not in ('PARAM', 'UNBOUND')]
                guarded = any(fi.cfg.dominates(e, site) for e in empties) or \
                    not fi.cfg.reachable(site, cstmt, avoiding=list(empties) + others)
                stable = fi.rd.defs_at(cstmt, L) == {'PARAM'} and not any(
                    fi.cfg.reachable(ms, cstmt) for ms in fi._mutated_in_place(L))
                if guarded and not stable:
                    ck.missing(rule, '%s: centre list `%s` is changed before distribute_frame; emptiness at the call not established' % (q, L))
                    continue
                ck.check(guarded, rule, mod, site, q, u(site),
                         'cold start selects frame 0 on rank 0 only when no centre exists',
                         'frame-0/rank-0 default must be guarded by an empty centre list')
                continue
            if role == 'owner':
                x = du_expand(fi, v)
                verdict = cls(x, owner_forms)
                if verdict[0] == 'far' and _index_at_owner(fi, v, None, set(), D)[0][0] == 'match':
                    # positively the other role's value: a frame index where the rank belongs
                    verdict = ('near', verdict[1], verdict[2])
                ck.decide(verdict, rule, mod, site, q, u(site),
                          'owner = argmax over all-gathered local maxima of distances',
                          'owner rank of the next centre must be argmax of the '
                          'all-gathered local maxima of `%s`; found `%s`' % (D, ctext(x)[:160]))
            else:
                verdict, x, od = _index_at_owner(fi, v, owner, owner_defs, D)
                if verdict[0] == 'far' and cls(du_expand(fi, v), owner_forms)[0] == 'match':
                    # positively the other role's value: the rank where the frame index belongs
                    verdict = ('near', verdict[1], verdict[2])
                if verdict[0] == 'match' and isinstance(owner, ast.Name):
                    # the rank used as position must be the owner handed to
                    # distribute_frame: every definition of the owner that can
                    # reach the call on a path through this definition of the
                    # index is one that holds the value used as position
                    via = _defs_reaching_via(fi, owner.id, owner_defs, site, cstmt)
                    paired = bool(via) and via <= od and not (via & {'PARAM', 'UNBOUND', '?'})
                    if not paired:
                        ck.bad(rule, mod, site, q, u(site),
                               'the all-gathered local argmax is taken at a rank that is not (always) the owner '
                               'rank handed to distribute_frame')
                        continue
                ck.decide(verdict, rule, mod, site, q, u(site),
                          'index = all-gathered local argmax at the owner',
                          'local index of the next centre must be the all-gathered '
                          'local argmax of `%s` taken at the owner rank; found `%s`' % (D, ctext(x)[:160]))
    return n


def _defs_reaching_via(fi, name, defs_at_target, site, target):
    """Definitions of `name` that can be the one in force at `target` on an
    execution that passes through `site`."""
    from ..cfg import stmt_defs
    alld = [d for d in fi.cfg.nodes if d not in (ENTRY, EXIT) and not isinstance(d, Assume) and name in stmt_defs(d)]
    out = set()
    if site in alld:
        if fi.cfg.reachable(site, target, avoiding=[d for d in alld if d is not site]):
            out.add(site)
    elif fi.cfg.reachable(site, target, avoiding=alld):
        out |= set(fi.rd.defs_at(site, name))
    for d in defs_at_target:
        if d in ('PARAM', 'UNBOUND') or d is site:
            continue
        if fi.cfg.reachable(site, d):
            out.add(d)
    return out


def _index_at_owner(fi, v, owner, owner_defs, D):
    """Three-valued recognition of a definition `v` of the local index of the
    next centre: the all-gathered local argmax of D, taken at the position of
    the owner rank.  Returns (verdict, expanded expression, definition sites of
    the owner whose value is the one used as position)."""
    def forms(O):
        return ['np.array(__.allgather(%s.argmax()))[%s]' % (D, O), '__.allgather(%s.argmax())[%s]' % (D, O),
                'np.asarray(__.allgather(%s.argmax()))[%s]' % (D, O),
                'int(np.array(__.allgather(%s.argmax()))[%s])' % (D, O),
                '__.allgather(%s.argmax()).copy()[%s]' % (D, O)]
    if not isinstance(owner, ast.Name):
        x = du_expand(fi, v)
        return cls(x, forms('_O')), x, set()
    # names that hold the owner's value: the owner itself and whatever it is a
    # plain copy of (`owner = tmp_owner`)
    chains = {}
    for d in owner_defs:
        ov = fi.def_value(d, owner.id) if d not in ('PARAM', 'UNBOUND') else None
        chains[d] = alias_chain(fi, ov) if ov is not None else []
    S = {owner.id} | {a.id for ch in chains.values() for a in ch}
    x = du_expand(fi, v, stop=tuple(S))
    for O in sorted(S, key=lambda s: (s != owner.id, s)):
        verdict = cls(x, forms(O))
        if verdict[0] != 'match':
            continue
        od = set()
        for o in origins(x, O):
            if o is None:
                od.add('?')
            elif O == owner.id:
                od |= fi.defs_of_use(o)
            else:
                du = fi.defs_of_use(o)
                for d, ch in chains.items():
                    if any(a.id == O and len(du) == 1 and fi.defs_of_use(a) == du for a in ch):
                        od.add(d)
                if not any(any(a.id == O and fi.defs_of_use(a) == du for a in ch) for ch in chains.values()):
                    od.add('?')
        return verdict, x, od
    # the position is spelled out again: the same computation as the owner's
    core = x
    if isinstance(core, ast.Call) and isinstance(core.func, ast.Name) and core.func.id == 'int' \
            and len(core.args) == 1 and not core.keywords:
        core = core.args[0]
    if isinstance(core, ast.Subscript) and not isinstance(core.slice, (ast.Slice, ast.Tuple)):
        od = set()
        for d in owner_defs:
            ov = fi.def_value(d, owner.id) if d not in ('PARAM', 'UNBOUND') else None
            if ov is not None and not isinstance(ov, ast.Constant) and \
                    same_computation(fi, du_expand(fi, ov), core.slice):
                od.add(d)
        if od:
            # the base alone, with the position abstracted
            ph = '_OWNER_POSITION'
            x2 = _strip(x)
            c2 = x2.args[0] if core is not x else x2
            c2.slice = ast.Name(id=ph, ctx=ast.Load())
            verdict = cls(x2, forms(ph))
            if verdict[0] == 'match':
                return verdict, x, od
        else:
            # a different function of the operands the owner is computed from
            # (argmin for argmax, another array): positively another rank
            sx = core.slice
            for d in owner_defs:
                ov = fi.def_value(d, owner.id) if d not in ('PARAM', 'UNBOUND') else None
                if ov is None or isinstance(ov, ast.Constant):
                    continue
                v2 = cls(sx, [u(_strip(du_expand(fi, ov)))], near=2)
                if v2[0] == 'near':
                    return v2, x, set()
    return cls(x, forms(owner.id)), x, set()


def _alloc_parts(e):
    """(shape, fill, dtype) of a constant-fill numpy allocation, else None.
    shape is an expression or ('like', <array expr>); fill is an expression,
    or the string 'uninitialised' for np.empty*."""
    if not isinstance(e, ast.Call):
        return None
    cn = (call_name(e) or '').replace('numpy.', 'np.')
    const = {'np.zeros': ast.Constant(value=0), 'np.ones': ast.Constant(value=1), 'np.empty': 'uninitialised'}
    if cn == 'np.full':
        return arg_or_kw(e, 0, 'shape'), arg_or_kw(e, 1, 'fill_value'), arg_or_kw(e, 2, 'dtype')
    if cn in const:
        return arg_or_kw(e, 0, 'shape'), const[cn], arg_or_kw(e, 1, 'dtype')
    if cn == 'np.full_like':
        a = arg_or_kw(e, 0, 'a')
        return (('like', a) if a is not None else None), arg_or_kw(e, 1, 'fill_value'), arg_or_kw(e, 2, 'dtype')
    if cn[:-5] in const and cn.endswith('_like'):
        a = arg_or_kw(e, 0, 'a')
        return (('like', a) if a is not None else None), const[cn[:-5]], arg_or_kw(e, 1, 'dtype')
    return None


def _shape_verdict(shape, T):
    """Is the allocation one cell per frame of T?  'match' / 'near' / 'far'."""
    if isinstance(shape, tuple):            # *_like(<array>): as long as that array
        inner = _alloc_parts(shape[1])
        if inner is None or inner[0] is None:
            return 'far'
        return _shape_verdict(inner[0], T)
    if u(shape) in (C('len(%s)' % T), C('(len(%s),)' % T), C('[len(%s)]' % T)):
        return 'match'
    return classify(shape, ['len(%s)' % T], scope={T})[0]


def _element_of_call_result(fi, v):
    """`v` denotes element k (a constant position) of the tuple returned by a
    call of a library function that is not a numpy constructor: the unpacking
    `a, b = f(...)` spelled through a temporary (`r = f(...); b = r[1]`)."""
    x = du_expand(fi, v, inline=False)
    if not (isinstance(x, ast.Subscript) and isinstance(x.value, ast.Call)):
        return False
    k = const_value(x.slice)
    if not isinstance(k, int) or isinstance(k, bool):
        return False
    cn = call_name(x.value) or ''
    return bool(cn) and not cn.startswith(('np.', 'numpy.')) and _alloc_parts(x.value) is None


def _d1_coldstart(ck, mod):
    rule = 'C02.D1.coldstart'
    K = kcenters_roles(ck, rule, mod)
    if K is None:
        return
    fn, fi, w = K['fn'], K['fi'], K['loop']
    ck.analysed(mod, fn)
    T = K['T']
    spec = (
        (K['D'], 'np.inf', [C(f) for f in INF_FORMS],
         ('None', 'float', 'np.float64', 'np.double', 'np.float_', "'float'", "'float64'", "'f8'", 'np.longdouble'),
         ['np.ones(len(%s)) * np.inf' % T, 'np.inf * np.ones(len(%s))' % T, 'np.zeros(len(%s)) + np.inf' % T,
          'np.repeat(np.inf, len(%s))' % T, 'np.array([np.inf] * len(%s))' % T]),
        (K['A'], '-1', [C('-1')],
         ('None', 'int', 'np.int64', 'np.intp', 'np.int_', "'int'", "'int64'", "'i8'", 'np.int32'),
         ['-np.ones(len(%s), dtype=int)' % T, 'np.ones(len(%s), dtype=int) * -1' % T, '-1 * np.ones(len(%s), dtype=int)' % T,
          'np.zeros(len(%s), dtype=int) - 1' % T, 'np.repeat(-1, len(%s))' % T, 'np.array([-1] * len(%s))' % T]),
    )
    for name, fill, fills, dtypes, others in spec:
        found = 0
        for site in fi.rd.defs_at(w, name):
            if site in ('PARAM', 'UNBOUND') or _inside(mod, site, w):
                continue
            v = fi.def_value(site, name)
            if v is None:
                continue            # warm start: unpacked from assign_to_nearest_center
            if _element_of_call_result(fi, v):
                continue            # the same, spelled `r = f(...); name = r[k]`
            found += 1
            x = cx(fi.expand(v))
            parts = _alloc_parts(x)
            why_bad = 'cold start must initialise %s to %s for every frame of %s (so that frame 0 is the first ' \
                      'farthest point and every frame is claimed by the first centre)' % (name, fill, T)
            if parts is not None and parts[0] is not None and parts[1] is not None:
                shape, fv, dt = parts
                sv = _shape_verdict(shape, T)
                if sv != 'match':
                    ck.decide(sv, rule, mod, site, 'kcenters', u(site), '', why_bad)
                    continue
                if isinstance(fv, str):
                    ck.bad(rule, mod, site, 'kcenters', u(site), why_bad + '; the array is left uninitialised')
                    continue
                if u(fv) not in fills:
                    ck.decide(classify(fv, [fill], scope=set()), rule, mod, site, 'kcenters', u(site), '', why_bad)
                    continue
                if dt is None and isinstance(shape, tuple):
                    ck.missing(rule, 'dtype of `%s` is inherited from another array' % u(site)[:100])
                    continue
                if u(dt) not in dtypes:
                    wrong = u(dt) in (('int', 'np.int64', 'bool', 'np.intp', 'np.int32') if fill == 'np.inf' else
                                      ('float', 'np.float64', 'bool', 'np.float32'))
                    dc = dtype_class(dt)
                    if fill == 'np.inf' and dc == 'narrow':
                        ck.bad(rule, mod, site, 'kcenters', u(site),
                               'the running-minimum distance array is allocated as %s: every distance the metric returns is '
                               'rounded to that type when it is committed, so the argmax that picks the next centre and the '
                               'radius compared with the cutoff work on rounded values (ties / early stop for distances closer '
                               'than its resolution); it must hold double precision (dtype float)' % u(dt))
                    elif wrong or (fill == 'np.inf' and dc in ('int', 'bool')) or (fill == '-1' and dc in ('f64', 'narrow', 'bool')):
                        ck.bad(rule, mod, site, 'kcenters', u(site), why_bad + '; dtype %s cannot hold it' % u(dt))
                    else:
                        ck.missing(rule, 'dtype `%s` of the cold-start %s array not recognised' % (u(dt), name))
                    continue
                ck.ok(rule, mod, site, u(site), 'cold start: %s = %s for every frame' % (name, fill))
            else:
                # some other expression: accepted spellings, a small edit of one
                # (wrong constant / sign) is a violation, anything else unknown
                ck.decide(cls(x, others, near=2), rule, mod, site, 'kcenters', u(site),
                          'cold start: %s = %s for every frame' % (name, fill), why_bad)
        if not found:
            ck.missing(rule, 'cold-start initialisation of %s (the array handed to the iteration) before the main loop' % name)


# ---------------------------------------------------------------------------
# D1 (precision): the running minimum is held in the metric's precision

_F64 = {'float', 'np.float64', 'np.double', 'np.float_', 'np.longdouble', 'np.float128', 'numpy.float64', 'np.longfloat'}
_F64_STR = {'float', 'float64', 'f8', 'd', '<f8', '=f8', 'double', 'longdouble', 'float128', 'g', 'f16'}
_NARROW = {'np.float32', 'np.float16', 'np.single', 'np.half', 'numpy.float32', 'numpy.float16', 'np.bfloat16'}
_NARROW_STR = {'float32', 'float16', 'f4', 'f2', 'f', 'e', '<f4', '=f4', '<f2', '=f2', 'single', 'half'}
_INT = {'int', 'np.int64', 'np.intp', 'np.int_', 'np.int32', 'np.int16', 'np.int8', 'np.uint8', 'np.uint16',
        'np.uint32', 'np.uint64', 'np.uintp', 'np.long', 'np.longlong'}
_INT_STR = {'int', 'int64', 'int32', 'int16', 'int8', 'i8', 'i4', 'i2', 'i1', 'u8', 'u4', 'u2', 'u1', 'uint8',
            'uint16', 'uint32', 'uint64', 'intp', 'l', 'q', 'i'}


def dtype_class(dt):
    """Class of a dtype expression: 'f64' (double precision or wider float),
    'narrow' (a float type with fewer than 53 significand bits), 'int',
    'bool', or None (not a literal dtype the rule knows)."""
    if dt is None:
        return None
    if isinstance(dt, ast.Call) and (call_name(dt) or '') in ('np.dtype', 'numpy.dtype') and len(dt.args) == 1 and not dt.keywords:
        return dtype_class(dt.args[0])
    if isinstance(dt, ast.Constant) and isinstance(dt.value, str):
        s = dt.value.strip()
        return 'f64' if s in _F64_STR else 'narrow' if s in _NARROW_STR else 'int' if s in _INT_STR else \
            'bool' if s in ('bool', '?', 'b1') else None
    t = u(dt)
    return 'f64' if t in _F64 else 'narrow' if t in _NARROW else 'int' if t in _INT else \
        'bool' if t in ('bool', 'np.bool_', 'np.bool') else None


def narrowing_casts(root):
    """[(call, dtype expr, operand-or-None)] for every construct under `root`
    that produces a float value of less than double precision: `x.astype(T)`,
    a numpy constructor / conversion with `dtype=T`, the scalar constructors
    `np.float32(x)` ..., `x.view(T)` excluded (reinterpretation, not rounding)."""
    out = []
    for c in ast.walk(root):
        if not isinstance(c, ast.Call):
            continue
        cn = call_name(c) or ''
        if isinstance(c.func, ast.Attribute) and c.func.attr == 'astype' and (c.args or c.keywords):
            dt = arg_or_kw(c, 0, 'dtype')
            if dtype_class(dt) == 'narrow':
                out.append((c, dt, c.func.value))
            continue
        if cn in _NARROW and len(c.args) == 1:
            out.append((c, c.func, c.args[0]))
            continue
        for k in c.keywords:
            if k.arg == 'dtype' and dtype_class(k.value) == 'narrow':
                out.append((c, k.value, c.args[0] if c.args else None))
        if cn in ('np.full', 'np.full_like') and len(c.args) >= 3 and dtype_class(c.args[2]) == 'narrow':
            out.append((c, c.args[2], None))
        elif cn in ('np.zeros', 'np.ones', 'np.empty', 'np.array', 'np.asarray', 'np.zeros_like', 'np.ones_like',
                    'np.empty_like', 'np.asanyarray', 'np.ascontiguousarray') \
                and len(c.args) >= 2 and dtype_class(c.args[1]) == 'narrow':
            out.append((c, c.args[1], None))
    return out


def upstream_names(fi, seeds):
    """Names whose values flow into the names in `seeds` inside the analysed
    function: the backward closure over plain assignments, augmented
    assignments and subscript stores (`n[...] = v` makes the operands of v
    flow into n)."""
    out = set(seeds)
    edges = {}
    for s in walk_local(fi.fn):
        if isinstance(s, ast.Assign):
            for t in s.targets:
                for tt in (t.elts if isinstance(t, (ast.Tuple, ast.List)) else [t]):
                    base = tt
                    while isinstance(base, (ast.Subscript, ast.Attribute, ast.Starred)):
                        base = base.value
                    if isinstance(base, ast.Name):
                        edges.setdefault(base.id, set()).update(names_loaded(s.value))
        elif isinstance(s, (ast.AugAssign, ast.AnnAssign)) and s.value is not None:
            base = s.target
            while isinstance(base, (ast.Subscript, ast.Attribute)):
                base = base.value
            if isinstance(base, ast.Name):
                edges.setdefault(base.id, set()).update(names_loaded(s.value))
    work = list(out)
    while work:
        n = work.pop()
        for m in edges.get(n, ()):
            if m not in out:
                out.add(m)
                work.append(m)
    return out


def d1_precision(ck):
    """The next centre is the argmax, and the covering radius the maximum, of
    the running minimum of the distances the metric returned.  Both are exact
    only if that state - the distance array, the candidate committed into it,
    the radius variable - holds the metric's values unrounded: a conversion
    to a float type narrower than double on the way into it merges distances
    that differ (ties broken towards the lower index although another frame
    is strictly farther; a radius just above the cutoff rounded onto it)."""
    rule = 'C02.D1.precision'
    mod = ck.repo.mod(KC)
    n = 0
    for q in ('kcenters',) + ITER_FUNCS:
        fn = mod.func(q)
        fi = finfo(mod, fn)
        if q == 'kcenters':
            K = kcenters_roles(ck, rule, mod)
            if K is None:
                continue
            seeds = {K['D']}
            # the radius: what the loop test / the guard clauses of the loop compare with the cutoff
            tests = [K['loop'].test] + [a.test for a in fi.cfg.nodes if isinstance(a, Assume) and a.polarity
                                        and _inside(mod, a.owner, K['loop'])]
            for t in tests:
                for cmpn in ast.walk(t):
                    if isinstance(cmpn, ast.Compare) and K['DC'] in [ctext(x) for x in [cmpn.left] + cmpn.comparators]:
                        seeds |= names_loaded(cmpn)
            seeds.discard(K['DC'])
            D = K['D']
        else:
            D = iteration_roles(fn)['D']
            seeds = {D}
        n += 1
        flow = upstream_names(fi, seeds)
        casts = narrowing_casts(fn)
        for c, dt, operand in casts:
            s = fi.stmt(c)
            if isinstance(s, ast.Expr) and isinstance(s.value, ast.Call) and (call_name(s.value) or '').split('.')[0] in (
                    'logger', 'logging', 'print', 'warnings'):
                continue
            targets = set()
            if isinstance(s, ast.Assign):
                for t in s.targets:
                    for tt in (t.elts if isinstance(t, (ast.Tuple, ast.List)) else [t]):
                        base = tt
                        while isinstance(base, (ast.Subscript, ast.Attribute, ast.Starred)):
                            base = base.value
                        if isinstance(base, ast.Name):
                            targets.add(base.id)
            elif isinstance(s, (ast.AugAssign, ast.AnnAssign)):
                base = s.target
                while isinstance(base, (ast.Subscript, ast.Attribute)):
                    base = base.value
                if isinstance(base, ast.Name):
                    targets.add(base.id)
            elif isinstance(s, ast.Return):
                targets |= {D} if D in names_loaded(s) else set()
            if targets & flow:
                ck.bad(rule, mod, s, q, u(s)[:200],
                       '`%s` produces %s values and flows into the running-minimum distance state (`%s`): the distances the '
                       'metric returns (double precision for the built-in metrics and for callables) are rounded to the '
                       'narrower type before the argmax that picks the next centre and the maximum that is compared with the '
                       'cutoff. Two candidates closer than that resolution become a tie (the lower index wins although the '
                       'other frame is strictly farther) and a radius slightly above the cutoff is rounded onto it (the loop '
                       'stops one centre early)' % (u(c)[:100], u(dt), '`, `'.join(sorted(targets & flow))))
            else:
                ck.missing(rule, '%s: `%s` converts to %s; whether the value reaches the running-minimum distances `%s` is '
                           'not established' % (q, u(s)[:100], u(dt), D))
        if not casts:
            ck.ok(rule, mod, fn, '%s: no conversion to a float type narrower than double' % q,
                  'the running minimum, the candidate distances and the radius keep the precision of the metric')
    ck.floor(rule, n, 3, 'functions holding the running-minimum distance state')


# ---------------------------------------------------------------------------
# D2

def _radius_alt(alt, D):
    """'serial' / 'mpi' if alt is the (local / all-reduced) maximum of D."""
    if match('%s.max()' % D, alt) is not None:
        return 'serial'
    if isinstance(alt, ast.Call) and (call_name(alt) or '').split('.')[-1] == 'striped_array_max' \
            and len(alt.args) == 1 and not alt.keywords and u(alt.args[0]) == D:
        return 'mpi'
    return None


def _radius_value(fi, v, K):
    """Three-valued recognition of a definition of the covering radius.
    Returns (verdict, why, origin Name nodes of the distance array, kind):
    kind is 'serial' (local maximum), 'mpi' (all-reduced maximum) or
    'switch' (conditional expression on the serial/MPI flag)."""
    D, MPI = K['D'], K['MPI']
    x = du_expand(fi, v, stop=(D,))
    org = origins(x, D)
    xc = cx(x)
    forms = ['%s.max()' % D, 'mpi.ops.striped_array_max(%s)' % D,
             'mpi.ops.striped_array_max(%s) if %s else %s.max()' % (D, MPI, D)]
    alts = [xc.body, xc.orelse] if isinstance(xc, ast.IfExp) else [xc]
    kinds = [_radius_alt(a, D) for a in alts]
    if any(k is None for k in kinds):
        verdict = cls(xc, forms, scope={D, MPI} if MPI else {D})
        if verdict[0] == 'match':
            verdict = ('far', 0, None)
        return verdict, '`%s` is not the maximum of the distance array `%s`' % (u(xc)[:120], D), org, None
    if isinstance(xc, ast.IfExp):
        if not (isinstance(xc.test, ast.Name) and xc.test.id == MPI):
            verdict = classify(xc.test, [MPI or 'mpi_mode'], scope={MPI} if MPI else set())
            return verdict, 'serial/MPI maximum selected by `%s`' % u(xc.test), org, None
        if kinds[0] != 'mpi':
            return ('near', 1, None), 'MPI mode must use the all-reduced maximum', org, None
        return ('match', {}), 'maximum of the current distances', org, 'switch'
    return ('match', {}), 'maximum of the current distances', org, kinds[0]


def _trip_bindings(fi, mod, w, call, name, idx):
    """Statements of the loop that bind `name` to element `idx` of the value
    returned by the iteration call of this trip."""
    out = []
    for s in walk_local(w):
        if not isinstance(s, ast.Assign) or len(s.targets) != 1:
            continue
        t, v = s.targets[0], s.value
        src = v
        if isinstance(v, ast.Name):
            src = du_value(fi, v) or v
        if isinstance(t, (ast.Tuple, ast.List)) and src is call:
            if len(t.elts) > idx and isinstance(t.elts[idx], ast.Name) and t.elts[idx].id == name \
                    and not any(isinstance(e, ast.Starred) for e in t.elts):
                out.append(s)
        elif isinstance(t, ast.Name) and t.id == name and isinstance(v, ast.Subscript) and const_value(v.slice) == idx:
            b = v.value
            if isinstance(b, ast.Name):
                b = du_value(fi, b) or b
            if b is call:
                out.append(s)
    return out


def _returns_its_argument(mod, ppos, rpos):
    """Both iteration functions return, at tuple position rpos, the object
    received as positional parameter ppos (never rebound)."""
    for q in ITER_FUNCS:
        fn = mod.func(q)
        fi = finfo(mod, fn)
        P = params(fn)
        rets = returns_of(fn)
        if len(P) <= ppos or not rets:
            return False
        for r in rets:
            if not (isinstance(r.value, ast.Tuple) and len(r.value.elts) > rpos):
                return False
            e = r.value.elts[rpos]
            if not (isinstance(e, ast.Name) and e.id == P[ppos] and fi.rd.defs_at(r, e.id) == {'PARAM'}):
                return False
    return True


def _const_true(f):
    """The fact is a literal truth (`while True:`, `while 1:`)."""
    return not isinstance(f, Cmp) and f[0] == 'expr' and f[2] is True and \
        isinstance(f[1], ast.Constant) and bool(f[1].value) and f[1].value is not None


def continuation_facts(fi, mod, w, cstmt):
    """The condition under which a trip of loop `w` reaches the statement
    `cstmt` of its body: the conjuncts of the loop test plus those of every
    branch condition inside the loop that dominates `cstmt` and whose other
    arm leaves the loop for good (guard clauses `if not c: break`, in either
    polarity / arm order).  Returns (facts, problems, exits): facts are
    (fact, evaluation point) pairs - the point is the statement at which the
    operands of the fact are read (the loop head or the `if`); problems are
    texts about dominating conditions that are not such guard clauses; exits
    are the break/return statements of the loop that belong to no recognised
    guard clause (other ways out of the loop)."""
    facts, problems = [], []
    cs = conjuncts(w.test, True)
    if cs is None:
        return None, ['loop test is a disjunction'], []
    facts += [(c, w) for c in cs if not _const_true(c)]
    guard_ifs = set()
    for a in fi.cfg.nodes:
        if not isinstance(a, Assume) or a.owner is w or not _inside(mod, a.owner, w):
            continue
        if not fi.cfg.dominates(a, cstmt):
            continue
        sib = [b for b in fi.cfg.nodes if isinstance(b, Assume) and b.owner is a.owner and b.polarity != a.polarity]
        if len(sib) != 1 or fi.cfg.reachable(sib[0], w) or fi.cfg.reachable(sib[0], cstmt):
            problems.append('the other arm of `if %s` does not leave the loop' % u(a.test)[:80])
            continue
        guard_ifs.add(a.owner)
        test = fi.expand(a.test)        # a named flag stands for its definition
        cs = conjuncts(test, a.polarity)
        if cs is None:
            facts.append((('opaque', test, a.polarity), a.owner))
        else:
            facts += [(c, a.owner) for c in cs if not _const_true(c)]
    exits = []
    for s in walk_local(w):
        if s is w or not isinstance(s, (ast.Break, ast.Return, ast.Raise)):
            continue
        # innermost enclosing loop must be w for a break
        p = mod.parent.get(s)
        inner = None
        while p is not None and p is not w:
            if isinstance(p, (ast.While, ast.For)) and inner is None:
                inner = p
            p = mod.parent.get(p)
        if isinstance(s, ast.Break) and inner is not None:
            continue
        q, owned = mod.parent.get(s), False
        while q is not None and q is not w:
            if q in guard_ifs:
                owned = True
            q = mod.parent.get(q)
        if not owned and not isinstance(s, ast.Raise):
            exits.append(s)
    return facts, problems, exits


def _stale_between(fi, site, point, name, writers):
    """Statements of `writers` (rebindings / in-place updates of an operand)
    that can execute between the definition `site` of `name` and the read of
    `name` at `point`, on a path without another definition of `name`."""
    from ..cfg import stmt_defs
    others = [d for d in fi.cfg.nodes if d not in (ENTRY, EXIT) and not isinstance(d, Assume)
              and name in stmt_defs(d)]
    out = []
    for m in writers:
        if m is site or m in others:
            # a statement that defines both is a fresh definition of `name`
            continue
        if m is point:
            continue
        if fi.cfg.reachable(site, m, avoiding=others) and fi.cfg.reachable(m, point, avoiding=others):
            out.append(m)
    return out


def _mpi_facts(fi, site, MPI):
    """How the serial/MPI switch constrains the execution of `site`:
    True / False (a dominating branch on the plain flag), None (no dominating
    condition mentions it), 'opaque' (a condition the rule cannot resolve)."""
    res = None
    for f in dominating_facts(fi, site):
        e, pol = fact_expr(f)
        if MPI not in names_loaded(e):
            continue
        if not isinstance(f, Cmp) and f[0] == 'expr' and isinstance(e, ast.Name) and e.id == MPI:
            if res not in (None, pol):
                return 'opaque'
            res = pol
        else:
            return 'opaque'
    return res


def derived_names(fi, scope):
    """Local names whose value is, at every one of their definitions, a pure
    numpy/builtin function of the names in `scope` and of names derived that
    way (`prev = maxdist`, `gap = prev - maxdist`): they carry no information
    beyond (earlier values of) the names in scope."""
    from ..cfg import stmt_defs
    sites = {}
    for s in fi.cfg.nodes:
        if s in (ENTRY, EXIT) or isinstance(s, Assume):
            continue
        for nm in stmt_defs(s):
            sites.setdefault(nm, []).append(s)
    P = set(params(fi.fn))
    out = set()
    changed = True
    while changed:
        changed = False
        for nm, ss in sites.items():
            if nm in out or nm in scope or nm in P:
                continue
            ok = True
            for s in ss:
                v = fi.def_value(s, nm) if isinstance(s, (ast.Assign, ast.AnnAssign)) else None
                if v is None or classify(v, ['__never__'], scope=set(scope) | out)[0] != 'near':
                    ok = False
                    break
            if ok:
                out.add(nm)
                changed = True
    return out


def _criterion_met(fi, f, K, md):
    """The fact says that one of the two stopping criteria is met: the count
    has reached n_clusters (`n_clusters <= len(L)`, `len(L) == n_clusters`) or
    the radius is no longer above the cutoff (`radius <= dist_cutoff`, with
    the radius the guard's variable or the maximum of the distance array)."""
    if not isinstance(f, Cmp):
        return False
    NC, DC, L, D = K['NC'], K['DC'], K['L'], K['D']
    cnt = C('len(%s)' % L)

    def is_radius(e):
        if isinstance(e, ast.Name) and e.id == md:
            return True
        v, _, _, kind = _radius_value(fi, e, K)
        return v[0] == 'match' and kind is not None
    if f.op is ast.Eq:
        return {ctext(f.lhs), ctext(f.rhs)} == {cnt, NC}
    less = f.as_less()
    if less is None:
        return False
    small, strict, big = less
    if ctext(small) == NC and ctext(big) == cnt:
        return True
    if ctext(big) == DC and is_radius(small):
        return True
    return False


def _d2_exits(ck, rule, mod, K, exits, md):
    """Every way out of the main loop other than its guard (a `break` /
    `return` that belongs to no guard clause in front of the iteration call)
    must be one the property allows: taken only when a stopping criterion is
    met.  An exit whose condition is some other function of the stopping
    state (counts, radius, cutoffs, values derived from them) is a different
    stopping rule -> VIOLATION; a condition over anything else is not
    related to the stopping rule by this analysis -> incomplete, never
    silently accepted.  A return of kcenters that does not come out of the
    main loop is a result the farthest-point iteration did not produce."""
    fn, fi, w = K['fn'], K['fi'], K['loop']
    scope = {K['NC'], K['DC'], K['L'], K['D']} | ({md} if md else set())
    scope |= derived_names(fi, scope)
    for s in exits:
        conds = []
        for a in fi.cfg.nodes:
            if isinstance(a, Assume) and a.owner is not w and _inside(mod, a.owner, w) and fi.cfg.dominates(a, s):
                test = fi.expand(a.test)
                cs = conjuncts(test, a.polarity)
                conds.append((a, test, cs))
        kind = 'break' if isinstance(s, ast.Break) else 'return'
        if not conds:
            if not _conditional_in_loop(mod, s, w):
                ck.bad(rule, mod, s, 'kcenters', 'unconditional %s in the main loop' % kind,
                       'the main loop is left unconditionally at %s: it stops although neither the requested number of '
                       'centres is reached nor the radius is at the cutoff' % mod.loc(s))
            else:
                ck.missing(rule, 'condition under which the %s at %s leaves the main loop' % (kind, mod.loc(s)))
            continue
        facts = [f for _, _, cs in conds if cs is not None for f in cs]
        if any(_criterion_met(fi, f, K, md) for f in facts):
            ck.ok(rule, mod, s, '%s when %s' % (kind, ' and '.join(
                str(f) if isinstance(f, Cmp) else u(f[1])[:60] for f in facts)[:160]),
                'extra exit taken only when a stopping criterion is met')
            continue
        shown = ' and '.join(('' if a.polarity else 'not ') + '(%s)' % u(t)[:100] for a, t, _ in conds)
        exprs = [t for _, t, _ in conds]
        closed = all(classify(t, ['__never__'], scope=scope)[0] == 'near' for t in exprs)
        about = any(names_loaded(t) & scope for t in exprs)
        if closed and about:
            ck.bad(rule, mod, s, 'kcenters', '%s when %s' % (kind, shown[:200]),
                   'the main loop has an additional way out (%s at %s) whose condition `%s` is neither `len(%s) >= %s` nor '
                   '`radius <= %s`: k-centers must stop exactly when the requested number of centres is reached or the '
                   'covering radius is no longer above the cutoff; with this exit it also stops when neither holds (fewer '
                   'centres than requested, radius still above the cutoff)' % (
                       kind, mod.loc(s), shown[:200], K['L'], K['NC'], K['DC']))
        else:
            ck.missing(rule, 'the %s at %s leaves the main loop under `%s`, which the rule cannot relate to the two '
                       'stopping criteria' % (kind, mod.loc(s), shown[:160]))
    for r in returns_of(fn):
        if _inside(mod, r, w):
            continue
        if not fi.cfg.dominates(w, r):
            ck.missing(rule, 'the return at %s does not come out of the main loop (a result path that bypasses the '
                       'farthest-point iteration)' % mod.loc(r))


def _conditional_in_loop(mod, s, w):
    """`s` sits under an if / try / inner loop inside `w`."""
    p = mod.parent.get(s)
    while p is not None and p is not w:
        if isinstance(p, (ast.If, ast.Try, ast.For, ast.While, ast.With)):
            return True
        p = mod.parent.get(p)
    return False


def d2_guard(ck):
    rule = 'C02.D2.guard'
    mod = ck.repo.mod(KC)
    K = kcenters_roles(ck, rule, mod)
    if K is None:
        return
    fn, fi, w, call = K['fn'], K['fi'], K['loop'], K['call']
    NC, DC, L, D = K['NC'], K['DC'], K['L'], K['D']
    cstmt = fi.stmt(call)
    facts, problems, exits = continuation_facts(fi, mod, w, cstmt)
    if facts is None:
        ck.bad(rule, mod, w, 'kcenters', u(w.test),
               'the loop must continue only while BOTH criteria ask for more centres; '
               'the guard is a disjunction, so clustering continues after one '
               'criterion is already met')
        return
    shown = ' and '.join(str(f) if isinstance(f, Cmp) else ('' if f[2] else 'not ') + u(f[1])[:80] for f, _ in facts) or u(w.test)
    for p in problems:
        ck.missing(rule, 'condition on the way to the iteration call not recognised as a guard clause: %s' % p)
    count_ok = dist_ok = None
    extras = []
    for c, point in facts:
        less = c.as_less() if isinstance(c, Cmp) else None
        if less is None:
            extras.append((c, point))
            continue
        small, strict, big = less
        xs, xb = cx(fi.expand(small)), cx(fi.expand(big))
        mlen = match('len(_L)', xs)
        if mlen is not None and u(xb) == NC and count_ok is None:
            count_ok = (strict, u(mlen['_L']), c, point)
        elif u(xs) == DC and dist_ok is None:
            dist_ok = (strict, big, c, point)
        else:
            extras.append((c, point))
    if extras:
        scope = {NC, DC, L, D} | ({dist_ok[1].id} if dist_ok and isinstance(dist_ok[1], ast.Name) else set())
        for e, point in extras:
            ex, pol = fact_expr(e)
            if not isinstance(e, Cmp) and e[0] == 'opaque':
                # the trip continues under a DISJUNCTION: about the criteria -> one of them alone
                # keeps the loop going; about anything else -> not modelled
                if names_loaded(ex) & scope:
                    ck.bad(rule, mod, point, 'kcenters', u(ex)[:160],
                           'the loop must continue only while BOTH criteria ask for more centres; '
                           'the guard is a disjunction, so clustering continues after one '
                           'criterion is already met')
                else:
                    ck.missing(rule, 'condition `%s` on the way to the iteration call' % u(ex)[:120])
                continue
            if not pol:
                ex = ast.UnaryOp(op=ast.Not(), operand=ex)
            v = classify(fi.expand(ex), ['len(%s) < %s' % (L, NC), '%s < __' % DC], scope=scope)
            ck.decide(v if v[0] != 'match' else ('near', 0, None), rule, mod, w, 'kcenters', shown, '',
                      'extra conjunct `%s` in the loop guard: the loop must stop exactly when the requested number '
                      'of centres is reached or the radius is no longer above the cutoff' % (
                          e if isinstance(e, Cmp) else u(ex)))
    _d2_exits(ck, rule + '.exit', mod, K, exits,
              dist_ok[1].id if dist_ok and isinstance(dist_ok[1], ast.Name) else None)
    # a criterion that is not tested on the way to the iteration call: a
    # violation if the guard is the only way out of the loop, else the test
    # may sit at another exit (rotated loop) - not modelled
    lacking = not extras and not problems
    if count_ok is None:
        if lacking and not exits:
            ck.bad(rule, mod, w, 'kcenters', shown,
                   'guard lacks the test len(<centre list>) < n_clusters')
        elif lacking:
            ck.missing(rule, 'test len(<centre list>) < n_clusters not found before the iteration call; the loop has other exits (%s)'
                       % mod.loc(exits[0]))
    else:
        strict, lst, c, point = count_ok
        ck.check(strict, rule + '.count', mod, w, 'kcenters', str(c),
                 'continue only while count < n_clusters (strict)',
                 'count test must be strict (len(%s) < n_clusters): with <= one centre '
                 'too many is added' % lst)
        # the list must grow by exactly one per trip: it is passed to the
        # iteration, which appends once (C01.D1)
        ck.check(lst == L, rule + '.count', mod, w, 'kcenters',
                 'iteration(..., %s, ...)' % lst,
                 'the counted list is the one the iteration extends',
                 'the list counted by the guard (`%s`) is not the one handed to the '
                 'iteration (`%s`), so the count never changes / is stale' % (lst, L))
    if dist_ok is None:
        if lacking and not exits:
            ck.bad(rule, mod, w, 'kcenters', shown,
                   'guard lacks the test maxdist > dist_cutoff')
        elif lacking:
            ck.missing(rule, 'test radius > dist_cutoff not found before the iteration call; the loop has other exits (%s)'
                       % mod.loc(exits[0]))
        return
    strict, mdnode, c, point = dist_ok
    ck.check(strict, rule + '.radius', mod, w, 'kcenters', str(c),
             'continue only while radius > cutoff (strict)',
             'radius test must be strict (maxdist > dist_cutoff): with >= the loop '
             'keeps adding centres although the covering radius is no longer '
             'above the cutoff')
    if not isinstance(mdnode, ast.Name):
        # the radius is recomputed inside the guard itself
        verdict, why, org, kind = _radius_value(fi, mdnode, K)
        ck.decide(verdict, rule + '.radius', mod, w, 'kcenters', u(mdnode), why, why)
        return
    md = mdnode.id
    from ..cfg import stmt_defs
    # everything that changes the distance array: rebindings, in-place updates, and the iteration call
    # itself (it updates the array it is handed)
    writers = [s for s in fi.cfg.nodes if s not in (ENTRY, EXIT) and not isinstance(s, Assume) and D in stmt_defs(s)]
    writers += [s for s in fi._mutated_in_place(D) if s not in writers]
    if cstmt not in writers:
        writers.append(cstmt)
    trip = set(_trip_bindings(fi, mod, w, call, D, 1)) | {cstmt}
    defs = fi.rd.defs_at(point, md)
    for site in defs:
        if site in ('PARAM', 'UNBOUND'):
            ck.bad(rule + '.radius', mod, w, 'kcenters', md,
                   'radius variable possibly unbound/parameter at the guard')
            continue
        v = fi.def_value(site, md)
        if v is None:
            ck.missing(rule + '.radius', 'definition of `%s` at %s is not a simple assignment' % (md, mod.loc(site)))
            continue
        verdict, why, org, kind = _radius_value(fi, v, K)
        if verdict[0] == 'match':
            if not org or any(o is None for o in org):
                ck.missing(rule + '.radius', 'provenance of `%s` in `%s` not established' % (D, u(site)[:100]))
                continue
            # the operand is the distance array as it is when the guard is
            # evaluated: same binding, nothing written to it in between
            stale = _stale_between(fi, site, point, md, writers)
            inloop = _inside(mod, site, w)
            if not stale:
                why = 'radius recomputed from the distances returned by this trip' if inloop else \
                    'radius before the first trip computed from the distances the first trip starts with'
                ck.ok(rule + '.radius', mod, site, u(site), why)
            elif any(m in trip for m in stale):
                why = 'radius on the back edge is not computed from the distances returned by this trip' if inloop else \
                    'initial radius is not computed from the distances the loop starts with / is not refreshed after a trip'
                ck.bad(rule + '.radius', mod, site, 'kcenters', u(site),
                       'definition of `%s` reaching the guard: %s (`%s` changes `%s` before the guard reads `%s`)' % (
                           md, why, u(stale[0])[:80], D, md))
            else:
                ck.missing(rule + '.radius', '`%s` is modified (%s) between the radius `%s` and the guard' % (
                    D, u(stale[0])[:80], u(site)[:80]))
                continue
            # serial / MPI: in MPI mode every rank must test the all-reduced maximum
            if K['MPI'] and kind == 'serial':
                mf = _mpi_facts(fi, site, K['MPI'])
                if mf is None:
                    others = [d for d in defs if d not in ('PARAM', 'UNBOUND') and d is not site]
                    serial_only = [a for a in fi.cfg.nodes if isinstance(a, Assume) and a.polarity is False
                                   and isinstance(a.test, ast.Name) and a.test.id == K['MPI']]
                    if not fi.cfg.reachable(site, point, avoiding=others + serial_only):
                        mf = False      # on the MPI path another definition takes over before the guard
                    else:
                        # chosen against another definition by a condition that is not the flag: not resolved
                        for a in fi.cfg.nodes:
                            if isinstance(a, Assume) and fi.cfg.dominates(a, site) and any(
                                    isinstance(b, Assume) and b.owner is a.owner and b is not a and
                                    any(fi.cfg.dominates(b, d) for d in others) for b in fi.cfg.nodes):
                                mf = 'opaque'
                if mf is True or mf is None:
                    ck.bad(rule + '.radius.mpi', mod, site, 'kcenters', u(site),
                           'in mpi_mode the guard must test the maximum over ALL ranks (mpi.ops.striped_array_max): with the '
                           'local maximum the ranks leave the loop at different trips')
                elif mf == 'opaque':
                    ck.missing(rule + '.radius.mpi', 'condition on `%s` under which `%s` is executed' % (K['MPI'], u(site)[:80]))
                else:
                    ck.ok(rule + '.radius.mpi', mod, site, u(site), 'local maximum only in serial mode')
        else:
            ck.decide(verdict, rule + '.radius', mod, site, 'kcenters', u(site), why,
                      'definition of `%s` reaching the guard: %s' % (md, why))
    inloop_defs = [s for s in defs if s not in ('PARAM', 'UNBOUND') and _inside(mod, s, w)]
    ck.check(len(inloop_defs) >= 1, rule + '.radius', mod, w, 'kcenters',
             'back-edge definition of %s' % md,
             'radius is refreshed inside the loop',
             'the radius `%s` is never recomputed inside the loop: the guard tests a stale value' % md)


# ---------------------------------------------------------------------------
# D2 (warm start): the counted list has one entry per centre

_LEN_WRAPPERS = ('list', 'tuple', 'np.array', 'np.asarray', 'np.asanyarray', 'numpy.array', 'numpy.asarray', 'sorted')
_LEN_METHODS = ('tolist', 'copy', 'astype')


def _length_of(e, depth=6):
    """Symbolic LENGTH of a list/array valued expression (already expanded):
    ('const', n) | ('len', <text of the sequence it is as long as>) |
    ('labels', <call>)  - util.find_cluster_centers(labels, ...): one entry
    per label that OCCURS in `labels` | None (not modelled)."""
    if e is None or depth <= 0:
        return None
    if isinstance(e, (ast.List, ast.Tuple)):
        if any(isinstance(x, ast.Starred) for x in e.elts):
            return None
        return ('const', len(e.elts))
    if isinstance(e, ast.Name):
        return ('len', e.id)
    if isinstance(e, ast.ListComp):
        if len(e.generators) == 1 and not e.generators[0].ifs and not e.generators[0].is_async:
            return _length_of(e.generators[0].iter, depth - 1)
        return None
    if isinstance(e, ast.Call):
        cn = call_name(e) or ''
        if cn.split('.')[-1] == 'find_cluster_centers':
            return ('labels', e)
        if cn in ('list', 'tuple') and not e.args and not e.keywords:
            return ('const', 0)
        if cn in _LEN_WRAPPERS and len(e.args) >= 1 and not any(isinstance(a, ast.Starred) for a in e.args):
            return _length_of(e.args[0], depth - 1)
        if isinstance(e.func, ast.Attribute) and e.func.attr in _LEN_METHODS:
            return _length_of(e.func.value, depth - 1)
        if cn in ('range', 'np.arange', 'enumerate') and len(e.args) == 1 and not e.keywords:
            a = e.args[0]
            if cn == 'enumerate':
                return _length_of(a, depth - 1)
            b = match('len(_S)', a)
            if b is not None:
                return _length_of(b['_S'], depth - 1)
            k = const_value(a)
            if isinstance(k, int) and not isinstance(k, bool) and k >= 0:
                return ('const', k)
    return None


def _labels_present_semantics(ck):
    """util.find_cluster_centers returns one entry per DISTINCT label of its
    first argument: the returned array is allocated with the size of
    np.unique(<first parameter>).  True / None (not recognised)."""
    from .cluster_common import CU
    try:
        mod = ck.repo.mod(CU)
        fn = mod.func('find_cluster_centers')
    except AnalysisIncomplete:
        return None
    fi = finfo(mod, fn)
    P = params(fn)
    rets = returns_of(fn)
    if not P or len(rets) != 1 or not isinstance(rets[0].value, ast.Name):
        return None
    r = rets[0].value
    for site in fi.defs_of_use(r):
        v = fi.def_value(site, r.id) if site not in ('PARAM', 'UNBOUND') else None
        if v is None:
            return None
        x = cx(fi.expand(v, strict=False))
        ok = False
        for pat in ('np.zeros_like(np.unique(_A))', 'np.empty_like(np.unique(_A))', 'np.zeros(len(np.unique(_A)), __)',
                    'np.zeros(len(np.unique(_A)))', 'np.zeros(len(np.unique(_A)), dtype=__)', 'np.empty(len(np.unique(_A)), dtype=__)',
                    'np.zeros(np.unique(_A).shape, dtype=__)', 'np.zeros(np.unique(_A).shape[0], dtype=__)',
                    'np.zeros(np.unique(_A).size, dtype=__)', 'np.full(len(np.unique(_A)), __, dtype=__)',
                    'np.zeros_like(np.unique(_A), dtype=__)', 'np.empty_like(np.unique(_A), dtype=__)'):
            b = match(pat, x)
            if b is not None and isinstance(b['_A'], ast.Name) and b['_A'].id == P[0]:
                ok = True
                break
        if not ok:
            return None
    return True


def _centres_role(K, mod):
    """The list of centre OBJECTS of kcenters: the list the loop extends by
    element 0 of this trip's iteration result; else the `centers=` field of
    the returned result."""
    fi, w, call = K['fi'], K['loop'], K['call']
    for s in walk_local(w):
        if isinstance(s, ast.Expr) and isinstance(s.value, ast.Call) and isinstance(s.value.func, ast.Attribute) \
                and s.value.func.attr == 'append' and isinstance(s.value.func.value, ast.Name) and len(s.value.args) == 1 \
                and isinstance(s.value.args[0], ast.Name):
            a = s.value.args[0]
            trip = _trip_bindings(fi, mod, w, call, a.id, 0)
            if trip and fi.defs_of_use(a) <= set(trip):
                return s.value.func.value.id
    for r in returns_of(K['fn']):
        if isinstance(r.value, ast.Call):
            for k in r.value.keywords:
                if k.arg == 'centers' and isinstance(k.value, ast.Name):
                    return k.value.id
    return None


def _outer_defs(fi, mod, w, name):
    return [d for d in fi.rd.defs_at(w, name) if d not in ('PARAM', 'UNBOUND') and not _inside(mod, d, w)]


def _entry_value(fi, mod, w, site, name):
    """An expression for the value the list `name`, bound at `site`, has when
    the loop `w` is entered coming from that binding: the bound expression if
    nothing mutates the object on the way; `[E for T in IT]` if the binding
    is an empty list and the one mutation on the way is the unconditional
    `name.append(E)` of a `for T in IT:` loop that every path from the binding
    to `w` runs through exactly once (the loop-built spelling of a
    comprehension - FuncInfo.temp_value reads it that way only when NO other
    append exists in the function; here later appends, inside `w`, are
    irrelevant).  None if the growth on the way is not modelled."""
    from ..cfg import stmt_defs
    v = fi.def_value(site, name)
    if v is None:
        return None
    on_way = [m for m in fi._mutated_in_place(name) if m is not site and not _inside(mod, m, w)
              and fi.cfg.reachable(site, m, avoiding=[w]) and fi.cfg.reachable(m, w)
              and site in fi.rd.defs_at(m, name)]
    if not on_way:
        return v
    empty = (isinstance(v, ast.List) and not v.elts) or (
        isinstance(v, ast.Call) and isinstance(v.func, ast.Name) and v.func.id == 'list' and not v.args and not v.keywords)
    if not empty or len(on_way) != 1:
        return None
    st = on_way[0]
    if not (isinstance(st, ast.Expr) and isinstance(st.value, ast.Call) and isinstance(st.value.func, ast.Attribute)
            and st.value.func.attr == 'append' and isinstance(st.value.func.value, ast.Name)
            and st.value.func.value.id == name and len(st.value.args) == 1 and not st.value.keywords
            and not isinstance(st.value.args[0], ast.Starred)):
        return None
    lp = mod.parent.get(st)
    if not (isinstance(lp, ast.For) and not lp.orelse and any(s is st for s in lp.body)):
        return None
    for x in ast.walk(lp):
        if isinstance(x, (ast.Break, ast.Continue, ast.Return, ast.Yield, ast.YieldFrom, ast.Raise)):
            return None
    # run exactly once on the way: not nested in another loop, not bypassed
    p = mod.parent.get(lp)
    while p is not None and p is not fi.fn:
        if isinstance(p, (ast.For, ast.While, ast.AsyncFor)):
            return None
        p = mod.parent.get(p)
    if fi.cfg.reachable(site, w, avoiding=[lp]) or not fi.cfg.reachable(site, lp, avoiding=[w]):
        return None
    # the list is only rebound at `site`, the iterable is not changed by the body
    tn = set(target_names(lp.target))
    for s in lp.body:
        for x in walk_local(s) if isinstance(s, (ast.If, ast.For, ast.While, ast.With, ast.Try)) else [s]:
            if isinstance(x, ast.stmt) and (set(stmt_defs(x)) & (names_loaded(lp.iter) | {name})):
                return None
    for nm in names_loaded(lp.iter):
        if nm in tn or any(_inside(mod, ms, lp) for ms in fi._mutated_in_place(nm)):
            return None
    comp = ast.ListComp(elt=st.value.args[0], generators=[ast.comprehension(
        target=lp.target, iter=lp.iter, ifs=[], is_async=0)])
    return ast.copy_location(comp, st)


def d2_warm_count(ck):
    """Entering the main loop, the list whose length the guard compares with
    n_clusters (and whose length the iteration uses as the label of the new
    centre) must have exactly one entry per centre chosen so far - on the
    cold path (both empty) and on the warm path (one per supplied centre)."""
    rule = 'C02.D2.guard.count.warm-start'
    mod = ck.repo.mod(KC)
    K = kcenters_roles(ck, rule, mod)
    if K is None:
        return
    fi, w, L = K['fi'], K['loop'], K['L']
    CEN = _centres_role(K, mod)
    if CEN is None:
        ck.missing(rule, 'the list of centre objects of kcenters (extended by the new centre every trip)')
        return
    dL = _outer_defs(fi, mod, w, L)
    dC = _outer_defs(fi, mod, w, CEN)
    if not dL or not dC or 'PARAM' in fi.rd.defs_at(w, L) or 'PARAM' in fi.rd.defs_at(w, CEN):
        ck.missing(rule, 'definitions of `%s` / `%s` before the main loop' % (L, CEN))
        return
    n = 0
    for sl in dL:
        vl = _entry_value(fi, mod, w, sl, L)
        ll = _length_of(cx(fi.expand(vl, stop=(CEN,), strict=False))) if vl is not None else None
        # the bindings of the centre list on the same way into the loop; one
        # parallel assignment `L, CEN = [], []` binds both at the same site
        mates = [sc for sc in dC if sc is sl or fi.cfg.reachable(sc, sl, avoiding=[w])
                 or fi.cfg.reachable(sl, sc, avoiding=[w])]
        if ll is None or not mates:
            ck.missing(rule, 'length of the centre-index list defined by `%s`' % u(sl)[:100])
            continue
        for sc in mates:
            vc = _entry_value(fi, mod, w, sc, CEN)
            lc = _length_of(cx(fi.expand(vc, strict=False))) if vc is not None else None
            n += 1
            if ll == ('len', CEN) or (lc is not None and lc[0] != 'labels' and ll == lc):
                ck.ok(rule, mod, sl, '%s / %s' % (u(sl)[:80], u(sc)[:80]), 'one index per centre before the first trip')
            elif ll[0] == 'labels' and lc is not None and lc != ('const', 0):
                if _labels_present_semantics(ck) is None:
                    ck.missing(rule, 'util.find_cluster_centers: length of the returned array not recognised as the number of distinct labels')
                    continue
                # the construct names the roles only (stable under renames / temporaries)
                ck.bad(rule, mod, sl, 'kcenters',
                       'warm start: the counted centre-index list has one entry per label that occurs, not one per supplied centre',
                       'after a warm start `%s` (whose length the loop guard compares with n_clusters and the iteration uses as the '
                       'label of the new centre) is built by find_cluster_centers from the labels: one entry per label that OCCURS. '
                       'The centres are `%s` (one per supplied centre). A supplied centre that owns no frame (nearest to none, a '
                       'duplicate, or - in mpi_mode - no frame on this rank) makes the count smaller than the number of centres: '
                       'more centres than n_clusters are added, the new centre re-uses the label of a supplied one, and '
                       'cc_dists[assignments] of the shortcut is indexed out of range' % (L, u(sc)[:80]))
            elif lc is None:
                ck.missing(rule, 'length of the centre list defined by `%s`' % u(sc)[:100])
            elif ll[0] == 'const' and lc[0] == 'const':
                ck.bad(rule, mod, sl, 'kcenters', '%s / %s' % (u(sl)[:80], u(sc)[:80]),
                       'the centre-index list and the centre list start with different lengths (%d, %d): the guard does not '
                       'count the centres' % (ll[1], lc[1]))
            else:
                ck.missing(rule, 'cannot relate the length of `%s` to the length of `%s`' % (u(sl)[:80], u(sc)[:80]))
    ck.floor(rule, n, 2, 'definitions of the counted list reaching the main loop')


# ---------------------------------------------------------------------------
# D3

def d3_unbound(ck):
    rule = 'C02.D3.definite-assignment'
    mod = ck.repo.mod(KC)
    from ..cfg import stmt_defs
    for q in ('kcenters', '_kcenters_iteration', '_kcenters_iteration_mpi'):
        fn = mod.func(q)
        fi = finfo(mod, fn)
        ck.analysed(mod, fn)
        n = 0
        for s in fi.cfg.nodes:
            if s in (ENTRY, EXIT) or isinstance(s, Assume):
                continue
            for nm in header_uses(s):
                if nm.id not in fi.rd.locals:
                    continue
                n += 1
                if fi.rd.possibly_unbound(s, nm.id):
                    # witness path avoiding all defs
                    defs = [d for d in fi.cfg.nodes if d not in (ENTRY, EXIT)
                            and not isinstance(d, Assume) and nm.id in stmt_defs(d)]
                    path = fi.cfg.path(ENTRY, s, avoiding=defs)
                    wit = ' -> '.join(fi.cfg.describe(x) for x in (path or [])[:14])
                    ck.bad(rule, mod, s, q, 'read of `%s` in: %s' % (nm.id, u(s)[:100]),
                           '`%s` is read here but bound only on some paths (e.g. only '
                           'inside a loop that may run zero times): UnboundLocalError '
                           'for admissible inputs' % nm.id, wit)
        ck.ok(rule, mod, fn, '%s: %d local reads' % (q, n), 'every local read is definitely assigned')


# ---------------------------------------------------------------------------
# D4

_N, _NN, _UNK = 'none', 'notnone', '?'


def _null_view(st):
    """State of the set-valued analysis as the three-valued state of
    sa/nullness.py (for its `truth` / `refine`)."""
    out = {}
    for k, v in st.items():
        out[k] = nullness.NONE if v == {_N} else nullness.NOTNONE if v == {_NN} else nullness.MAYBE
    return out


def _null_expr(e, st):
    """Set of possible None-ness values of an expression: {'none'},
    {'notnone'}, a union over the paths / arms that produce it, with '?' for
    a value the analysis knows nothing about (an unknown call, an attribute)."""
    if isinstance(e, ast.Name):
        return frozenset(st.get(e.id, {_UNK}))
    if isinstance(e, ast.IfExp):
        t = nullness.truth(e.test, _null_view(st))
        if t is True:
            return _null_expr(e.body, st)
        if t is False:
            return _null_expr(e.orelse, st)
        return _null_expr(e.body, st) | _null_expr(e.orelse, st)
    if isinstance(e, ast.BoolOp) and isinstance(e.op, ast.Or) and _null_expr(e.values[-1], st) == {_NN}:
        # `a or b` is a truthy earlier operand (None is falsy) or the last one
        return frozenset({_NN})
    v = nullness.expr_nullness(e, _null_view(st))
    return frozenset({_N} if v == nullness.NONE else {_NN} if v == nullness.NOTNONE else {_UNK})


def null_run(fi, initial):
    """None-ness dataflow like nullness.run (same branch pruning, same
    refinement by tests), but (a) the value of a name is the SET of the
    definite values it has on the paths that reach the point plus '?' for a
    value of unknown None-ness, so that "None on some path" (a definite
    defect) is told from "the analysis cannot see through this" and (b) a
    parallel assignment `a, b = x, y` is read element by element.
    Returns IN: node -> {name: frozenset} (None = unreachable)."""
    from ..cfg import stmt_defs
    from ..core import target_names
    cfg = fi.cfg
    IN = {n: None for n in cfg.nodes}
    OUT = {n: None for n in cfg.nodes}
    OUT[ENTRY] = {k: frozenset({v}) if isinstance(v, str) else frozenset(v) for k, v in initial.items()}
    work = [n for n in cfg.nodes if n != ENTRY]
    fuel = 0
    while work and fuel < 50000:
        fuel += 1
        n = work.pop(0)
        st = None
        for p in cfg.pred.get(n, []):
            if OUT[p] is None:
                continue
            if st is None:
                st = dict(OUT[p])
            else:
                for k in set(st) | set(OUT[p]):
                    st[k] = frozenset(st.get(k, {_UNK})) | frozenset(OUT[p].get(k, {_UNK}))
        if st is None:
            continue
        IN[n] = st
        new = dict(st)
        if isinstance(n, Assume):
            view = _null_view(st)
            t = nullness.truth(n.test, view)
            if t is not None and t != n.polarity:
                new = None
            else:
                after = dict(view)
                nullness.refine(n.test, n.polarity, after)
                for k, v in after.items():
                    if v != view.get(k) and v in (nullness.NONE, nullness.NOTNONE):
                        new[k] = frozenset({v})
        elif n not in (ENTRY, EXIT):
            if isinstance(n, ast.Assign):
                for t in n.targets:
                    if isinstance(t, ast.Name):
                        new[t.id] = _null_expr(n.value, st)
                    elif isinstance(t, (ast.Tuple, ast.List)) and isinstance(n.value, (ast.Tuple, ast.List)) \
                            and len(t.elts) == len(n.value.elts) \
                            and not any(isinstance(x, ast.Starred) for x in list(t.elts) + list(n.value.elts)):
                        for te, ve in zip(t.elts, n.value.elts):
                            if isinstance(te, ast.Name):
                                new[te.id] = _null_expr(ve, st)     # right-hand sides are read in the OLD state
                            else:
                                for nm in target_names(te):
                                    new[nm] = frozenset({_UNK})
                    else:
                        for nm in target_names(t):
                            new[nm] = frozenset({_UNK})
            elif isinstance(n, ast.AnnAssign) and n.value is not None and isinstance(n.target, ast.Name):
                new[n.target.id] = _null_expr(n.value, st)
            elif isinstance(n, ast.AugAssign) and isinstance(n.target, ast.Name):
                new[n.target.id] = frozenset({_NN})
            else:
                for nm in stmt_defs(n):
                    new[nm] = frozenset({_UNK}) if isinstance(n, (ast.For, ast.With)) else frozenset({_NN})
        if new != OUT[n]:
            OUT[n] = new
            for s in cfg.succ.get(n, []):
                if s not in work:
                    work.append(s)
    return IN


def d4_criteria(ck):
    rule = 'C02.D4.criteria'
    mod = ck.repo.mod(KC)
    fn = mod.func('kcenters')
    fi = finfo(mod, fn)
    ml = main_loop(fi)
    loops = [w for w, _ in ml] or [w for w in walk_local(fn) if isinstance(w, ast.While)]
    if not loops:
        ck.missing(rule, 'while loop')
        return
    w = loops[0]
    P = params(fn)
    NC = 'n_clusters' if 'n_clusters' in P else P[2]
    DC = 'dist_cutoff' if 'dist_cutoff' in P else P[3]
    # the places where the criteria are compared: the loop test and the guard
    # clauses of the loop (`while True: if not (...): break`)
    readers = [w] + [a.owner for a in fi.cfg.nodes if isinstance(a, Assume) and a.owner is not w
                     and _inside(mod, a.owner, w) and {NC, DC} & names_loaded(a.test)]
    readers = list(dict.fromkeys(readers))
    for a, b in itertools.product([nullness.NONE, nullness.NOTNONE], repeat=2):
        IN = null_run(fi, {NC: a, DC: b})
        desc = '%s %s, %s %s' % (NC, a, DC, b)
        if IN.get(w) is None:
            # unreachable: must be because the function raised
            ck.ok(rule, mod, w, desc, 'rejected with an exception before the loop')
            continue
        worst, shown = 'ok', None
        for rd in readers:
            st = IN.get(rd)
            if st is None:
                continue
            vals = [st.get(NC, frozenset({_UNK})), st.get(DC, frozenset({_UNK}))]
            state = 'none' if any(_N in v for v in vals) else 'ok' if all(v == {_NN} for v in vals) else 'unknown'
            if state == 'none' or (state == 'unknown' and worst == 'ok'):
                worst = state
                shown = (rd, vals)
            if worst == 'none':
                break
        if worst == 'unknown':
            # a criterion that comes out of something the analysis cannot see through: not decided
            ck.missing(rule, 'None-ness of the stopping criteria at the guard for the input combination (%s): %s=%s %s=%s' % (
                desc, NC, '/'.join(sorted(shown[1][0])), DC, '/'.join(sorted(shown[1][1]))))
            continue
        st = IN.get(w)
        gshow = lambda v: 'notnone' if v == {_NN} else 'none' if v == {_N} else 'maybe'
        vals = shown[1] if shown else [st.get(NC), st.get(DC)]
        ck.check(worst == 'ok', rule, mod, w, 'kcenters', desc + ' -> guard ' + u(w.test),
                 'both criteria are numbers at the guard',
                 'for the input combination (%s) the loop guard compares with None '
                 '(state at guard: n_clusters=%s dist_cutoff=%s): TypeError instead '
                 'of using the remaining criterion' % (desc, gshow(vals[0]), gshow(vals[1])))
    # the value substituted for a missing criterion must be its neutral
    # element: +inf for the count, 0 for the radius.  A "substitution" is an
    # assignment to the criterion that is reached with the criterion None.
    for name, want, forms in ((NC, 'np.inf', INF_FORMS), (DC, '0', ['0', '0.0', '-0.0'])):
        IN = null_run(fi, {name: nullness.NONE})
        for s in fi.cfg.nodes:
            if not isinstance(s, (ast.Assign, ast.AnnAssign)) or _inside(mod, s, w):
                continue
            v = fi.def_value(s, name)
            st = IN.get(s)
            if v is None or st is None or st.get(name) != {_N}:
                continue
            # the substitute is judged as a function of the inputs of kcenters:
            # anything computed purely from them (a constant, `len(traj)`, ...)
            # that is not the neutral element is a bound that CAN stop the loop
            x = fi.expand(v)
            verdict = classify(x, forms, scope=set(P))
            if verdict[0] != 'match':
                # a selection (`np.inf if n is None else n`, `cutoff or 0`) that
                # reduces to the neutral element when the criterion is None
                av = av_of(x, {name: ('none',)})
                if (av[0] in ('inf', 'inf2')) if name == NC else (av[0] == 'num' and av[1] == 0):
                    verdict = ('match', {})
            if verdict[0] == 'near' and verdict[1] > 1 and _mentions_infinity(x):
                verdict = ('far',) + tuple(verdict[1:])     # some spelling of an infinity the rule does not know
            ck.decide(verdict, rule + '.default', mod, s, 'kcenters', u(s),
                      'missing criterion replaced by its neutral element',
                      'a missing %s must be replaced by %s (the value that never stops the loop); found `%s`, '
                      'a finite / input-dependent bound' % (name, want, u(x)[:100]))

    # the dual obligation: a criterion that WAS given - 0 included, the one
    # number that is falsy - reaches the guard as itself.  `n = n or np.inf`
    # turns a requested count of 0 ("no further centre") into "unlimited";
    # only identity tests against None may select the substitute.
    for name in (NC, DC):
        IN = null_run(fi, {name: nullness.NOTNONE})
        for s in fi.cfg.nodes:
            if not isinstance(s, (ast.Assign, ast.AnnAssign)) or _inside(mod, s, w):
                continue
            v = fi.def_value(s, name)
            st = IN.get(s)
            if v is None or st is None or st.get(name) != {_NN}:
                continue
            x = fi.expand(v)
            if name not in names_loaded(x):
                continue        # not a selection on the criterion itself: judged by the rules above
            av = av_of(x, {name: ('num', 0)})
            if av == AV_UNK:
                continue
            ck.check(av[0] in ('num', 'bool', 'zero') and (av[0] == 'zero' or not av[1]), rule + '.zero-kept', mod, s, 'kcenters',
                     'criterion %s given as 0 -> %s' % (name, u(s)),
                     'a criterion given as 0 stays 0',
                     'a %s given as the number 0 is replaced by `%s` (truthiness instead of an identity test '
                     'against None): the request "stop at 0" becomes a different stopping rule' % (name, _av_show(av)))


def _mentions_infinity(e):
    for n in ast.walk(e):
        if isinstance(n, ast.Attribute) and n.attr.lower() in ('inf', 'infty', 'pinf', 'ninf', 'infinity'):
            return True
        if isinstance(n, ast.Name) and n.id.lower() in ('inf', 'infty', 'infinity'):
            return True
        if isinstance(n, ast.Constant) and isinstance(n.value, str) and \
                n.value.strip().lstrip('+-').lower() in ('inf', 'infinity'):
            return True
        if isinstance(n, ast.Constant) and isinstance(n.value, float) and n.value in (float('inf'), float('-inf')):
            return True
    return False


# ---------------------------------------------------------------------------
# D5

ALIAS_FORMS = ['_D', '_D[:]', '_D[...]', 'np.asarray(_D)', 'np.asanyarray(_D)', '_D.view()', '_D.ravel()',
               'np.asarray(_D, dtype=float)', '_D.reshape(-1)', '_D.squeeze()', 'np.array(_D, copy=False)',
               '_D.astype(float, copy=False)']
COPY_FORMS = ['_D.copy()', 'np.array(_D, copy=True)', 'copy.copy(_D)', 'copy.deepcopy(_D)', '_D.astype(__)',
              '_D + 0', '_D * 1', '_D.flatten()', 'np.array(_D, dtype=__)', '_D[:].copy()', 'np.array(_D[:])',
              'np.empty_like(_D) * 0 + _D', '0 + _D', '1 * _D', '_D + 0.0', '_D * 1.0']


def _threshold_factor(thr, A):
    """(factor, centre-distance base expr) of `cc[A] / k`, `cc[A] * c`,
    `c * cc[A]`, `cc[A]`; (None, base-or-None) if the shape is unfamiliar."""
    def cc_of(e):
        if isinstance(e, ast.Subscript) and u(e.slice) == A:
            return e.value
        return None
    if cc_of(thr) is not None:
        return 1.0, cc_of(thr)
    if isinstance(thr, ast.BinOp) and isinstance(thr.op, ast.Div) and cc_of(thr.left) is not None:
        k = const_value(thr.right)
        if isinstance(k, (int, float)) and not isinstance(k, bool) and k > 0:
            return 1.0 / k, cc_of(thr.left)
        return None, cc_of(thr.left)
    if isinstance(thr, ast.BinOp) and isinstance(thr.op, ast.Mult):
        for a, b in ((thr.left, thr.right), (thr.right, thr.left)):
            k = const_value(a)
            if cc_of(b) is not None:
                if isinstance(k, (int, float)) and not isinstance(k, bool):
                    return float(k), cc_of(b)
                return None, cc_of(b)
    base = None
    for x in ast.walk(thr):
        if cc_of(x) is not None:
            base = cc_of(x)
    return None, base


def _dm_verdict(x, DM, forms0, forms1, whole, scope):
    """Three-valued recognition of `DM(<data>, <point>)`: if x is a call of
    the distance function with two positional arguments, each argument is
    classified against its accepted forms (an argument that is a different
    pure function of the names in scope is a violation); otherwise x is
    compared as a whole against `whole`."""
    x = _strip(x)
    if isinstance(x, ast.Call) and isinstance(x.func, ast.Name) and x.func.id == DM and len(x.args) == 2 \
            and not x.keywords and not any(isinstance(a, ast.Starred) for a in x.args):
        vs = [cls(x.args[0], forms0, scope=scope), cls(x.args[1], forms1, scope=scope)]
        for kind in ('near', 'far'):
            for v in vs:
                if v[0] == kind:
                    return v
        return ('match', {})
    return cls(x, whole, near=3)


def d5_triangle(ck):
    rule = 'C02.D5.triangle'
    mod = ck.repo.mod(KC)
    n = 0
    sources = {}
    for q in ITER_FUNCS:
        fn = mod.func(q)
        fi = finfo(mod, fn)
        R = iteration_roles(fn)
        T, DM, D, A, L, USE, CS = R['T'], R['DM'], R['D'], R['A'], R['L'], R['USE'], R['CS']
        rets = [r for r in returns_of(fn) if isinstance(r.value, ast.Tuple) and r.value.elts
                and isinstance(r.value.elts[0], ast.Name)]
        if len(rets) != 1:
            ck.missing(rule, '%s: single `return <new centre>, ...`' % q)
            continue
        ret = rets[0]
        NEW = ret.value.elts[0].id

        def is_new(stmt):
            return fi.rd.defs_at(stmt, NEW) == fi.rd.defs_at(ret, NEW)

        # --- the recompute mask: a comparison between the current distances
        # and something indexed by the labels
        masks = []
        for c0 in walk_local(fn):
            if not (isinstance(c0, ast.Compare) and len(c0.ops) == 1):
                continue
            c = Cmp(c0.left, type(c0.ops[0]), c0.comparators[0])
            less = c.as_less()
            if less is None:
                continue
            small, strict, big = less
            xs, xb = cx(fi.expand(small)), cx(fi.expand(big))
            if u(xb) == D and _threshold_factor(xs, A)[1] is not None:
                masks.append((c0, xs, strict, c, True))
            elif u(xs) == D and _threshold_factor(xb, A)[1] is not None:
                masks.append((c0, xb, strict, c, False))
        # the same mask spelled out more than once counts once
        seen = {}
        for m in masks:
            seen.setdefault(fi.xu(m[0], strict=False), m)
        masks = list(seen.values())
        if len(masks) != 1:
            ck.missing(rule, '%s: triangle-inequality recompute mask (found %d)' % (q, len(masks)))
            continue
        mcmp, thr, strict, c, upward = masks[0]
        s = fi.stmt(mcmp)
        n += 1
        if fi.rd.defs_at(s, D) != {'PARAM'} or fi.rd.defs_at(s, A) != {'PARAM'}:
            ck.missing(rule, '%s: `%s`/`%s` rebound before the recompute mask' % (q, D, A))
            continue
        factor, cc = _threshold_factor(thr, A)
        if not upward:
            ck.bad(rule + '.threshold', mod, s, q, u(s),
                   'the recompute mask selects the frames BELOW the pruning threshold: exactly the frames '
                   'that cannot be closer to the new centre are recomputed and the others are skipped; found `%s`' % c)
        elif factor is not None:
            ck.check(factor <= 0.5, rule + '.threshold', mod, s, q, u(s),
                     'recompute frames with d > d(centre,new) * %s (<= 1/2)' % factor,
                     'pruning is sound only for frames with d(x,c) <= d(c,new)/2 '
                     '(triangle inequality): the recompute mask must be '
                     'distances > cc_dists[assignments] / k with k >= 2; found `%s`' % c)
        else:
            ccn = u(cc)
            v = classify(thr, ['%s[%s] / 2' % (ccn, A)], scope={ccn, A} if isinstance(cc, ast.Name) else None)
            ck.decide(v, rule + '.threshold', mod, s, q, u(s), '',
                      'pruning threshold must be cc_dists[assignments] / k with k >= 2; found `%s`' % c)
        # --- cc = distances between the current centres and the new centre
        cc0, cc_whole = [], []
        if q == '_kcenters_iteration':
            # frame proxies: traj[center_inds] ARE the centres when every centre is the frame listed
            # for it (established in kcenters, see _d5_centre_source)
            cc0 = ['%s[%s]' % (T, L), '%s[np.array(%s)]' % (T, L), '%s[list(%s)]' % (T, L)]
            cc_whole = ['%s(%s, %s)' % (DM, f, NEW) for f in cc0]
        if q != '_kcenters_iteration' or CS:
            X = CS or 'centers'
            cen0 = ['np.array(%s)' % X, '%s.copy()' % X, 'np.asarray(%s)' % X, X]
            cc_whole = cc_whole + ['%s(%s, %s)' % (DM, f, NEW) for f in cen0] + [
                'np.array([%s(_C, %s).squeeze() for _C in %s])' % (DM, NEW, X),
                'np.asarray([%s(_C, %s).squeeze() for _C in %s])' % (DM, NEW, X),
                'np.array([%s(_C, %s) for _C in %s]).squeeze()' % (DM, NEW, X)]
            cc0 = cc0 + cen0
        scope = {T, NEW, L, D, A} | ({CS} if CS else set()) | ({cc.id} if isinstance(cc, ast.Name) else set())

        def cc_verdict(x, cc_whole=cc_whole, cc0=cc0, scope=scope):
            v = _dm_verdict(x, DM, cc0, [NEW], cc_whole, scope)
            if v[0] == 'far':
                # per-centre form with another reference point
                for w in cc_whole:
                    if ' for _C in ' in w:
                        b = match(w.replace(', %s)' % NEW, ', _P)'), _strip(x))
                        if b is not None:
                            return cls(b['_P'], [NEW], scope=scope)
            return v
        srcs = []
        if isinstance(cc, ast.Name):
            ccorig = [o for o in origins(du_expand(fi, mcmp, stop=(cc.id,), inline=False), cc.id) if o is not None]
            sites = set()
            for o in ccorig:
                sites |= fi.defs_of_use(o)
            if not sites:
                ck.missing(rule + '.centre-dists', '%s: definition of `%s`' % (q, cc.id))
            for site in sites:
                v = fi.def_value(site, cc.id) if site not in ('PARAM', 'UNBOUND') else None
                if v is None:
                    ck.missing(rule + '.centre-dists', '%s: definition of `%s` is not a simple assignment' % (q, cc.id))
                    continue
                x = fi.expand(v, stop=(NEW,))
                verdict = cc_verdict(x)
                if verdict[0] == 'match' and not is_new(site):
                    verdict = ('near', 1, None)
                if verdict[0] == 'match':
                    srcs.append((site, _cc_source_kind(x, T, L, CS), _none_guarded(fi, site, CS)))
                    _d5_centre_kind(ck, rule + '.centre-kind', mod, q, fi, site, x, CS or 'centers', DM)
                ck.decide(verdict, rule + '.centre-dists', mod, site, q, u(site)[:160],
                          'centre-to-new-centre distances come from the current centres',
                          'cc_dists must be the distances between the current centres and the new centre')
        else:
            x = fi.expand(cc, stop=(NEW,)) if cc is not None else None
            verdict = cc_verdict(x) if x is not None else 'far'
            if verdict[0] == 'match':
                srcs.append((s, _cc_source_kind(x, T, L, CS), _none_guarded(fi, s, CS)))
                _d5_centre_kind(ck, rule + '.centre-kind', mod, q, fi, s, x, CS or 'centers', DM)
            ck.decide(verdict, rule + '.centre-dists', mod, s, q, u(cc),
                      'centre-to-new-centre distances come from the current centres',
                      'cc_dists must be the distances between the current centres and the new centre')
        sources[q] = (srcs, R)
        # --- stores under the recompute mask
        mkey = fi.xu(mcmp, strict=False)
        st = [(a, t) for a, t in subscript_stores(fn) if isinstance(a, ast.Assign) and isinstance(t.value, ast.Name)
              and fi.xu(t.slice, strict=False) == mkey]
        if not st:
            ck.missing(rule + '.recompute', '%s: no store `<candidate>[<recompute mask>] = ...` found' % q)
            continue
        cands = set()
        for a, t in st:
            cand = t.value.id
            if cand == D:
                ck.bad(rule + '.copy', mod, a, q, u(a),
                       'the recomputed distances are written straight into the current distances `%s`: '
                       'the strict commit mask then never sees an improvement and labels are not updated' % D)
                continue
            cands.add(cand)
            x = fi.expand(a.value, stop=(NEW,), strict=False)
            verdict = _dm_verdict(x, DM, ['%s[%s]' % (T, mkey)], [NEW], ['%s(%s[%s], %s)' % (DM, T, mkey, NEW)], scope)
            if verdict[0] == 'match' and not is_new(a):
                verdict = ('near', 1, None)
            ck.decide(verdict, rule + '.recompute', mod, a, q, u(a),
                      'masked frames get their true distance to the new centre',
                      'recomputed entries must be %s(%s[<recompute mask>], %s)' % (DM, T, NEW))
            # candidate is a copy of the current distances
            for site in fi.defs_of_use(t.value):
                vv = fi.def_value(site, cand) if site not in ('PARAM', 'UNBOUND') else None
                if vv is None:
                    ck.missing(rule + '.copy', '%s: definition of the candidate `%s` is not a simple assignment' % (q, cand))
                    continue
                xv = cx(fi.expand(vv))
                why_bad = ('the candidate array must be a copy of `%s`: if it aliases '
                           'it, recomputed values are written into the current distances '
                           'before the strict commit mask is evaluated (labels are then '
                           'never updated for them)' % D)
                b = {'_D': ast.Name(id=D, ctx=ast.Load())}
                if any(match(p, xv, b) is not None for p in COPY_FORMS):
                    if fi.rd.defs_at(site, D) != {'PARAM'}:
                        ck.missing(rule + '.copy', '%s: `%s` rebound before the candidate copy' % (q, D))
                        continue
                    ck.ok(rule + '.copy', mod, site, u(site), 'candidate distances start as a COPY of the current distances')
                elif any(match(p, xv, b) is not None for p in ALIAS_FORMS):
                    ck.bad(rule + '.copy', mod, site, q, u(site), why_bad)
                else:
                    ck.missing(rule + '.copy', '%s: cannot tell whether `%s` is a copy or a view of `%s`' % (q, u(site)[:100], D))
        # --- guard of the shortcut: requested AND every frame already has a centre
        facts = dominating_facts(fi, s)
        _d5_guard(ck, rule + '.guard', mod, q, s, facts, USE, A)
        # --- the plain branch: the candidate committed is otherwise the full distance computation
        commits = [(a, t) for a, t in subscript_stores(fn, D) if isinstance(a, ast.Assign)
                   and isinstance(a.value, ast.Subscript) and isinstance(a.value.value, ast.Name)]
        Xs = [a.value.value for a, t in commits]
        if not commits:
            # the commit spelled as an elementwise minimum: np.minimum(D, X, out=D)
            for ms, xname, kind in min_updates(fi, fn, D):
                Xs += [n_ for n_ in walk_expr(ms.value) if isinstance(n_, ast.Name) and n_.id == xname
                       and isinstance(n_.ctx, ast.Load)][:1]
        if len(Xs) != 1 or len(cands) != 1:
            ck.missing(rule + '.plain', '%s: commit `%s[<mask>] = <candidate>[<mask>]` of the candidate (found %d, candidates %s)' % (
                q, D, len(Xs), sorted(cands)))
            continue
        X = Xs[0]
        cand = next(iter(cands))
        # the objects the committed name can denote (a definition `x = y` makes
        # x denote the very object y denotes: followed to the creating sites)
        copy_sites = set()
        for a, t in st:
            copy_sites |= object_sites(fi, t.value)
        committed = object_sites(fi, X)
        if not (copy_sites and copy_sites <= committed):
            ck.missing(rule + '.plain', '%s: the committed array `%s` is not the pruned candidate `%s`' % (q, X.id, cand))
            continue
        plain = [d for d in committed if d not in copy_sites]
        if not plain:
            ck.missing(rule + '.plain', '%s: no definition of `%s` other than the shortcut reaches the commit' % (q, cand))
        for site, pname in plain:
            vv = fi.def_value(site, pname) if site not in ('PARAM', 'UNBOUND') else None
            if vv is None:
                ck.missing(rule + '.plain', '%s: plain definition of `%s` is not a simple assignment' % (q, pname))
                continue
            x = fi.expand(vv, stop=(NEW,))
            verdict = _dm_verdict(x, DM, [T], [NEW], ['%s(%s, %s)' % (DM, T, NEW)], scope)
            if verdict[0] == 'match' and not is_new(site):
                verdict = ('near', 1, None)
            ck.decide(verdict, rule + '.plain', mod, site, q, u(site),
                      'plain branch computes every distance to the new centre into the same candidate',
                      'plain branch must assign %s(%s, %s) to `%s`' % (DM, T, NEW, pname))
    ck.floor(rule + '.threshold', n, 2, 'triangle-inequality sites')
    _d5_centre_source(ck, rule + '.centre-source', mod, sources)


_TRAJ_ATTRS = ('xyz', 'top', 'topology', 'n_atoms', 'n_frames', 'unitcell_lengths', 'unitcell_vectors')


def _d5_centre_kind(ck, rule, mod, q, fi, site, x, CS, DM):
    """A recognised centre-to-new-centre computation on the centre list comes
    in two spellings: one metric call PER CENTRE OBJECT (what a list of
    trajectory frames needs: they cannot be stacked into an ndarray) and one
    call on the centres STACKED into an array (what plain vectors need: the
    metric takes a 2-d data array, a single vector is not one).  Where the
    function tells the two kinds apart by a trajectory attribute of a centre,
    each spelling must sit on the arm of its kind."""
    if not CS:
        return
    xs = _strip(x)
    kind = None
    for n in ast.walk(xs):
        if isinstance(n, ast.comprehension) and isinstance(n.iter, ast.Name) and n.iter.id == CS:
            kind = 'each'
    if kind is None and isinstance(xs, ast.Call) and isinstance(xs.func, ast.Name) and xs.func.id == DM and xs.args \
            and CS in names_loaded(xs.args[0]):
        kind = 'stacked'
    if kind is None:
        return
    traj = None
    for f in dominating_facts(fi, site):
        if isinstance(f, Cmp) or f[0] != 'expr':
            continue
        e = f[1]
        if isinstance(e, ast.Call) and isinstance(e.func, ast.Name) and e.func.id == 'hasattr' and len(e.args) == 2 \
                and not e.keywords and isinstance(e.args[1], ast.Constant) and e.args[1].value in _TRAJ_ATTRS \
                and CS in names_loaded(e.args[0]):
            if traj is not None and traj != f[2]:
                return
            traj = f[2]
    if traj is None:
        return
    ck.check((kind == 'each') == traj, rule, mod, site, q,
             '%s centres measured %s' % ('trajectory-like' if traj else 'array', 'one by one' if kind == 'each' else 'stacked into one array'),
             'each kind of centre is measured by the spelling that fits it',
             'the shortcut measures d(centre, new centre) %s on the arm where the centres %s a trajectory attribute: %s, so '
             'with use_triangle_inequality the run fails (or prunes with garbage) although the plain algorithm succeeds' % (
                 'with one metric call per centre' if kind == 'each' else 'on np.array(<centres>)',
                 'have' if traj else 'do NOT have',
                 'a list of trajectory frames cannot be stacked into an ndarray' if traj else
                 'a single feature vector is not a 2-d data array the metric accepts (the built-in metrics raise DataInvalid)'))


def _cc_source_kind(x, T, L, CS):
    """Where a recognised centre-to-new-centre distance computation takes the
    CENTRES from: 'centres' (the list of centre objects handed in) or 'proxy'
    (the frames of the data listed in the centre-index list)."""
    nl = names_loaded(x)
    if CS and CS in nl:
        return 'centres'
    if T in nl and L in nl:
        return 'proxy'
    return 'unknown'


def _none_guarded(fi, site, CS):
    """The statement executes only if the centre-list parameter is None."""
    if not CS:
        return False
    for f in dominating_facts(fi, site):
        e, pol = fact_expr(f)
        if pol and ctext(e) == C('%s is None' % CS):
            return True
        if not pol and ctext(e) == C('%s is not None' % CS):
            return True
    return False


def _kwargs_of_call(fi, mod, w, call, callee_name):
    """Keyword arguments the main-loop call hands to the iteration function
    `callee_name`: explicit keywords plus the literal dict(s) behind `**name`
    that are defined in the same arm as the choice of that iteration function.
    {key: value expr} or None (not resolvable)."""
    out = {}
    for k in call.keywords:
        if k.arg is not None:
            out[k.arg] = k.value
    stars = [k.value for k in call.keywords if k.arg is None]
    if not stars:
        return out
    # definition sites of the callee name that select this iteration function
    csites = None
    if isinstance(call.func, ast.Name) and call.func.id not in ITER_FUNCS:
        csites = []
        for d in fi.defs_of_use(call.func):
            if d in ('PARAM', 'UNBOUND'):
                return None
            v = fi.def_value(d, call.func.id)
            if isinstance(v, ast.Name) and v.id == callee_name:
                csites.append(d)
            elif isinstance(v, ast.IfExp):
                # `f = A if c else B`: this definition selects the callee on one of its arms
                if any(isinstance(a, ast.Name) and a.id == callee_name for a in (v.body, v.orelse)):
                    csites.append(d)
    elif isinstance(call.func, ast.Name) and call.func.id != callee_name:
        return None
    for sv in stars:
        if not isinstance(sv, ast.Name):
            return None
        for d in fi.defs_of_use(sv):
            if d in ('PARAM', 'UNBOUND'):
                return None
            if csites is not None and not any(d is c or fi.cfg.reachable(c, d, avoiding=[w]) or fi.cfg.reachable(d, c, avoiding=[w])
                                              for c in csites):
                continue            # the dict of the other arm
            v = fi.def_value(d, sv.id)
            if isinstance(v, ast.Call) and call_name(v) == 'dict' and not v.args and all(k.arg for k in v.keywords):
                for k in v.keywords:
                    out[k.arg] = k.value
            elif isinstance(v, ast.Dict) and all(isinstance(k, ast.Constant) and isinstance(k.value, str) for k in v.keys):
                for k, val in zip(v.keys, v.values):
                    out[k.value] = val
            else:
                return None
        if fi._mutated_in_place(sv.id):
            return None
    return out


def _d5_centre_source(ck, rule, mod, sources):
    """The pruning bound d(centre, new centre)/2 is sound only if it is
    measured from the CENTRES the current distances refer to.  An iteration
    function that measures it on the frames traj[center_inds] relies on
    `centers[j] is traj[center_inds[j]]` for every j; kcenters must establish
    that on every path into the loop.  The warm start takes its centres from a
    parameter (arbitrary observations) and only LOOKS UP near frames for the
    index list: there the frames are proxies, not the centres."""
    K = kcenters_roles(ck, rule, mod)
    if K is None:
        return
    fi, w, call, T, L = K['fi'], K['loop'], K['call'], K['T'], K['L']
    CEN = _centres_role(K, mod)
    if CEN is None:
        ck.missing(rule, 'the list of centre objects of kcenters (extended by the new centre every trip)')
        return
    for q, (srcs, R) in sorted(sources.items()):
        if not srcs:
            continue
        if isinstance(call.func, ast.Name) and call.func.id in ITER_FUNCS and call.func.id != q:
            continue
        kw = _kwargs_of_call(fi, mod, w, call, q)
        if kw is None:
            ck.missing(rule, 'keyword arguments handed to %s by the main loop of kcenters' % q)
            continue
        CS = R['CS']
        passed = CS is not None and CS in kw
        if passed:
            a = kw[CS]
            if not (isinstance(a, ast.Name) and a.id == CEN):
                ck.decide(cls(a, [CEN], scope={CEN, T, L}), rule, mod, call, 'kcenters', '%s=%s' % (CS, u(a)[:80]),
                          '', 'the iteration must be handed the list of centre objects `%s`' % CEN)
                continue
        live = [(site, kind) for site, kind, guarded in srcs if not (passed and guarded)]
        if any(kind == 'unknown' for _, kind in live):
            ck.missing(rule, '%s: operands of the centre-to-new-centre distances not recognised' % q)
            continue
        proxies = [site for site, kind in live if kind == 'proxy']
        if not proxies:
            ck.ok(rule, mod, call, '%s(..., %s=%s)' % (q, CS, CEN),
                  'the shortcut measures d(centre, new centre) on the centre objects themselves')
            continue
        # frames stand in for the centres: every definition of the centre list that reaches the loop must
        # consist of exactly those frames
        for sc in _outer_defs(fi, mod, w, CEN):
            vc = _entry_value(fi, mod, w, sc, CEN)
            x = cx(fi.expand(vc, strict=False)) if vc is not None else None
            if x is None:
                ck.missing(rule, 'definition `%s` of the centre list' % u(sc)[:100])
                continue
            if _length_of(x) == ('const', 0):
                ck.ok(rule, mod, sc, u(sc)[:100], 'cold start: no centres yet; every later centre is traj[<index appended for it>]')
                continue
            frames = ['%s[%s]' % (T, L), '[%s[_I] for _I in %s]' % (T, L), 'list(%s[%s])' % (T, L)]
            v = classify(x, frames, scope={T, L})
            if v[0] == 'match':
                ck.ok(rule, mod, sc, u(sc)[:100], 'the centres are the frames listed in the centre-index list')
                continue
            foreign = sorted(nm for nm in names_loaded(x) if nm not in (T, L) and fi.rd.defs_at(sc, nm) == {'PARAM'})
            if foreign:
                ck.bad(rule, mod, proxies[0], q,
                       'shortcut: centre-to-new-centre distances are measured on the frames listed in the centre-index list, '
                       'while the warm start takes the centres from a parameter',
                       'the pruning bound d(centre, new)/2 is computed from traj[center_inds] (%s). kcenters defines the centres '
                       'as `%s` (parameter `%s`: arbitrary observations, not necessarily frames of the data) and only looks up '
                       'the nearest frame for the index list, so after a warm start the frame is a proxy at a distance > 0 from '
                       'its centre: the bound is wrong, frames are skipped that are closer to the new centre, and labels, '
                       'distances, radius and the stopping point differ from the plain algorithm. The MPI iteration measures '
                       'on the centre list itself' % (mod.loc(proxies[0]), u(sc)[:80], ', '.join(foreign)))
            else:
                ck.missing(rule, 'cannot tell whether the centres `%s` are the frames %s[%s]' % (u(sc)[:80], T, L))


def _d5_guard(ck, rule, mod, q, s, facts, USE, A):
    why_bad = ('the shortcut indexes cc_dists[assignments]: it must be guarded by '
               'use_triangle_inequality AND all assignments >= 0')
    shown = ' and '.join(('not ' if not fact_expr(f)[1] else '') + u(fact_expr(f)[0]) for f in facts) or '<unconditional>'
    pos = {C('np.all(%s >= 0)' % A), C('np.all(%s > -1)' % A), C('np.all(%s != -1)' % A),
           C('%s.min() >= 0' % A), C('%s.min() > -1' % A), C('-1 not in %s' % A), C('min(%s) >= 0' % A)}
    neg = {C('np.any(%s < 0)' % A), C('np.any(%s <= -1)' % A), C('np.any(%s == -1)' % A),
           C('%s.min() < 0' % A), C('-1 in %s' % A), C('%s.min() == -1' % A)}
    have_use = have_all = False
    about_use, about_a = [], []
    for f in facts:
        e, pol = fact_expr(f)
        txt = ctext(e)
        nl = names_loaded(e)
        if USE and USE in nl:
            if not isinstance(f, Cmp) and f[0] == 'expr' and txt == USE and pol is True:
                have_use = True
            else:
                about_use.append((f, e, pol))
        if A in nl:
            if not (isinstance(f, tuple) and f[0] == 'opaque') and ((pol and txt in pos) or (not pol and txt in neg)):
                have_all = True
            else:
                about_a.append((f, e, pol))
    if USE is None:
        ck.missing(rule, '%s has no use_triangle_inequality parameter' % q)
    elif have_use:
        ck.ok(rule, mod, s, shown, 'shortcut only when requested')
    elif not about_use or any(isinstance(f, tuple) and f[0] == 'opaque' for f, _, _ in about_use) or \
            any(ctext(e) == USE and pol is False for _, e, pol in about_use):
        # no condition on the flag at all / a disjunction / the inverted flag
        ck.bad(rule, mod, s, q, shown, why_bad)
    else:
        ck.missing(rule, '%s: condition on `%s` not recognised: %s' % (q, USE, shown[:160]))
    if have_all:
        ck.ok(rule, mod, s, shown, 'shortcut only when every frame already has a centre')
    elif not about_a:
        ck.bad(rule, mod, s, q, shown, why_bad)
    else:
        verdict = 'far'
        for f, e, pol in about_a:
            if isinstance(f, tuple) and f[0] == 'opaque':
                verdict = 'near'
                break
            v = classify(e, ['np.all(%s >= 0)' % A], scope={A})
            if v[0] in ('near', 'match'):
                # a recognised test of the labels with the wrong content / polarity
                verdict = 'near'
                break
        ck.decide(verdict, rule, mod, s, q, shown, '', why_bad)


def _is_commit_store(fi, st, t, D):
    """`D[m] = X[m]` with m (after expansion of temporaries) the comparison
    X < D / X <= D: the running-minimum commit (its strictness, the pairing
    with the label store etc. are judged by C02.D5.commit)."""
    if not (isinstance(st, ast.Assign) and len(st.targets) == 1 and st.targets[0] is t):
        return False
    v = st.value
    if not (isinstance(v, ast.Subscript) and isinstance(v.value, ast.Name)):
        return False
    if fi.xu(v.slice, strict=False) != fi.xu(t.slice, strict=False):
        return False
    m = cx(fi.expand(t.slice, strict=False))
    if not (isinstance(m, ast.Compare) and len(m.ops) == 1):
        return False
    less = Cmp(m.left, type(m.ops[0]), m.comparators[0]).as_less()
    if less is None:
        return False
    small, _, big = less
    return u(big) == D and u(small) == v.value.id


_MIN_FUNCS = ('np.minimum', 'np.fmin', 'numpy.minimum', 'numpy.fmin')


def min_updates(fi, fn, D):
    """[(statement, candidate name, kind)] for every statement that replaces
    the array D by the elementwise minimum of itself and ONE other array X
    (a plain name): `np.minimum(D, X, out=D)` (operands in either order, out
    by keyword or third position), `D[:] = np.minimum(D, X)` / `D[...] = ...`
    (kind 'inplace') and the rebinding `D = np.minimum(D, X)` (kind 'rebind').
    After such a statement D IS the running minimum over the old D and X -
    but the OLD values of D are gone."""
    def operands(c):
        if not (isinstance(c, ast.Call) and (call_name(c) or '') in _MIN_FUNCS):
            return None, None
        if any(isinstance(a, ast.Starred) for a in c.args) or len(c.args) not in (2, 3):
            return None, None
        out = c.args[2] if len(c.args) == 3 else None
        for k in c.keywords:
            if k.arg == 'out' and out is None:
                out = k.value
            elif k.arg is None or k.arg in ('out', 'where'):
                return None, None
        a, b = c.args[0], c.args[1]
        if not (isinstance(a, ast.Name) and isinstance(b, ast.Name)) or {a.id, b.id} == {D} or D not in (a.id, b.id):
            return None, None
        return (b.id if a.id == D else a.id), out
    res = []
    for st in walk_local(fn):
        if isinstance(st, ast.Expr):
            X, out = operands(st.value)
            if X is not None and isinstance(out, ast.Name) and out.id == D:
                res.append((st, X, 'inplace'))
        elif isinstance(st, ast.Assign) and len(st.targets) == 1:
            X, out = operands(st.value)
            if X is None:
                continue
            t = st.targets[0]
            if out is not None and not (isinstance(out, ast.Name) and out.id == D):
                continue
            if isinstance(t, ast.Name) and t.id == D:
                res.append((st, X, 'inplace' if out is not None else 'rebind'))
            elif isinstance(t, ast.Subscript) and isinstance(t.value, ast.Name) and t.value.id == D and out is None and (
                    (isinstance(t.slice, ast.Slice) and t.slice.lower is None and t.slice.upper is None and t.slice.step is None)
                    or (isinstance(t.slice, ast.Constant) and t.slice.value is Ellipsis)):
                res.append((st, X, 'inplace'))
    return res


def d5_label_mask_after_min(ck, mod, q, fi, fn, R, mins):
    """The distance part of the commit may be spelled as an elementwise
    minimum (`np.minimum(D, X, out=D)`): D stays the running minimum.  The
    LABEL part must still change exactly the frames with X < D_old (strict:
    the frames skipped by the triangle-inequality shortcut carry X == D_old
    and were never compared with the new centre).  Once the minimum has
    overwritten D, D_new == X holds for X < D_old AND for X == D_old alike, so
    no comparison of the updated D with X selects that set: a label store
    whose mask is such a comparison, reading D after the update, is a
    VIOLATION; a mask taken from D before the update is judged as usual;
    anything else is not recognised."""
    rule = 'C02.D5.commit.label-mask'
    D, A, L = R['D'], R['A'], R['L']
    for ms, X, kind in mins:
        stores = [(st, t) for st, t in subscript_stores(fn, A) if isinstance(st, ast.Assign)]
        if not stores:
            ck.missing(rule, '%s: `%s` commits the distances as an elementwise minimum, but no masked store into the label '
                       'array `%s` was found' % (q, u(ms)[:100], A))
            continue
        for st, t in stores:
            m = du_expand(fi, t.slice, stop=(D, X), strict=False, inline=False)
            mc = cx(m)
            if not (isinstance(mc, ast.Compare) and len(mc.ops) == 1
                    and {u(mc.left), u(mc.comparators[0])} == {D, X}):
                ck.missing(rule, '%s: mask of the label store `%s` next to the minimum commit `%s` is not a comparison of '
                           '`%s` and `%s`' % (q, u(st)[:100], u(ms)[:80], X, D))
                continue
            reads = origins(m, D)
            where = [fi.stmt(o) if o is not None else None for o in reads]
            if not where or any(wst is None for wst in where):
                ck.missing(rule, '%s: where the mask of `%s` reads `%s` is not established' % (q, u(st)[:100], D))
                continue
            post = all(wst is not ms and fi.cfg.dominates(ms, wst) for wst in where)
            pre = all(wst is not ms and fi.cfg.dominates(wst, ms) and not fi.cfg.reachable(ms, wst) for wst in where)
            less = Cmp(mc.left, type(mc.ops[0]), mc.comparators[0]).as_less()
            if post:
                ck.bad(rule, mod, st, q, u(st)[:200],
                       'the label store is masked by `%s`, evaluated AFTER `%s` has replaced `%s` by min(`%s`, `%s`): the '
                       'updated array equals the candidate `%s` both where the new centre is strictly closer and where it '
                       'merely ties with the stored distance, so this mask cannot select exactly the frames with `%s < %s` '
                       '(old values). Every frame the triangle-inequality shortcut skipped (its candidate is a copy of its '
                       'stored distance) is relabelled to the new centre without having been compared with it; labels no '
                       'longer name the nearest centre and the next pruning pass (cc_dists[labels]) skips frames that must be '
                       'recomputed. The mask must be computed from the distances before the commit overwrites them' % (
                           ctext(mc), u(ms)[:80], D, D, X, X, X, D))
            elif pre and less is not None and u(less[0]) == X and u(less[2]) == D:
                ck.check(less[1], rule, mod, st, q, u(st)[:200],
                         'label mask `%s < %s` taken from the distances before the minimum commit' % (X, D),
                         'the label mask must be the STRICT test `%s < %s` on the distances before the commit: with <= the '
                         'frames whose candidate equals the stored distance (all frames skipped by the triangle-inequality '
                         'shortcut) are relabelled without being nearer to the new centre' % (X, D))
            else:
                ck.missing(rule, '%s: mask `%s` of the label store `%s` relative to the minimum commit `%s`' % (
                    q, ctext(mc)[:80], u(st)[:80], u(ms)[:80]))


def d5_sole_writer(ck):
    """The array the next centre is the argmax of is the RUNNING MINIMUM of
    the distances to the centres chosen so far only if nothing but the commit
    `D[new < D] = new[new < D]` ever writes to it.  Every store the may-alias
    analysis (sa/effects.py) attributes to the distance parameter of an
    iteration function is therefore either that commit, or a VIOLATION when
    the value written is a constant (not a distance to any centre), or
    something the rule cannot judge."""
    from ..patterns import shared
    rule = 'C02.D5.commit.sole-writer'
    mod = ck.repo.mod(KC)
    _, ea = shared(ck.repo)
    n = 0
    for q in ITER_FUNCS:
        fn = mod.func(q)
        fi = finfo(mod, fn)
        D = iteration_roles(fn)['D']
        recs = [r for r in ea.store_records(KC, q) if D in r.get('params', ())]
        seen = set()
        mins = min_updates(fi, fn, D)
        if mins:
            d5_label_mask_after_min(ck, mod, q, fi, fn, iteration_roles(fn), mins)
        for ms, X, kind in mins:
            if kind == 'rebind':
                n += 1
                ck.ok(rule, mod, ms, u(ms), 'the running-minimum commit, spelled as an elementwise minimum with `%s`' % X)
        for r in recs:
            node = r.get('node')
            if id(node) in seen:
                continue
            seen.add(id(node))
            st = node if isinstance(node, ast.stmt) else None
            try:
                host = st if st is not None else fi.stmt(node)
            except Exception:
                host = None
            hit = [m for m in mins if m[0] is host and m[2] == 'inplace']
            if hit:
                n += 1
                ck.ok(rule, mod, host, u(host), 'the running-minimum commit, spelled as an elementwise minimum with `%s`' % hit[0][1])
                continue
            tgts = []
            if isinstance(st, ast.Assign):
                tgts = [tt for t in st.targets for tt in (t.elts if isinstance(t, (ast.Tuple, ast.List)) else [t])
                        if isinstance(tt, ast.Subscript)]
            if r.get('kind') == 'subscript-store' and len(tgts) == 1 and _is_commit_store(fi, st, tgts[0], D):
                n += 1
                ck.ok(rule, mod, st, u(st), 'the running-minimum commit')
                continue
            if r.get('kind') == 'subscript-store' and isinstance(st, ast.Assign) and len(st.targets) == 1 \
                    and len(tgts) == 1 and st.targets[0] is tgts[0]:
                val = cx(fi.expand(st.value, strict=False))
                k = const_value(val)
                if isinstance(val, ast.Constant) and isinstance(k, (int, float)):
                    ck.bad(rule, mod, st, q, u(st),
                           'the constant %r is written into `%s` (through `%s`), the running-minimum distance array the next '
                           'centre is the argmax of and the covering radius is the maximum of. It must change only through the '
                           'commit %s[new < %s] = new[new < %s]: a cell set to a constant no longer is the distance of that frame '
                           'to its nearest centre (after a warm start the listed frames are not the centres; a metric need not '
                           'return exactly 0), so the farthest-point choice, the radius and the stopping point change' % (
                               k, D, r.get('target'), D, D, D))
                    continue
            ck.missing(rule, '%s: `%s` also writes to the running-minimum distance array `%s` (%s); cannot tell that it keeps '
                       'the minimum over the centres chosen so far' % (q, (r.get('construct') or '')[:100], D, r.get('kind')))
    ck.floor(rule, n, 2, 'running-minimum commits among the stores into the distance array')
    # kcenters itself only hands the array from trip to trip
    K = kcenters_roles(ck, rule, mod)
    if K is None:
        return
    fi, D = K['fi'], K['D']
    for st in fi._mutated_in_place(D):
        tg = st.targets[0] if isinstance(st, ast.Assign) and len(st.targets) == 1 else None
        if isinstance(tg, ast.Subscript) and u(tg.value) == D:
            val = cx(fi.expand(st.value, strict=False))
            if isinstance(val, ast.Constant) and isinstance(const_value(val), (int, float)):
                ck.bad(rule, mod, st, 'kcenters', u(st),
                       'a constant is written into the running-minimum distance array `%s` outside the commit of the '
                       'iteration: the cell no longer is the distance of that frame to its nearest centre' % D)
                continue
        ck.missing(rule, 'kcenters: `%s` writes to the running-minimum distance array `%s`' % (u(st)[:100], D))


# ---------------------------------------------------------------------------
# Abstract execution of the prologue of kcenters over the finite domain of
# admissible configurations (fifth wave).  Nothing of /repo is executed: the
# branch conditions in front of the main loop are evaluated SYMBOLICALLY on
# abstract values (None / +inf / "the caller's finite count" / 0 / "the
# caller's positive cutoff" / True / False / "some object"), a truth table
# over syntactic conditions.

AV_UNK = ('?',)
_INF = float('inf')
_AV_NUM = {'inf': (_INF, False, _INF, False), 'inf2': (_INF, False, _INF, False),
           'fin': (1, False, _INF, True), 'zero': (0, False, 0, False), 'pos': (0, True, _INF, True)}
_AV_SHOW = {'none': 'None', 'inf': 'np.inf', 'inf2': 'inf', 'fin': '<finite count k>', 'zero': '0', 'pos': '<cutoff c > 0>',
            'given': '<given>', '?': '<unknown>'}


def _av_show(v):
    if v[0] in ('bool', 'num', 'func'):
        return str(v[1])
    return _AV_SHOW.get(v[0], v[0])


def _av_interval(v):
    """(lo, lo_open, hi, hi_open) of a numeric abstract value, else None."""
    if v[0] in _AV_NUM:
        return _AV_NUM[v[0]]
    if v[0] == 'num':
        return (v[1], False, v[1], False)
    if v[0] == 'bool':
        return (int(v[1]), False, int(v[1]), False)
    return None


def _iv_lt(a, b):
    """a < b for EVERY pair of members (True), for NO pair (False), else None."""
    alo, _, ahi, ahi_o = a
    blo, blo_o, bhi, _ = b
    if ahi < blo or (ahi == blo and (ahi_o or blo_o)):
        return True
    if alo >= bhi:
        return False
    return None


def _iv_le(a, b):
    alo, alo_o, ahi, _ = a
    blo, _, bhi, bhi_o = b
    if ahi <= blo:
        return True
    if alo > bhi or (alo == bhi and (alo_o or bhi_o)):
        return False
    return None


def _iv_eq(a, b):
    if a[0] == a[2] == b[0] == b[2] and not (a[1] or a[3] or b[1] or b[3]):
        return True
    if _iv_lt(a, b) is True or _iv_lt(b, a) is True:
        return False
    return None


_INF_TEXTS = None


def av_of(e, env):
    """Abstract value of an expression: the value of a name in `env`, a
    constant, a spelling of +inf, a conditional / boolean selection between
    such values; AV_UNK for everything else (any computation)."""
    global _INF_TEXTS
    if _INF_TEXTS is None:
        _INF_TEXTS = {C(f) for f in INF_FORMS}
    if isinstance(e, ast.Name):
        if e.id in env:
            return env[e.id]
        if e.id in ITER_FUNCS:
            return ('func', e.id)
        return AV_UNK
    if isinstance(e, ast.Constant):
        v = e.value
        if v is None:
            return ('none',)
        if isinstance(v, bool):
            return ('bool', v)
        if isinstance(v, (int, float)):
            if v != v:
                return AV_UNK
            return ('inf2',) if v == _INF else ('num', v)
        return AV_UNK
    k = const_value(e)
    if isinstance(k, (int, float)) and not isinstance(k, bool) and k == k and abs(k) != _INF:
        return ('num', k)
    if isinstance(e, (ast.Attribute, ast.Call)):
        t = ctext(e)
        if t == C('np.inf'):
            return ('inf',)
        if t in _INF_TEXTS:
            return ('inf2',)
        return AV_UNK
    if isinstance(e, ast.IfExp):
        t = av_truth(e.test, env)
        if t is True:
            return av_of(e.body, env)
        if t is False:
            return av_of(e.orelse, env)
        a, b = av_of(e.body, env), av_of(e.orelse, env)
        return a if a == b else AV_UNK
    if isinstance(e, ast.BoolOp):
        stop_on = isinstance(e.op, ast.Or)
        for x in e.values[:-1]:
            v = av_of(x, env)
            tv = _av_truthy(v)
            if tv is None:
                return AV_UNK
            if tv is stop_on:
                return v
        return av_of(e.values[-1], env)
    return AV_UNK


def _av_truthy(v):
    k = v[0]
    if k in ('none', 'zero'):
        return False
    if k in ('inf', 'inf2', 'fin', 'pos', 'func'):
        return True
    if k in ('bool', 'num'):
        return bool(v[1])
    return None         # an object (array truthiness is not a scalar) / unknown


def _av_cmp(a, op, b):
    if a == AV_UNK or b == AV_UNK:
        return None
    ia, ib = _av_interval(a), _av_interval(b)
    if op in (ast.Is, ast.IsNot):
        r = None
        if a[0] == 'none' or b[0] == 'none':
            r = a[0] == b[0]
        elif a[0] == b[0] == 'inf':
            r = True            # the one object np.inf (the default of n_clusters)
        elif a[0] == b[0] and a[0] in ('bool', 'func'):
            r = a[1] == b[1]
        elif ia is not None and ib is not None and _iv_eq(ia, ib) is False:
            r = False           # different numbers are never the same object
        elif (ia is None) != (ib is None) and 'given' not in (a[0], b[0]):
            r = False           # a number and a function
        if r is None:
            return None
        return r if op is ast.Is else not r
    if op in (ast.Eq, ast.NotEq):
        r = None
        if 'given' in (a[0], b[0]):
            return None         # == on arrays is elementwise
        if a[0] == 'none' or b[0] == 'none':
            r = a[0] == b[0]
        elif ia is not None and ib is not None:
            r = _iv_eq(ia, ib)
        if r is None:
            return None
        return r if op is ast.Eq else not r
    if ia is None or ib is None:
        return None
    if op is ast.Lt:
        return _iv_lt(ia, ib)
    if op is ast.LtE:
        return _iv_le(ia, ib)
    if op is ast.Gt:
        return _iv_lt(ib, ia)
    if op is ast.GtE:
        return _iv_le(ib, ia)
    return None


def av_truth(t, env):
    """Three-valued truth of a branch condition on abstract values."""
    if isinstance(t, ast.BoolOp):
        vals = [av_truth(x, env) for x in t.values]
        if isinstance(t.op, ast.And):
            return False if any(v is False for v in vals) else True if all(v is True for v in vals) else None
        return True if any(v is True for v in vals) else False if all(v is False for v in vals) else None
    if isinstance(t, ast.UnaryOp) and isinstance(t.op, ast.Not):
        v = av_truth(t.operand, env)
        return None if v is None else not v
    if isinstance(t, ast.Compare):
        res, left = True, t.left
        for op, right in zip(t.ops, t.comparators):
            r = _av_cmp(av_of(left, env), type(op), av_of(right, env))
            if r is False:
                return False
            if r is None:
                res = None
            left = right
        return res
    if isinstance(t, ast.Call):
        cn = (call_name(t) or '').replace('numpy.', 'np.')
        if cn in ('np.isinf', 'math.isinf', 'np.isfinite', 'math.isfinite') and len(t.args) == 1 and not t.keywords:
            v = av_of(t.args[0], env)
            iv = _av_interval(v)
            if iv is None or v[0] == 'bool':
                return None
            isinf = True if v[0] in ('inf', 'inf2') else False
            return isinf if cn.endswith('isinf') else not isinf
        if cn == 'bool' and len(t.args) == 1 and not t.keywords:
            return av_truth(t.args[0], env)
        return None
    return _av_truthy(av_of(t, env))


def _definitely_evaluated(e, env):
    """Sub-expressions of `e` that ARE evaluated when `e` is, under the
    abstract environment: the arms of a conditional expression / the later
    operands of and/or only when the deciding value is known."""
    stack = [e]
    while stack:
        n = stack.pop()
        if isinstance(n, ast.Lambda):
            continue
        yield n
        if isinstance(n, ast.IfExp):
            stack.append(n.test)
            t = av_truth(n.test, env)
            if t is True:
                stack.append(n.body)
            elif t is False:
                stack.append(n.orelse)
            continue
        if isinstance(n, ast.BoolOp):
            go_on = isinstance(n.op, ast.And)
            for x in n.values:
                stack.append(x)
                if av_truth(x, env) is not go_on:
                    break
            continue
        if isinstance(n, (ast.ListComp, ast.SetComp, ast.GeneratorExp, ast.DictComp)):
            # only the first iterable is evaluated for sure
            if n.generators:
                stack.append(n.generators[0])
            continue
        if isinstance(n, ast.comprehension):
            stack.append(n.iter)
            continue
        for ch in ast.iter_child_nodes(n):
            stack.append(ch)


_ITERATING = ('len', 'list', 'tuple', 'enumerate', 'iter', 'sorted', 'set', 'zip')


def _none_iterations(node, env):
    """Names that hold None in `env` and are iterated / measured when control
    is at statement `node` (a certain TypeError)."""
    from ..cfg import header_exprs
    out = []
    for e in header_exprs(node):
        if isinstance(node, (ast.For, ast.AsyncFor)) and e is node.target:
            continue
        for x in _definitely_evaluated(e, env):
            it = None
            if isinstance(x, ast.comprehension):
                it = x.iter
            elif isinstance(x, ast.Call) and isinstance(x.func, ast.Name) and x.func.id in _ITERATING and x.args \
                    and x.func.id not in env:
                it = x.args[0]
            if isinstance(it, ast.Name) and env.get(it.id) == ('none',):
                out.append(it.id)
    if isinstance(node, (ast.For, ast.AsyncFor)) and isinstance(node.iter, ast.Name) and env.get(node.iter.id) == ('none',):
        out.append(node.iter.id)
    return out


def _av_step(node, env, sites, events):
    from ..cfg import stmt_defs
    for nm in _none_iterations(node, env):
        events = events + ((node, nm),)
    new, ns = dict(env), dict(sites)

    def bind(name, v):
        new[name] = v
        ns[name] = node
    if isinstance(node, ast.Assign):
        for t in node.targets:
            if isinstance(t, ast.Name):
                bind(t.id, av_of(node.value, env))
            elif isinstance(t, (ast.Tuple, ast.List)) and isinstance(node.value, (ast.Tuple, ast.List)) \
                    and len(t.elts) == len(node.value.elts) \
                    and not any(isinstance(x, ast.Starred) for x in list(t.elts) + list(node.value.elts)):
                for te, ve in zip(t.elts, node.value.elts):
                    if isinstance(te, ast.Name):
                        bind(te.id, av_of(ve, env))
                    else:
                        for nm in target_names(te):
                            bind(nm, AV_UNK)
            else:
                for nm in target_names(t):
                    bind(nm, AV_UNK)
    elif isinstance(node, ast.AnnAssign) and node.value is not None and isinstance(node.target, ast.Name):
        bind(node.target.id, av_of(node.value, env))
    else:
        for nm in stmt_defs(node):
            bind(nm, AV_UNK)
    return new, ns, events


def explore_prologue(fi, w, env0, fuel=20000):
    """Abstract execution of the analysed function from its entry up to the
    main loop `w` (or an uncaught raise / a return) under the abstract
    environment env0.  Returns a list of outcomes
    (kind, node, env, sites, definite, events): kind is 'loop' / 'raise' /
    'return'; `sites` maps a name to the statement that bound it last;
    `definite` says that every branch condition crossed was decided by the
    abstract values (so the path IS the one taken by every input of the
    configuration); `events` are (statement, name) pairs where a name holding
    None was iterated.  None if the exploration ran out of fuel."""
    cfg = fi.cfg
    out, seen = [], set()
    stack = [(ENTRY, env0, {}, True, ())]
    while stack:
        fuel -= 1
        if fuel < 0:
            return None
        node, env, sites, definite, events = stack.pop()
        key = (node if isinstance(node, str) else id(node), tuple(sorted(env.items())), definite, len(events))
        if key in seen:
            continue
        seen.add(key)
        if node is w:
            out.append(('loop', node, env, sites, definite, events))
            continue
        if node == EXIT:
            continue
        succ = cfg.succ.get(node, [])
        if isinstance(node, ast.Raise) and all(s == EXIT for s in succ):
            out.append(('raise', node, env, sites, definite, events))
            continue
        if isinstance(node, ast.Return):
            out.append(('return', node, env, sites, definite, events))
            continue
        if isinstance(node, Assume):
            t = av_truth(node.test, env)
            if t is not None and t != node.polarity:
                continue
            if t is None:
                # an undecided test: the path stays representative only on the
                # continuing arm of a guard clause (`if <check>: raise`): the
                # inputs of the configuration that pass the check take it
                sib = [b for b in cfg.nodes if isinstance(b, Assume) and b.owner is node.owner and b is not node]
                if not (cfg.reachable(node, w) and sib and not any(cfg.reachable(b, w) for b in sib)):
                    definite = False
        elif node != ENTRY:
            env, sites, events = _av_step(node, env, sites, events)
        for s in succ:
            if isinstance(s, ast.ExceptHandler) and not isinstance(node, ast.Raise):
                continue        # exceptional edge out of a try body
            stack.append((s, env, sites, definite, events))
    return out


def _configurations(fn, NC, DC):
    """The admissible configurations of kcenters as abstract environments:
    at least one stopping criterion present, first centre not random, every
    other optional parameter in each of its states.  [(description, env)]"""
    from ..core import param_default
    P = params(fn)
    free = []
    for p in P:
        if p in (NC, DC):
            continue
        if p == 'random_first_center':
            free.append((p, [('bool', False)]))
            continue
        d = param_default(fn, p)
        if isinstance(d, ast.Constant) and d.value is None:
            free.append((p, [('none',), ('given',)]))
        elif isinstance(d, ast.Constant) and isinstance(d.value, bool):
            free.append((p, [('bool', False), ('bool', True)]))
        else:
            free.append((p, [('given',)]))
    crit = [(n, d) for n in (('none',), ('inf',), ('fin',)) for d in (('none',), ('zero',), ('pos',))
            if n == ('fin',) or d == ('pos',)]
    out = []
    for n, d in crit:
        for vals in itertools.product(*[v for _, v in free]):
            env = {NC: n, DC: d}
            env.update({p: v for (p, _), v in zip(free, vals)})
            desc = '%s=%s, %s=%s' % (NC, _av_show(n), DC, _av_show(d))
            out.append((desc, env))
    return out


def d4_configurations(ck):
    """Every admissible configuration (a cluster number, a radius cutoff or
    both; with / without initial centres; serial / MPI) must REACH the main
    loop, with the criteria the caller gave (a missing one replaced by its
    neutral element), with the cold-start state exactly when no centres were
    supplied, and with the iteration function of its mode."""
    mod = ck.repo.mod(KC)
    rule_a, rule_b, rule_c = 'C02.D4.criteria.admit', 'C02.D1.coldstart.arm', 'C02.D1.farthest.mode'
    K = kcenters_roles(ck, rule_a, mod)
    if K is None:
        return
    fn, fi, w, call = K['fn'], K['fi'], K['loop'], K['call']
    NC, DC, D, MPI = K['NC'], K['DC'], K['D'], K['MPI']
    P = params(fn)
    IC = 'init_centers' if 'init_centers' in P else None
    if IC is None:
        ck.missing(rule_b, 'parameter init_centers of kcenters (the property quantifies over runs with initial centres)')
    callee = call.func.id if isinstance(call.func, ast.Name) and call.func.id not in ITER_FUNCS else None
    bads, missings, reached = {}, {}, {}

    def add(d, key, val, desc):
        d.setdefault(key, (val, []))[1].append(desc)
    for desc, env in _configurations(fn, NC, DC):
        outs = explore_prologue(fi, w, env)
        if outs is None:
            ck.missing(rule_a, 'abstract execution of the prologue of kcenters did not terminate')
            return
        for kind, node, e2, sites, definite, events in outs:
            if kind == 'raise':
                if definite:
                    add(bads, (rule_a, id(node), 'raise'), (node, None), desc)
                continue
            if kind != 'loop':
                continue
            # (a) the criteria at the guard
            good = True
            for name, given in ((NC, env[NC]), (DC, env[DC])):
                got = e2.get(name, AV_UNK)
                if name == NC:
                    ok = got[0] in ('inf', 'inf2') if given[0] in ('none', 'inf') else got == ('fin',)
                else:
                    ok = (got == ('zero',) or (got[0] == 'num' and got[1] == 0)) if given[0] in ('none', 'zero') else got == ('pos',)
                if ok or got == ('none',):          # None at the guard: C02.D4.criteria
                    continue
                good = False
                site = sites.get(name)
                if got == AV_UNK or not definite or site is None:
                    add(missings, (rule_a, id(site), name), (site, name), desc)
                else:
                    add(bads, (rule_a, id(site), name), (site, (name, given, got)), desc)
            if good:
                reached.setdefault(desc, node)
            if not definite:
                continue
            # (b) cold start exactly when no centres were supplied
            if IC is not None:
                if env[IC] == ('none',):
                    for st, nm in events:
                        if nm == IC:
                            add(bads, (rule_b, id(st), 'none'), (st, None), desc)
                else:
                    site = sites.get(D)
                    v = fi.def_value(site, D) if isinstance(site, (ast.Assign, ast.AnnAssign)) else None
                    parts = _alloc_parts(cx(fi.expand(v))) if v is not None else None
                    if parts is not None and parts[1] is not None and not isinstance(parts[1], str) \
                            and av_of(parts[1], {})[0] in ('inf', 'inf2'):
                        add(bads, (rule_b, id(site), 'cold'), (site, None), desc)
            # (c) the iteration function of the mode
            if callee is not None and MPI is not None and env.get(MPI, AV_UNK)[0] == 'bool':
                got = e2.get(callee, AV_UNK)
                want = ITER_FUNCS[1] if env[MPI][1] else ITER_FUNCS[0]
                if got[0] == 'func' and got[1] != want:
                    add(bads, (rule_c, id(sites.get(callee)), want), (sites.get(callee) or call, (want, got[1], env[MPI][1])), desc)
                elif got[0] != 'func':
                    add(missings, (rule_c, id(sites.get(callee)), 'callee'), (sites.get(callee), callee), desc)
                else:
                    reached.setdefault((rule_c, want), sites.get(callee) or call)

    def shown(descs):
        return '; '.join(sorted(set(descs)))[:200]
    for (rule, _, what), ((node, info), descs) in bads.items():
        if rule == rule_a and what == 'raise':
            conds = ' and '.join(('' if a.polarity else 'not ') + '(%s)' % u(a.test)[:80] for a in fi.cfg.nodes
                                 if isinstance(a, Assume) and fi.cfg.dominates(a, node))
            ck.bad(rule, mod, node, 'kcenters', 'raise under %s' % (conds or '<no condition>'),
                   'an admissible configuration is rejected before the main loop: for (%s) every branch condition on the way is '
                   'decided and leads to `%s` at %s. K-centers must run for every combination of a cluster number and / or a '
                   'radius cutoff; only a call without any stopping criterion may be refused' % (
                       shown(descs), u(node)[:80], mod.loc(node)))
        elif rule == rule_a:
            name, given, got = info
            ck.bad(rule, mod, node, 'kcenters', u(node)[:160],
                   'for the configuration (%s) the stopping criterion `%s` given by the caller (%s) is overwritten with %s before '
                   'the main loop: the loop then stops by a criterion that was not requested (too late / too early)' % (
                       shown(descs), name, _av_show(given), _av_show(got)))
        elif rule == rule_b and what == 'none':
            ck.bad(rule, mod, node, 'kcenters', u(node)[:160],
                   'without initial centres (%s is None; %s) the path taken iterates over `%s` at %s: the warm-start arm is '
                   'selected when NO centres were supplied (TypeError on the default call), the cold start when they were' % (
                       IC, shown(descs), IC, mod.loc(node)))
        elif rule == rule_b:
            ck.bad(rule, mod, node, 'kcenters', u(node)[:160],
                   'with initial centres supplied (%s) the distances the main loop starts from are the cold-start array of +inf: '
                   'the supplied centres are ignored and clustering restarts from frame 0' % shown(descs))
        else:
            want, got, mode = info
            ck.bad(rule, mod, node, 'kcenters', u(node)[:160],
                   'with mpi_mode=%s the main loop runs `%s`; the %s run must use `%s` (the serial iteration takes the argmax of the '
                   'local distances, the MPI iteration all-gathers the local maxima: in the other mode the wrong farthest point is '
                   'chosen / mpi is required for a serial run)' % (mode, got, 'MPI' if mode else 'serial', want))
    for (rule, _, what), ((node, info), descs) in missings.items():
        ck.missing(rule, 'value of `%s` at the main loop for the configuration (%s): bound by `%s`' % (
            info, shown(descs), u(node)[:80] if node is not None else '?'))
    n = 0
    for key, node in reached.items():
        if isinstance(key, tuple):
            ck.ok(rule_c, mod, node, '%s selected' % key[1], 'the iteration function run by the main loop is the one of the mode')
        else:
            n += 1
            ck.ok(rule_a, mod, node, key, 'configuration reaches the main loop with the criteria the caller gave')
    if not bads and not missings:
        ck.floor(rule_a, n, 5, 'admissible criteria combinations reaching the main loop')
        if IC is not None:
            ck.ok(rule_b, mod, w, 'cold start iff %s is None' % IC, 'the cold-start state is used exactly when no centres were supplied')


# ---------------------------------------------------------------------------
# D1 (warm start): the helper calls of the warm start receive their
# arguments in the roles the helpers define

def _callee_positions(ck, name, interface):
    """Positions of the interface parameters of cluster.util.<name>, read
    from its definition (falls back to the documented order)."""
    from .cluster_common import CU
    try:
        P = params(ck.repo.mod(CU).func(name))
    except (AnalysisIncomplete, KeyError):
        P = []
    if all(p in P for p in interface):
        return {p: P.index(p) for p in interface}
    return {p: i for i, p in enumerate(interface)}


def d1_warm_args(ck):
    """A warm start defines the state the farthest-point iteration continues
    from: labels and running-minimum distances of every frame OF THE DATA with
    respect to THE SUPPLIED CENTRES under THE METRIC, and one index per label.
    The two library helpers that compute it take these by position: each
    argument is classified against the role its parameter has."""
    rule = 'C02.D1.warmstart.args'
    mod = ck.repo.mod(KC)
    K = kcenters_roles(ck, rule, mod)
    if K is None:
        return
    fn, fi, w, call = K['fn'], K['fi'], K['loop'], K['call']
    T, D, A = K['T'], K['D'], K['A']
    P = params(fn)
    IC = 'init_centers' if 'init_centers' in P else None
    CEN = _centres_role(K, mod)
    dm = arg_or_kw(call, 1, 'distance_method')
    DM = dm.id if isinstance(dm, ast.Name) else None
    if IC is None:
        return
    cen_forms = [f % x for x in ([CEN] if CEN else []) + [IC] for f in
                 ('%s', 'list(%s)', '[_C for _C in %s]', 'np.asarray(%s)', '%s.copy()', 'tuple(%s)')]
    scope = {x for x in (T, CEN, IC, DM, D, A) if x}
    spec = {
        'assign_to_nearest_center': (('trajectory', 'cluster_centers', 'distance_method'),
                                     {'trajectory': ([T], 'the data'), 'cluster_centers': (cen_forms, 'the supplied centres'),
                                      'distance_method': ([DM] if DM else None, 'the metric')}),
        'find_cluster_centers': (('assignments', 'distances'),
                                 {'assignments': ([A], 'the labels'), 'distances': ([D], 'the distances to the nearest centre')}),
    }
    n = 0
    for c in calls_in(fn):
        last = (call_name(c) or '').split('.')[-1]
        if last not in spec or _inside(mod, c, w):
            continue
        interface, roles = spec[last]
        pos = _callee_positions(ck, last, interface)
        if any(isinstance(a, ast.Starred) for a in c.args) or any(k.arg is None for k in c.keywords):
            ck.missing(rule, 'arguments of `%s`' % u(c)[:100])
            continue
        if last == 'assign_to_nearest_center':
            n += 1
        st = fi.stmt(c)
        for pname in interface:
            forms, what = roles[pname]
            a = arg_or_kw(c, pos[pname], pname)
            if a is None or forms is None:
                ck.missing(rule, 'argument `%s` of `%s`' % (pname, u(c)[:100]))
                continue
            x = fi.expand(a, stop=tuple(scope), strict=False)
            verdict = cls(x, forms, scope=scope)
            if verdict[0] == 'near':
                # positively wrong only if the argument IS the value of another role (possibly re-wrapped
                # as list / array); some other expression of the roles is not judged
                core = _strip(x)
                while isinstance(core, ast.Call) and len(core.args) == 1 and not core.keywords and (
                        (call_name(core) or '') in _LEN_WRAPPERS):
                    core = core.args[0]
                if isinstance(core, ast.Call) and isinstance(core.func, ast.Attribute) and core.func.attr == 'copy' \
                        and not core.args and not core.keywords:
                    core = core.func.value
                if not (isinstance(core, ast.Name) and core.id in scope):
                    verdict = ('far',) + tuple(verdict[1:])
            ck.decide(verdict, rule, mod, st, 'kcenters', '%s: %s=%s' % (last, pname, u(a)[:80]),
                      '%s receives %s as `%s`' % (last, what, pname),
                      'the warm start must hand %s to parameter `%s` of %s (expected `%s`); found `%s`: the state the '
                      'farthest-point iteration continues from (labels, running-minimum distances, one index per centre) is '
                      'then not the assignment of the frames to the supplied centres' % (what, pname, last, forms[0], ctext(x)[:100]))
        # the results, when unpacked directly, in the order the helper returns them
        if last == 'assign_to_nearest_center' and isinstance(st, ast.Assign) and st.value is c and len(st.targets) == 1 \
                and isinstance(st.targets[0], (ast.Tuple, ast.List)) and len(st.targets[0].elts) == 2 \
                and all(isinstance(e, ast.Name) for e in st.targets[0].elts):
            order = _assign_return_order(ck)
            got = [e.id for e in st.targets[0].elts]
            if order is not None and set(got) == {A, D}:
                want = [A, D] if order == ('assignments', 'distances') else [D, A]
                ck.check(got == want, rule, mod, st, 'kcenters', 'results of %s -> %s' % (last, ', '.join(got)),
                         'labels and distances are taken from the helper in the order it returns them',
                         'assign_to_nearest_center returns (%s); the warm start binds them as (%s): labels and distances are '
                         'exchanged' % (', '.join(order), ', '.join(got)))
    if n == 0:
        ck.missing(rule, 'warm start: the call that assigns the frames to the supplied centres (assign_to_nearest_center)')


def _assign_return_order(ck):
    from .cluster_common import CU
    try:
        fn = ck.repo.mod(CU).func('assign_to_nearest_center')
    except (AnalysisIncomplete, KeyError):
        return None
    rets = returns_of(fn)
    if len(rets) != 1 or not isinstance(rets[0].value, ast.Tuple):
        return None
    names = tuple(e.id if isinstance(e, ast.Name) else None for e in rets[0].value.elts)
    return names if set(names) == {'assignments', 'distances'} and len(names) == 2 else None


# ---------------------------------------------------------------------------
# D3 (assertions): no assertion of an iteration function contradicts the
# contract under which kcenters calls it

def _measure(e, lens, dims):
    """('len', X) for len(X) / X.shape[0] / X.size with X a per-frame 1-d
    array; ('ndim', X) for len(X.shape) / X.ndim / np.ndim(X)."""
    for pat, kind in (('len(_X.shape)', 'ndim'), ('_X.ndim', 'ndim'), ('np.ndim(_X)', 'ndim'),
                      ('len(_X)', 'len'), ('_X.shape[0]', 'len')):
        b = match(pat, e)
        if b is not None and isinstance(b['_X'], ast.Name):
            nm = b['_X'].id
            if (kind == 'len' and nm in lens) or (kind == 'ndim' and nm in dims):
                return kind, nm
    return None


def d3_asserts(ck):
    """An `assert` is a way out of the function.  kcenters hands the
    iteration the data together with one distance and one label per frame
    (C02.D1.coldstart: both allocated with len(traj); the warm start: both
    returned per frame), and the candidate distances have the shape of the
    current ones: an assertion that two of these lengths / numbers of
    dimensions DIFFER (or are strictly ordered) fails on every admissible
    call.  Any other assertion is not judged (extra assertions are free)."""
    rule = 'C02.D3.assert-admissible'
    mod = ck.repo.mod(KC)
    for q in ITER_FUNCS:
        fn = mod.func(q)
        fi = finfo(mod, fn)
        R = iteration_roles(fn)
        T, D, A = R['T'], R['D'], R['A']
        cand = {a.value.value.id for a, t in subscript_stores(fn, D) if isinstance(a, ast.Assign)
                and isinstance(a.value, ast.Subscript) and isinstance(a.value.value, ast.Name)}
        n = 0
        for s in walk_local(fn):
            if not isinstance(s, ast.Assert):
                continue
            cs = conjuncts(s.test, True)
            if cs is None:
                continue
            lens = {x for x in (T, D, A) if fi.rd.defs_at(s, x) == {'PARAM'}}
            dims = {x for x in (D, A) if fi.rd.defs_at(s, x) == {'PARAM'}} | cand
            wrong = None
            judged = False
            for f in cs:
                if isinstance(f, Cmp):
                    l = _measure(cx(fi.expand(f.lhs)), lens, dims)
                    r = _measure(cx(fi.expand(f.rhs)), lens, dims)
                    if l is None or r is None or l[0] != r[0]:
                        continue
                    judged = True
                    less = f.as_less()
                    if f.op is ast.NotEq or (less is not None and less[1]):
                        wrong = (f, l, r)
                elif f[0] == 'expr' and f[2] is False and A in lens and \
                        match('np.issubdtype(type(%s[__]), np.integer)' % A, f[1]) is not None:
                    judged = True
                    wrong = (f, ('dtype', A), ('dtype', 'integer'))
            if wrong is not None:
                f, l, r = wrong
                what = {'len': 'length', 'ndim': 'number of dimensions', 'dtype': 'dtype'}[l[0]]
                ck.bad(rule, mod, s, q, u(s)[:160],
                       'this assertion demands that the %s of `%s` and of `%s` differ; kcenters calls the iteration with one '
                       'distance and one label per frame of the data (and the candidate distances have the shape of the current '
                       'ones, the labels are integers), so it fails - AssertionError - on every admissible call' % (what, l[1], r[1]))
            elif judged:
                n += 1
                ck.ok(rule, mod, s, u(s)[:160], 'the assertion states the per-frame contract kcenters establishes')


def check(ck):
    d1_farthest(ck)
    d1_precision(ck)
    d1_warm_args(ck)
    d2_guard(ck)
    d2_warm_count(ck)
    d3_unbound(ck)
    d3_asserts(ck)
    d4_criteria(ck)
    d4_configurations(ck)
    d5_triangle(ck)
    d5_sole_writer(ck)
    kc = ck.repo.mod(KC)
    n = check_running_min_commit(ck, 'C02.D5.commit', kc, '_kcenters_iteration',
                                 True, 'len-before-append')
    n += check_running_min_commit(ck, 'C02.D5.commit', kc, '_kcenters_iteration_mpi',
                                  True, 'len-before-append')
    ck.floor('C02.D5.commit', n, 2, 'running-minimum commits')
    return EXPLANATION

"""C02 K-centers: farthest point, stopping rule, shortcut (structural clauses)."""
import ast
import itertools

from .. import nullness
from ..cfg import ENTRY, EXIT, Assume, header_uses
from ..core import (AnalysisIncomplete, call_name, const_value, dotted, kwarg,
                    names_loaded, params, target_names, u, walk_expr,
                    walk_local)
from ..patterns import (Cmp, assigns_to, calls_in, conjuncts, finfo,
                        returns_of, subscript_stores)
from .cluster_common import KC, check_running_min_commit

EXPLANATION = (
    'Static decision of the structural necessary conditions of C02: (D1) the '
    'next centre index is argmax of the running-minimum distance array (MPI: '
    'argmax over all-gathered local maxima, index from the matching all-'
    'gathered local argmax) and a cold start has +inf distances so frame 0 is '
    'first; (D2) the main-loop guard is exactly the conjunction of the strict '
    'tests count < n_clusters and maxdist > dist_cutoff with maxdist '
    'recomputed from the distances returned by the same trip; (D3) no name is '
    'possibly unbound after a zero-trip loop (must-def dataflow over the CFG); '
    '(D4) on each of the four None/not-None input combinations the stopping '
    'criteria are non-None at the guard (nullness dataflow with branch '
    'pruning); (D5) the triangle-inequality shortcut recomputes frames with '
    'd > d(centre,new)/k, k<=2, seeds the candidate with a COPY of the current '
    'distances and commits through the same strict running-minimum mask. '
    'Optimality (2-approximation) and numeric equality of the two variants '
    'follow by a textbook argument and are not re-proved.')


def is_argmax_of(e, name):
    if isinstance(e, ast.Call):
        cn = call_name(e)
        if cn in ('np.argmax', 'numpy.argmax') and e.args and u(e.args[0]) == name \
                and len(e.args) == 1 and not e.keywords:
            return True
        if isinstance(e.func, ast.Attribute) and e.func.attr == 'argmax' and \
                u(e.func.value) == name and not e.args:
            return True
    return False


def is_max_of(e, name):
    if isinstance(e, ast.Call):
        cn = call_name(e)
        if cn in ('np.max', 'np.amax') and e.args and u(e.args[0]) == name and len(e.args) == 1:
            return True
        if isinstance(e.func, ast.Attribute) and e.func.attr == 'max' and \
                u(e.func.value) == name and not e.args and cn not in ('np.max',):
            return True
    return False


def d1_farthest(ck):
    rule = 'C02.D1.farthest'
    mod = ck.repo.mod(KC)
    fn = mod.func('_kcenters_iteration')
    fi = finfo(mod, fn)
    ck.analysed(mod, fn)
    dparam = 'distances'
    if dparam not in params(fn):
        raise AnalysisIncomplete('_kcenters_iteration has no `distances` parameter')
    # the index used to select the returned centre
    rets = returns_of(fn)
    n = 0
    for r in rets:
        if not isinstance(r.value, ast.Tuple):
            continue
        cexpr = fi.resolve(r.value.elts[0])
        if not (isinstance(cexpr, ast.Subscript) and isinstance(cexpr.slice, ast.Name)):
            ck.bad(rule, mod, r, '_kcenters_iteration', u(cexpr),
                   'returned centre is not traj[<index>]')
            continue
        idx = cexpr.slice
        defs = fi.defs_of_use(idx)
        for site in defs:
            v = fi.def_value(site, idx.id) if site not in ('PARAM', 'UNBOUND') else None
            n += 1
            ok = v is not None and is_argmax_of(v, dparam)
            # the distances operand must be the parameter value (no prior rebinding)
            if ok:
                opnames = [x for x in walk_expr(v) if isinstance(x, ast.Name) and x.id == dparam]
                ok = all(fi.defs_of_use(x) == {'PARAM'} for x in opnames)
            ck.check(ok, rule, mod, site if hasattr(site, 'lineno') else r,
                     '_kcenters_iteration', u(site) if hasattr(site, 'lineno') else idx.id,
                     'next centre = argmax of the running-minimum distances passed in',
                     'the index of the next centre must be np.argmax(%s) of the '
                     'running-minimum distance array received as parameter '
                     '(farthest-point rule); found `%s`' % (dparam, u(v) if v is not None else site))
    # MPI
    fn2 = mod.func('_kcenters_iteration_mpi')
    fi2 = finfo(mod, fn2)
    ck.analysed(mod, fn2)
    df = calls_in(fn2, 'mpi.ops.distribute_frame')
    if len(df) != 1:
        ck.missing(rule, 'distribute_frame call in _kcenters_iteration_mpi')
    else:
        owner = kwarg(df[0], 'owner_rank')
        widx = kwarg(df[0], 'world_index')
        for nm, role in ((owner, 'owner'), (widx, 'index')):
            if not isinstance(nm, ast.Name):
                ck.bad(rule, mod, df[0], '_kcenters_iteration_mpi', u(df[0]),
                       '%s argument is not a plain name' % role)
                continue
            for site in fi2.defs_of_use(nm):
                v = fi2.def_value(site, nm.id)
                n += 1
                if isinstance(v, ast.Constant) and v.value == 0:
                    # cold start: first centre is frame 0 of rank 0; must be
                    # guarded by len(center_inds) == 0
                    g = _guarding_if(mod, site)
                    ok = g is not None and u(g.test) in ('len(center_inds) == 0', 'not center_inds', 'len(center_inds) < 1')
                    ck.check(ok, rule, mod, site, '_kcenters_iteration_mpi', u(site),
                             'cold start selects frame 0 on rank 0 only when no centre exists',
                             'frame-0/rank-0 default must be guarded by an empty centre list')
                    continue
                if role == 'owner':
                    ok = isinstance(v, ast.Call) and isinstance(v.func, ast.Attribute) and v.func.attr == 'argmax' and \
                        not v.args and _is_allgather_of(fi2, v.func.value, 'max', dparam)
                    ck.check(ok, rule, mod, site, '_kcenters_iteration_mpi', u(site),
                             'owner = argmax over all-gathered local maxima of distances',
                             'owner rank of the next centre must be argmax of the '
                             'all-gathered local maxima of `%s`' % dparam)
                else:
                    ok = isinstance(v, ast.Subscript) and isinstance(v.slice, ast.Name) and \
                        isinstance(owner, ast.Name) and v.slice.id == owner.id and \
                        _is_allgather_of(fi2, v.value, 'argmax', dparam)
                    ck.check(ok, rule, mod, site, '_kcenters_iteration_mpi', u(site),
                             'index = all-gathered local argmax at the owner',
                             'local index of the next centre must be the all-gathered '
                             'local argmax of `%s` taken at the owner rank' % dparam)
    ck.floor(rule, n, 5, 'farthest-point definitions')
    # cold start arrays
    fnk = mod.func('kcenters')
    ck.analysed(mod, fnk)
    for name, fill in (('distances', 'np.inf'), ('assignments', '-1')):
        found = False
        for s in assigns_to(fnk, name):
            if isinstance(s, ast.Assign) and isinstance(s.value, ast.Call) and \
                    call_name(s.value) == 'np.full':
                found = True
                a = s.value.args
                ok = len(a) >= 2 and u(a[0]) == 'len(traj)' and u(a[1]) == fill
                ck.check(ok, 'C02.D1.coldstart', mod, s, 'kcenters', u(s),
                         'cold start: %s = %s for every frame' % (name, fill),
                         'cold start must initialise %s to %s for every frame of traj '
                         '(so that frame 0 is the first farthest point and every frame '
                         'is claimed by the first centre)' % (name, fill))
        if not found:
            ck.missing('C02.D1.coldstart', 'np.full initialisation of %s' % name)


def _guarding_if(mod, node):
    p = mod.parent.get(node)
    while p is not None and not isinstance(p, (ast.If, ast.FunctionDef)):
        p = mod.parent.get(p)
    return p if isinstance(p, ast.If) else None


def _is_allgather_of(fi, e, reduction, dparam):
    e = fi.resolve(e) if isinstance(e, ast.Name) else e
    if isinstance(e, ast.Call) and call_name(e) == 'np.array' and e.args:
        e = e.args[0]
    if not (isinstance(e, ast.Call) and (call_name(e) or '').endswith('comm.allgather') and e.args):
        return False
    inner = e.args[0]
    return is_argmax_of(inner, dparam) if reduction == 'argmax' else is_max_of(inner, dparam)


def d2_guard(ck):
    rule = 'C02.D2.guard'
    mod = ck.repo.mod(KC)
    fn = mod.func('kcenters')
    fi = finfo(mod, fn)
    loops = [w for w in walk_local(fn) if isinstance(w, ast.While)]
    main = [w for w in loops if any(isinstance(c, ast.Call) and u(c.func) == 'iteration'
                                    for c in walk_local(w))]
    if len(main) != 1:
        ck.missing(rule, 'main while loop calling the iteration function (found %d)' % len(main))
        return
    w = main[0]
    cs = conjuncts(w.test, True)
    if cs is None:
        ck.bad(rule, mod, w, 'kcenters', u(w.test),
               'the loop must continue only while BOTH criteria ask for more centres; '
               'the guard is a disjunction, so clustering continues after one '
               'criterion is already met')
        return
    count_ok = dist_ok = None
    extras = []
    for c in cs:
        if not isinstance(c, Cmp):
            extras.append(c)
            continue
        less = c.as_less()
        if less is None:
            extras.append(c)
            continue
        small, strict, big = less
        if isinstance(small, ast.Call) and call_name(small) == 'len' and u(big) == 'n_clusters':
            lst = u(small.args[0])
            count_ok = (strict, lst, c)
        elif u(small) == 'dist_cutoff' and isinstance(big, ast.Name):
            dist_ok = (strict, big.id, c, big)
        else:
            extras.append(c)
    if extras:
        ck.bad(rule, mod, w, 'kcenters', u(w.test),
               'unexpected extra/unrecognised conjunct(s) in the loop guard: %s' % (
                   [str(e) for e in extras]))
    if count_ok is None:
        ck.bad(rule, mod, w, 'kcenters', u(w.test),
               'guard lacks the test len(<centre list>) < n_clusters')
    else:
        strict, lst, c = count_ok
        ck.check(strict, rule + '.count', mod, w, 'kcenters', str(c),
                 'continue only while count < n_clusters (strict)',
                 'count test must be strict (len(%s) < n_clusters): with <= one centre '
                 'too many is added' % lst)
        # the list must grow by exactly one per trip: it is passed to iteration
        # which appends once (C01.D1) - check it is the list passed
        calls = [c2 for c2 in calls_in(w) if u(c2.func) == 'iteration']
        passed = any(any(u(a) == lst for a in c2.args) for c2 in calls)
        ck.check(passed, rule + '.count', mod, w, 'kcenters',
                 'iteration(..., %s, ...)' % lst,
                 'the counted list is the one the iteration extends',
                 'the list counted by the guard (`%s`) is not the one handed to the '
                 'iteration, so the count never changes / is stale' % lst)
    if dist_ok is None:
        ck.bad(rule, mod, w, 'kcenters', u(w.test),
               'guard lacks the test maxdist > dist_cutoff')
    else:
        strict, md, c, mdnode = dist_ok
        ck.check(strict, rule + '.radius', mod, w, 'kcenters', str(c),
                 'continue only while radius > cutoff (strict)',
                 'radius test must be strict (maxdist > dist_cutoff): with >= the loop '
                 'keeps adding centres although the covering radius is no longer '
                 'above the cutoff')
        # maxdist definitions reaching the guard
        defs = fi.rd.defs_at(w, md)
        for site in defs:
            if site in ('PARAM', 'UNBOUND'):
                ck.bad(rule + '.radius', mod, w, 'kcenters', md,
                       'radius variable possibly unbound/parameter at the guard')
                continue
            v = fi.def_value(site, md)
            ok, why = _is_global_max_of_distances(fi, site, v)
            in_loop = _inside(mod, site, w)
            if ok and in_loop:
                # distances used must be the one returned by this trip
                dn = [x for x in walk_expr(v) if isinstance(x, ast.Name) and x.id == 'distances']
                unpack = [s for s in walk_local(w) if isinstance(s, ast.Assign)
                          and isinstance(s.value, ast.Call) and u(s.value.func) == 'iteration']
                ok = bool(dn) and all(fi.defs_of_use(x) == set(unpack) for x in dn)
                why = 'radius recomputed from the distances returned by this trip' if ok else \
                    'radius on the back edge is not computed from the distances returned by this trip'
            ck.check(ok, rule + '.radius', mod, site, 'kcenters', u(site),
                     why, 'definition of `%s` reaching the guard: %s' % (md, why))
        inloop_defs = [s for s in defs if s not in ('PARAM', 'UNBOUND') and _inside(mod, s, w)]
        ck.check(len(inloop_defs) >= 1, rule + '.radius', mod, w, 'kcenters',
                 'back-edge definition of %s' % md,
                 'radius is refreshed inside the loop',
                 'the radius `%s` is never recomputed inside the loop: the guard tests a stale value' % md)


def _inside(mod, node, anc):
    p = node
    while p is not None:
        if p is anc:
            return True
        p = mod.parent.get(p)
    return False


def _is_global_max_of_distances(fi, site, v):
    if v is None:
        return False, 'not a simple assignment'
    alts = [v.body, v.orelse] if isinstance(v, ast.IfExp) else [v]
    for a in alts:
        if is_max_of(a, 'distances'):
            continue
        if isinstance(a, ast.Call) and (call_name(a) or '').endswith('striped_array_max') \
                and a.args and u(a.args[0]) == 'distances':
            continue
        return False, '`%s` is not the maximum of the distance array' % u(a)
    if isinstance(v, ast.IfExp):
        # MPI branch must be selected by mpi_mode
        if u(v.test) != 'mpi_mode':
            return False, 'serial/MPI maximum selected by `%s`' % u(v.test)
        if not (call_name(v.body) or '').endswith('striped_array_max'):
            return False, 'MPI mode must use the all-reduced maximum'
    return True, 'maximum of the current distances'


def d3_unbound(ck):
    rule = 'C02.D3.definite-assignment'
    mod = ck.repo.mod(KC)
    for q in ('kcenters', '_kcenters_iteration', '_kcenters_iteration_mpi'):
        fn = mod.func(q)
        fi = finfo(mod, fn)
        ck.analysed(mod, fn)
        n = 0
        for s in fi.cfg.nodes:
            if s in (ENTRY, EXIT) or isinstance(s, Assume):
                continue
            for nm in header_uses(s):
                if nm.id not in fi.rd.locals:
                    continue
                n += 1
                if fi.rd.possibly_unbound(s, nm.id):
                    # witness path avoiding all defs
                    defs = [d for d in fi.cfg.nodes if d not in (ENTRY, EXIT)
                            and not isinstance(d, Assume) and nm.id in __import__('sa.cfg', fromlist=['stmt_defs']).stmt_defs(d)]
                    path = fi.cfg.path(ENTRY, s, avoiding=defs)
                    wit = ' -> '.join(fi.cfg.describe(x) for x in (path or [])[:14])
                    ck.bad(rule, mod, s, q, 'read of `%s` in: %s' % (nm.id, u(s)[:100]),
                           '`%s` is read here but bound only on some paths (e.g. only '
                           'inside a loop that may run zero times): UnboundLocalError '
                           'for admissible inputs' % nm.id, wit)
        ck.ok(rule, mod, fn, '%s: %d local reads' % (q, n), 'every local read is definitely assigned')


def d4_criteria(ck):
    rule = 'C02.D4.criteria'
    mod = ck.repo.mod(KC)
    fn = mod.func('kcenters')
    fi = finfo(mod, fn)
    loops = [w for w in walk_local(fn) if isinstance(w, ast.While)]
    if not loops:
        ck.missing(rule, 'while loop')
        return
    w = loops[0]
    for a, b in itertools.product([nullness.NONE, nullness.NOTNONE], repeat=2):
        IN, OUT = nullness.run(fi, {'n_clusters': a, 'dist_cutoff': b})
        st = IN.get(w)
        desc = 'n_clusters %s, dist_cutoff %s' % (a, b)
        if st is None:
            # unreachable: must be because the function raised
            ck.ok(rule, mod, w, desc, 'rejected with an exception before the loop')
            continue
        ok = st.get('n_clusters') == nullness.NOTNONE and st.get('dist_cutoff') == nullness.NOTNONE
        ck.check(ok, rule, mod, w, 'kcenters', desc + ' -> guard ' + u(w.test),
                 'both criteria are numbers at the guard',
                 'for the input combination (%s) the loop guard compares with None '
                 '(state at guard: n_clusters=%s dist_cutoff=%s): TypeError instead '
                 'of using the remaining criterion' % (desc, st.get('n_clusters'), st.get('dist_cutoff')))
    # the defaults substituted must be +inf for the count and 0 for the radius
    for name, want in (('n_clusters', ('np.inf', 'float("inf")', "float('inf')", 'math.inf')), ('dist_cutoff', ('0', '0.0'))):
        for s in assigns_to(fn, name):
            if isinstance(s, ast.Assign):
                ck.check(u(s.value) in want, rule + '.default', mod, s, 'kcenters', u(s),
                         'missing criterion replaced by its neutral element',
                         'a missing %s must be replaced by %s (the value that never stops the loop)' % (name, want[0]))


def d5_triangle(ck):
    rule = 'C02.D5.triangle'
    mod = ck.repo.mod(KC)
    n = 0
    for q, cand in (('_kcenters_iteration', None), ('_kcenters_iteration_mpi', None)):
        fn = mod.func(q)
        fi = finfo(mod, fn)
        # find the recompute mask:  distances > (cc[assignments] / k)
        masks = []
        for s in walk_local(fn):
            if isinstance(s, ast.Assign) and isinstance(s.value, ast.Compare) and \
                    len(s.value.ops) == 1 and isinstance(s.targets[0], ast.Name):
                c = Cmp(s.value.left, type(s.value.ops[0]), s.value.comparators[0])
                less = c.as_less()
                if less is None:
                    continue
                small, strict, big = less
                if u(big) == 'distances' and 'assignments' in names_loaded(small):
                    masks.append((s, small, strict, c))
        if len(masks) != 1:
            ck.missing(rule, '%s: triangle-inequality recompute mask (found %d)' % (q, len(masks)))
            continue
        s, thr, strict, c = masks[0]
        n += 1
        # threshold = cc[assignments] / k  or * c
        factor = None
        cc = None
        if isinstance(thr, ast.BinOp) and isinstance(thr.op, ast.Div):
            k = const_value(thr.right)
            if isinstance(k, (int, float)) and k > 0:
                factor = 1.0 / k
            cc = thr.left
        elif isinstance(thr, ast.BinOp) and isinstance(thr.op, ast.Mult):
            for a, b in ((thr.left, thr.right), (thr.right, thr.left)):
                k = const_value(a)
                if isinstance(k, (int, float)):
                    factor, cc = float(k), b
        ok = factor is not None and factor <= 0.5 and isinstance(cc, ast.Subscript) \
            and u(cc.slice) == 'assignments'
        ck.check(ok, rule + '.threshold', mod, s, q, u(s),
                 'recompute frames with d > d(centre,new) * %s (<= 1/2)' % factor,
                 'pruning is sound only for frames with d(x,c) <= d(c,new)/2 '
                 '(triangle inequality): the recompute mask must be '
                 'distances > cc_dists[assignments] / k with k >= 2; found `%s`' % c)
        mask = s.targets[0].id
        # cc_dists = distance_method(<centres>, new_center)
        if isinstance(cc, ast.Subscript) and isinstance(cc.value, ast.Name):
            for site in fi.defs_of_use(cc.value):
                v = fi.def_value(site, cc.value.id)
                okc = False
                if isinstance(v, ast.Call):
                    txt = u(v)
                    okc = 'new_center' in txt and ('center' in u(v.args[0]) if v.args else False)
                ck.check(okc, rule + '.centre-dists', mod, site, q, u(site)[:160],
                         'centre-to-new-centre distances come from the current centres',
                         'cc_dists must be the distances between the current centres and the new centre')
        # candidate = distances.copy(); candidate[mask] = distance_method(traj[mask], new_center)
        st = [(a, t) for a, t in subscript_stores(fn) if isinstance(t.slice, ast.Name)
              and t.slice.id == mask]
        if len(st) != 1:
            ck.bad(rule + '.recompute', mod, s, q, u(s),
                   'expected exactly one store under the recompute mask, found %d' % len(st))
            continue
        a, t = st[0]
        candname = u(t.value)
        v = a.value
        okr = isinstance(v, ast.Call) and u(v.func) == 'distance_method' and len(v.args) == 2 \
            and u(v.args[0]) == 'traj[%s]' % mask and u(v.args[1]) == 'new_center'
        ck.check(okr, rule + '.recompute', mod, a, q, u(a),
                 'masked frames get their true distance to the new centre',
                 'recomputed entries must be distance_method(traj[%s], new_center)' % mask)
        # candidate is a copy of distances
        for site in fi.defs_of_use(t.value) if isinstance(t.value, ast.Name) else []:
            vv = fi.def_value(site, candname)
            okc = isinstance(vv, ast.Call) and u(vv) in (
                'distances.copy()', 'np.copy(distances)', 'np.array(distances)',
                'np.array(distances, copy=True)', 'copy.copy(distances)')
            ck.check(okc, rule + '.copy', mod, site, q, u(site),
                     'candidate distances start as a COPY of the current distances',
                     'the candidate array must be a copy of `distances`: if it aliases '
                     'it, recomputed values are written into the current distances '
                     'before the strict commit mask is evaluated (labels are then '
                     'never updated for them)')
        # guard of the shortcut: use_triangle_inequality and all assigned
        g = _guarding_if(mod, s)
        okg = g is not None and 'use_triangle_inequality' in names_loaded(g.test) and \
            'assignments' in names_loaded(g.test)
        cj = conjuncts(g.test, True) if g is not None else None
        okg = okg and cj is not None
        ck.check(okg, rule + '.guard', mod, g or s, q, u(g.test) if g else '?',
                 'shortcut only when requested and every frame already has a centre',
                 'the shortcut indexes cc_dists[assignments]: it must be guarded by '
                 'use_triangle_inequality AND all assignments >= 0')
        # the else branch computes all distances
        if g is not None and g.orelse:
            full = [x for x in walk_local(ast.Module(body=g.orelse, type_ignores=[]))
                    if isinstance(x, ast.Assign)]
            okf = any(u(x.targets[0]) == candname and isinstance(x.value, ast.Call)
                      and u(x.value.func) == 'distance_method' and u(x.value.args[0]) == 'traj'
                      and u(x.value.args[1]) == 'new_center' for x in full)
            ck.check(okf, rule + '.plain', mod, g, q, 'else: ' + '; '.join(u(x) for x in full)[:120],
                     'plain branch computes every distance to the new centre into the same candidate',
                     'plain branch must assign distance_method(traj, new_center) to `%s`' % candname)
    ck.floor(rule + '.threshold', n, 2, 'triangle-inequality sites')


def check(ck):
    d1_farthest(ck)
    d2_guard(ck)
    d3_unbound(ck)
    d4_criteria(ck)
    d5_triangle(ck)
    kc = ck.repo.mod(KC)
    n = check_running_min_commit(ck, 'C02.D5.commit', kc, '_kcenters_iteration',
                                 True, 'len-before-append')
    n += check_running_min_commit(ck, 'C02.D5.commit', kc, '_kcenters_iteration_mpi',
                                  True, 'len-before-append')
    ck.floor('C02.D5.commit', n, 2, 'running-minimum commits')
    return EXPLANATION

"""Generic rule families shared by several properties (added after the
seeding rounds; each found a genuine defect, see DESIGN.md 11.2).

definite_assignment   every read of a local is reached by a definition on
                      every path, counting zero-trip loops (F1, F18, G1).
param_on_every_result_path
                      a result-shaping parameter (e.g. `stride`) reaches the
                      returned value on every path that returns loaded data
                      (G3: a branch that forgets the parameter).
reduction_asserts     an assertion that orders a SUM-reduced value against the
                      rank-local term is an invariant only if the terms are
                      non-negative by construction (G2).
"""
import ast

from ..cfg import ENTRY, EXIT, Assume, header_uses, stmt_defs
from ..core import call_name, kwarg, params, u, walk_local
from ..patterns import Cmp, conjuncts, finfo, returns_of


def definite_assignment(ck, rule, mod, quals, why='', exempt=()):
    """`exempt`: {(qual, name): reason} for reads proved safe by hand."""
    exempt = dict(exempt or {})
    total = 0
    for q in quals:
        fn = mod.functions.get(q)
        if fn is None:
            ck.missing(rule, 'function %s in %s' % (q, mod.rel))
            continue
        fi = finfo(mod, fn)
        ck.analysed(mod, fn)
        n = 0
        reported = set()
        for s in fi.cfg.nodes:
            if s in (ENTRY, EXIT) or isinstance(s, Assume):
                continue
            for nm in header_uses(s):
                if nm.id not in fi.rd.locals:
                    continue
                if _comprehension_bound(mod, nm):
                    continue
                n += 1
                if not fi.rd.possibly_unbound(s, nm.id):
                    continue
                if (q, nm.id) in exempt:
                    ck.ok(rule, mod, s, 'read of %s' % nm.id, exempt[(q, nm.id)])
                    continue
                if (nm.id, id(s)) in reported:
                    continue
                reported.add((nm.id, id(s)))
                defs = [d for d in fi.cfg.nodes if d not in (ENTRY, EXIT) and not isinstance(d, Assume) and nm.id in stmt_defs(d)]
                # infeasible branch heads: the false arm of a domain tautology (mpi.size() >= 1)
                infeasible = [a for a in fi.cfg.nodes if isinstance(a, Assume) and _tautology(a.test) is (not a.polarity)]
                # the reading statement may itself define the name (x = f(x)): it is the END of the path, not a node to avoid
                path = fi.cfg.path(ENTRY, s, avoiding=[d for d in defs if d is not s] + infeasible)
                if path is None:
                    ck.ok(rule, mod, s, 'read of %s' % nm.id, 'unbound only on a path through the false arm of a domain tautology (mpi.size() >= 1)')
                    continue
                g = _guard_of_use(mod, nm, s)
                odefs = [d for d in defs if d is not s]
                if g is not None and odefs and all(_defined_under(mod, d, g, fn) for d in odefs if not _dominated_by_def(fi, d, odefs)):
                    ck.ok(rule, mod, s, 'read of %s' % nm.id,
                          'read in the arm of a conditional expression guarded by `%s`; every definition sits under an if with the same rank-stable test' % u(g[0]))
                    continue
                wit = ' -> '.join(fi.cfg.describe(x) for x in (path or [])[:14])
                ck.bad(rule, mod, s, q, 'read of `%s` in: %s' % (nm.id, u(s)[:100]),
                       '`%s` is bound only inside a loop/branch that is skipped for an admissible input%s: '
                       'UnboundLocalError on the path shown' % (nm.id, (' (' + why + ')') if why else ''), wit)
        total += n
        ck.ok(rule, mod, fn, '%s: %d local reads' % (q, n), 'every read of a local is reached by a definition on every path')
    return total


def _comprehension_bound(mod, name_node):
    p = mod.parent.get(name_node)
    while p is not None and not isinstance(p, (ast.FunctionDef, ast.AsyncFunctionDef, ast.Lambda)):
        if isinstance(p, (ast.ListComp, ast.SetComp, ast.DictComp, ast.GeneratorExp)):
            for g in p.generators:
                for t in ast.walk(g.target):
                    if isinstance(t, ast.Name) and t.id == name_node.id:
                        return True
        p = mod.parent.get(p)
    return False


def _rank_stable(test):
    """Built only from mpi.rank()/mpi.size() calls, constants and comparisons."""
    for n in ast.walk(test):
        if isinstance(n, ast.Call):
            if (call_name(n) or '') not in ('mpi.rank', 'mpi.size', 'rank', 'size'):
                return False
        elif isinstance(n, ast.Name) and n.id not in ('mpi', 'rank', 'size'):
            return False
    return True


def _tautology(test):
    """True / False for tests decided by the domain fact size() >= 1; None otherwise."""
    cs = conjuncts(test, True)
    if not cs or len(cs) != 1 or not isinstance(cs[0], Cmp):
        return None
    al = cs[0].as_less()
    if al is None:
        return None
    small, strict, big = al
    a, b = u(small), u(big)
    size = ('mpi.size()', 'size()')
    if b in size and ((a == '1' and not strict) or (a == '0' and strict)):
        return True          # 1 <= size(), 0 < size()
    if a in size and ((b == '1' and strict) or (b == '0' and not strict)):
        return False         # size() < 1, size() <= 0
    return None


def _guard_of_use(mod, name_node, stmt):
    """(test, polarity) of the innermost conditional-expression arm the use sits in."""
    child, p = name_node, mod.parent.get(name_node)
    while p is not None and p is not stmt:
        if isinstance(p, ast.IfExp) and child is not p.test:
            if _rank_stable(p.test):
                return (p.test, child is p.body)
            return None
        child, p = p, mod.parent.get(p)
    return None


def _defined_under(mod, d, guard, fn):
    test, pol = guard
    child, p = d, mod.parent.get(d)
    while p is not None and p is not fn:
        if isinstance(p, ast.If) and u(p.test) == u(test):
            in_body = any(child is x for x in p.body)
            if in_body == pol:
                return True
        child, p = p, mod.parent.get(p)
    return False


def _dominated_by_def(fi, d, defs):
    return False


def param_on_every_result_path(ck, rule, mod, qual, param, data_marks=('get_node', 'np.load', 'load'), why=''):
    """Every `return <value>` of `qual` whose value is computed from loaded
    data must also be computed from `param` (backward slice through def-use
    chains): a branch that returns data without the parameter ever reaching
    it ignores the caller's request on that path."""
    fn = mod.functions.get(qual)
    if fn is None:
        ck.missing(rule, 'function %s in %s' % (qual, mod.rel))
        return 0
    if param not in params(fn):
        ck.missing(rule, 'parameter %s of %s' % (param, qual))
        return 0
    fi = finfo(mod, fn)
    ck.analysed(mod, fn)
    n = 0
    for r in returns_of(fn):
        if r.value is None or (isinstance(r.value, ast.Constant)):
            continue
        ps, calls = fi.derives_from(r.value)
        carries_data = any(any(c.endswith(m) for m in data_marks) for c in calls) or isinstance(r.value, ast.Subscript)
        if not carries_data:
            continue
        n += 1
        ck.check(param in ps, rule, mod, r, qual, u(r)[:160],
                 'the returned data depend on `%s`' % param,
                 '`%s` never reaches the value returned here: on this path the data come back as if %s had its default%s'
                 % (param, param, (' (' + why + ')') if why else ''))
    return n


_NONNEG_CALLS = ('len', 'np.count_nonzero', 'np.size')


def _nonnegative_by_construction(fi, e, depth=4):
    e = fi.resolve(e) if isinstance(e, ast.Name) else e
    if isinstance(e, ast.Call):
        cn = call_name(e) or ''
        if cn in _NONNEG_CALLS:
            return True
        if isinstance(e.func, ast.Attribute) and e.func.attr in ('count', '__len__'):
            return True
    if isinstance(e, ast.Subscript) and isinstance(e.value, ast.Attribute) and e.value.attr == 'shape':
        return True
    if isinstance(e, ast.Attribute) and e.attr in ('size', 'nbytes'):
        return True
    if isinstance(e, ast.Constant) and isinstance(e.value, (int, float)) and e.value >= 0:
        return True
    return False


def reduction_asserts(ck, rule, mod, quals):
    """assert <reduced> >= <local term> after `<reduced> = comm.allreduce(<local term>, op=SUM)`."""
    n = 0
    for q in quals:
        fn = mod.functions.get(q)
        if fn is None:
            continue
        fi = finfo(mod, fn)
        red = {}
        for s in walk_local(fn):
            if isinstance(s, ast.Assign) and isinstance(s.value, ast.Call) and (call_name(s.value) or '').endswith('allreduce') \
                    and len(s.targets) == 1 and isinstance(s.targets[0], ast.Name) and s.value.args:
                op = kwarg(s.value, 'op') or (s.value.args[1] if len(s.value.args) > 1 else None)
                if op is None or u(op).endswith('SUM'):
                    red[s.targets[0].id] = s.value.args[0]
        if not red:
            continue
        ck.analysed(mod, fn)
        for s in walk_local(fn):
            if not isinstance(s, ast.Assert):
                continue
            for c in conjuncts(s.test, True) or []:
                if not isinstance(c, Cmp) or c.op not in (ast.Lt, ast.LtE, ast.Gt, ast.GtE):
                    continue
                for g, other in ((c.lhs, c.rhs), (c.rhs, c.lhs)):
                    if isinstance(g, ast.Name) and g.id in red:
                        term = red[g.id]
                        same = u(other) == u(term)
                        if not same:
                            continue
                        n += 1
                        ck.check(_nonnegative_by_construction(fi, term), rule, mod, s, q, u(s),
                                 'the reduced terms are non-negative by construction, so the ordering is an invariant',
                                 'this assertion orders a SUM over all ranks against the local term `%s`; that holds only for '
                                 'non-negative terms, and `%s` is arbitrary data: for data with a negative sum the '
                                 'assertion fails on a correct result' % (u(term), u(term)))
    return n


# ---------------------------------------------------------------------------
# definite assignment of instance attributes in a constructor (finding G5)

def _bool_atoms(test, out):
    if isinstance(test, ast.BoolOp):
        for v in test.values:
            _bool_atoms(v, out)
    elif isinstance(test, ast.UnaryOp) and isinstance(test.op, ast.Not):
        _bool_atoms(test.operand, out)
    else:
        k = u(test)
        if k not in out:
            out.append(k)


def _bool_eval(test, env):
    """Three-valued evaluation (True / False / None) of a test under an assignment of its atoms."""
    if isinstance(test, ast.BoolOp):
        vals = [_bool_eval(v, env) for v in test.values]
        if isinstance(test.op, ast.And):
            if any(v is False for v in vals):
                return False
            return True if all(v is True for v in vals) else None
        if any(v is True for v in vals):
            return True
        return False if all(v is False for v in vals) else None
    if isinstance(test, ast.UnaryOp) and isinstance(test.op, ast.Not):
        v = _bool_eval(test.operand, env)
        return None if v is None else (not v)
    return env.get(u(test))


def attrs_definite_in_constructor(ck, rule, mod, qual, max_atoms=10):
    """For every truth assignment of the branch conditions of the constructor
    (atoms = the syntactic conditions, treated as independent), every read of
    `self.<attr>` must be preceded by a store to it on the path that
    assignment selects.  A read without a store is an AttributeError for
    inputs satisfying that assignment (with __slots__ there is no class-level
    default).  Loop bodies and try blocks are 'maybe executed': their stores do
    not count, their reads are checked.  Reports each (read site, attribute)
    once, with the selecting assignment as witness."""
    import itertools
    fn = mod.functions.get(qual)
    if fn is None:
        ck.missing(rule, 'function %s in %s' % (qual, mod.rel))
        return 0
    ck.analysed(mod, fn)
    selfname = params(fn)[0] if params(fn) else 'self'
    atoms = []
    for s in walk_local(fn):
        if isinstance(s, ast.If):
            _bool_atoms(s.test, atoms)
    if len(atoms) > max_atoms:
        ck.missing(rule, '%s has %d branch conditions: truth-table enumeration not attempted' % (qual, len(atoms)))
        return 0
    findings = {}
    reads_seen = set()

    def reads_of(node):
        for n in ast.walk(node):
            if isinstance(n, ast.Attribute) and isinstance(n.ctx, ast.Load) and isinstance(n.value, ast.Name) and n.value.id == selfname:
                yield n

    def stores_of(stmt):
        out = set()
        tg = stmt.targets if isinstance(stmt, ast.Assign) else ([stmt.target] if isinstance(stmt, (ast.AnnAssign, ast.AugAssign)) else [])
        for t in tg:
            for e in (t.elts if isinstance(t, (ast.Tuple, ast.List)) else [t]):
                if isinstance(e, ast.Attribute) and isinstance(e.value, ast.Name) and e.value.id == selfname:
                    out.add(e.attr)
        return out

    def run(stmts, have, env, definite=True):
        """returns False when the path ends (return/raise)."""
        for s in stmts:
            if isinstance(s, ast.If):
                for r in reads_of(s.test):
                    check(r, s, have, env)
                v = _bool_eval(s.test, env)
                if v is True:
                    if not run(s.body, have, env, definite):
                        return False
                elif v is False:
                    if not run(s.orelse, have, env, definite):
                        return False
                else:
                    h1, h2 = set(have), set(have)
                    a = run(s.body, h1, env, definite)
                    b = run(s.orelse, h2, env, definite)
                    if not a and not b:
                        return False
                    keep = (h1 if a else h2) & (h2 if b else h1)
                    have.clear()
                    have.update(keep)
                continue
            if isinstance(s, ast.Try):
                hb = set(have)
                alive = run(s.body, hb, env, definite)
                outs = [hb] if alive else []
                for h in s.handlers:
                    hh = set(have)          # the handler may be entered before any store of the body completed
                    if run(h.body, hh, env, definite):
                        outs.append(hh)
                if not outs:
                    return False
                keep = set.intersection(*outs)
                if s.orelse and alive:
                    run(s.orelse, keep, env, definite)
                if s.finalbody:
                    run(s.finalbody, keep, env, definite)
                have.clear()
                have.update(keep)
                continue
            if isinstance(s, (ast.For, ast.While, ast.With)):
                for f in ('iter', 'test'):
                    e = getattr(s, f, None)
                    if e is not None:
                        for r in reads_of(e):
                            check(r, s, have, env)
                if isinstance(s, ast.With):
                    if not run(s.body, have, env, definite):
                        return False
                else:
                    run(s.body, set(have), env, False)
                    run(getattr(s, 'orelse', []) or [], set(have), env, False)
                continue
            if isinstance(s, (ast.Return, ast.Raise)):
                for r in reads_of(s):
                    check(r, s, have, env)
                return False
            if isinstance(s, (ast.FunctionDef, ast.ClassDef)):
                continue
            val = getattr(s, 'value', None)
            if val is not None:
                for r in reads_of(val):
                    check(r, s, have, env)
            if isinstance(s, ast.AugAssign):
                for r in reads_of(s.target):
                    pass
            for t in (s.targets if isinstance(s, ast.Assign) else []):
                # reads inside subscripted / attribute-chained targets: self._x[...] = v reads self._x
                for sub in ast.walk(t):
                    if isinstance(sub, (ast.Subscript, ast.Attribute)) and sub is not t:
                        pass
                if isinstance(t, ast.Subscript):
                    for r in reads_of(t.value):
                        check(r, s, have, env)
            if definite:
                have.update(stores_of(s))
        return True

    def check(read, stmt, have, env):
        reads_seen.add(id(read))
        if read.attr in have:
            return
        # methods / properties of the class are not instance slots
        if read.attr in class_members:
            return
        key = (read.attr, getattr(stmt, 'lineno', 0))
        findings.setdefault(key, (read, stmt, []))[2].append(dict(env))

    cls = mod.parent.get(fn)
    class_members = set()
    if isinstance(cls, ast.ClassDef):
        for b in cls.body:
            if isinstance(b, (ast.FunctionDef, ast.AsyncFunctionDef)):
                class_members.add(b.name)
            elif isinstance(b, ast.Assign):
                for t in b.targets:
                    if isinstance(t, ast.Name) and t.id != '__slots__':
                        class_members.add(t.id)
    for values in itertools.product((True, False), repeat=len(atoms)):
        env = dict(zip(atoms, values))
        run(fn.body, set(), env)
    reported_attrs = set()
    for (attr, _ln), (read, stmt, envs) in sorted(findings.items(), key=lambda kv: kv[0][1]):
        # the conditions every failing assignment agrees on
        rel = {a: envs[0][a] for a in atoms if all(e[a] == envs[0][a] for e in envs)}
        wit = ', '.join('%s is %s' % (a, v) for a, v in rel.items())
        if attr in reported_attrs:
            continue
        reported_attrs.add(attr)
        # the construct names the attribute only (stable under renames/temporaries); the
        # statement and the selecting conditions go to the detail
        ck.bad(rule, mod, stmt, qual, 'self.%s is read before any store on some path of the constructor' % attr,
               'e.g. `%s`: no store to self.%s precedes this read on the path selected by {%s}: AttributeError '
               '(with __slots__ there is no default) for inputs satisfying these conditions' % (u(stmt)[:100], attr, wit), wit)
    n = len(reads_seen)
    if not findings:
        ck.ok(rule, mod, fn, '%s: %d attribute reads x %d assignments of %d conditions' % (qual, n, 2 ** len(atoms), len(atoms)),
              'every read of an instance attribute is preceded by a store for every assignment of the branch conditions')
    return n


# ---------------------------------------------------------------------------
# undefined global names (symtable): a name read in a function that is bound
# nowhere - not in the function, not in an enclosing scope, not at module
# level (def/class/assignment/import/for/with/except), not a builtin -
# raises NameError when the statement executes.

def undefined_names(mod):
    """[(name, lineno, function qualname)] for reads of global names that the
    module never binds (python sources only)."""
    import builtins
    import symtable
    if mod.kind != 'py':
        return []
    try:
        top = symtable.symtable(mod.src, mod.rel, 'exec')
    except SyntaxError:
        return []
    module_names = set()
    for s in top.get_symbols():
        if s.is_assigned() or s.is_imported() or s.is_namespace() or s.is_parameter():
            module_names.add(s.get_name())
    # names bound by `global x` assignments inside functions
    def globals_assigned(t):
        for ch in t.get_children():
            for s in ch.get_symbols():
                if s.is_declared_global() and s.is_assigned():
                    module_names.add(s.get_name())
            globals_assigned(ch)
    globals_assigned(top)
    star = any(isinstance(n, ast.ImportFrom) and any(a.name == '*' for a in n.names) for n in ast.walk(mod.tree))
    if star:
        return []           # cannot know what a star import binds
    known = module_names | set(dir(builtins)) | {'__file__', '__name__', '__doc__', '__package__', '__spec__', '__builtins__', '__class__'}
    out = []

    def walk(t, qual):
        for ch in t.get_children():
            q = (qual + '.' if qual else '') + ch.get_name()
            if ch.get_type() in ('function', 'class'):
                for s in ch.get_symbols():
                    if s.is_referenced() and s.is_global() and not s.is_assigned() and s.get_name() not in known:
                        out.append((s.get_name(), ch.get_lineno(), q))
            walk(ch, q)
    walk(top, '')
    # module-level reads
    for s in top.get_symbols():
        if s.is_referenced() and not (s.is_assigned() or s.is_imported() or s.is_namespace()) and s.get_name() not in known:
            out.append((s.get_name(), 0, '<module>'))
    return out


def check_undefined_names(ck, rule, mods):
    n = 0
    for mod in mods:
        und = undefined_names(mod)
        # locate the first read for the report
        for name, fl, qual in und:
            node = None
            fn = mod.functions.get(qual)
            for x in ast.walk(fn if fn is not None else mod.tree):
                if isinstance(x, ast.Name) and x.id == name and isinstance(x.ctx, ast.Load):
                    node = x
                    break
            ck.bad(rule, mod, node if node is not None else fn, qual, 'undefined name `%s`' % name,
                   '`%s` is read in %s but bound nowhere in %s (no import, assignment, def or builtin of that name): '
                   'NameError when this statement is reached' % (name, qual, mod.rel))
        n += 1
        if not und:
            ck.ok(rule, mod, None, mod.rel, 'every global name read in the module is bound in it or is a builtin (symtable)')
    return n


# ---------------------------------------------------------------------------
# comparison with None through == / != on a sequence-valued parameter

def _used_as_sequence(fn, name):
    """The function indexes, slices, measures or sums `name` (so callers pass a list OR an array)."""
    for n in walk_local(fn):
        if isinstance(n, ast.Subscript) and isinstance(n.value, ast.Name) and n.value.id == name:
            return n
        if isinstance(n, ast.Call) and isinstance(n.func, ast.Name) and n.func.id in ('len', 'sum', 'sorted', 'list', 'tuple') \
                and n.args and isinstance(n.args[0], ast.Name) and n.args[0].id == name:
            return n
        if isinstance(n, ast.Call) and (call_name(n) or '').startswith('np.') and any(
                isinstance(a, ast.Name) and a.id == name for a in n.args):
            return n
        if isinstance(n, (ast.For, ast.comprehension)) and isinstance(n.iter, ast.Name) and n.iter.id == name:
            return n
    return None


def none_equality_on_sequences(ck, rule, mod, quals):
    """`x == None` / `x != None` is an ELEMENTWISE comparison when x is an ndarray, and its result has
    no truth value: an argument test written that way raises ValueError for the array form of a
    sequence argument instead of deciding "was it given".  For every such comparison whose operand is
    a parameter: VIOLATION when the parameter is used as a sequence (indexed, sliced, len/sum, iterated)
    in the same function or in a package function it is handed to (one level); discharged otherwise
    (a namespace, a string, a flag)."""
    n_seen = 0
    for q in quals:
        try:
            fn = mod.func(q)
        except Exception:
            ck.missing(rule, 'function %s' % q)
            continue
        ck.analysed(mod, fn)
        ps = set(params(fn))
        for n in walk_local(fn):
            if not (isinstance(n, ast.Compare) and len(n.ops) == 1 and isinstance(n.ops[0], (ast.Eq, ast.NotEq))):
                continue
            l, r = n.left, n.comparators[0]
            other = r if (isinstance(l, ast.Constant) and l.value is None) else (l if isinstance(r, ast.Constant) and r.value is None else None)
            if other is None or not isinstance(other, ast.Name) or other.id not in ps:
                continue
            n_seen += 1
            name = other.id
            site = _used_as_sequence(fn, name)
            where = q
            if site is None:
                # one level: handed on to a function of the same module
                for c in walk_local(fn):
                    if not isinstance(c, ast.Call):
                        continue
                    base = (call_name(c) or '').split('.')[-1]
                    callee = mod.functions.get(base)
                    if callee is None:
                        continue
                    cps = params(callee)
                    bound = None
                    for i, a in enumerate(c.args):
                        if isinstance(a, ast.Name) and a.id == name and i < len(cps):
                            bound = cps[i]
                    for k in c.keywords:
                        if isinstance(k.value, ast.Name) and k.value.id == name and k.arg in cps:
                            bound = k.arg
                    if bound and _used_as_sequence(callee, bound) is not None:
                        site = _used_as_sequence(callee, bound)
                        where = base
                        break
            if site is not None:
                ck.bad(rule, mod, n, q, 'argument test `%s` on the sequence parameter %s' % (u(n), name),
                       '`%s` compares elementwise when %s is an ndarray (it is used as a sequence: `%s` in %s): the test '
                       'raises "truth value of an array is ambiguous" instead of deciding whether the argument was given; '
                       'use `is None` / `is not None`' % (u(n), name, u(site)[:60], where))
            else:
                ck.ok(rule, mod, n, u(n), '%s is not used as a sequence (namespace / flag / string)' % name)
    return n_seen


# ---------------------------------------------------------------------------
# k distinct random picks out of n

_WITH_REPLACEMENT = ('integers', 'randint', 'random_integers', 'choice', 'randrange')


def distinct_random_picks(ck, rule, mod, qual, why=''):
    """Where a function draws k DISTINCT random indices out of n, the draw has to be without replacement
    (`choice(n, k, replace=False)`, `permutation(n)[:k]`, `sample(range(n), k)`).  Drawing k values WITH
    replacement inside a loop that repeats until they happen to be pairwise distinct succeeds with
    probability ~exp(-k^2 / 2n) per trip: for k of the order of n/5 the call never returns.  Decided on
    the loop: a `while` whose test counts the distinct elements of V (np.unique / set) and whose body
    rebinds V from a with-replacement draw."""
    try:
        fn = mod.func(qual)
    except Exception:
        ck.missing(rule, 'function %s' % qual)
        return 0
    ck.analysed(mod, fn)
    found = 0

    def draw_kind(e):
        for c in ast.walk(e):
            if isinstance(c, ast.Call) and isinstance(c.func, ast.Attribute):
                a = c.func.attr
                if a in ('permutation', 'sample', 'shuffle'):
                    return 'without', c
                if a == 'choice':
                    rp = kwarg(c, 'replace')
                    if rp is None and len(c.args) >= 3:
                        rp = c.args[2]
                    if isinstance(rp, ast.Constant) and rp.value is False:
                        return 'without', c
                    return 'with', c
                if a in _WITH_REPLACEMENT:
                    return 'with', c
        return None, None
    for w in walk_local(fn):
        if not isinstance(w, ast.While):
            continue
        counted = set()
        for c in ast.walk(w.test):
            if isinstance(c, ast.Call) and (call_name(c) in ('np.unique', 'set', 'numpy.unique')) and c.args and isinstance(c.args[0], ast.Name):
                counted.add(c.args[0].id)
        for s in w.body:
            if isinstance(s, ast.Assign) and len(s.targets) == 1 and isinstance(s.targets[0], ast.Name) and s.targets[0].id in counted:
                kind, call = draw_kind(s.value)
                if kind == 'with':
                    found += 1
                    ck.bad(rule, mod, w, qual, 'rejection loop around a with-replacement draw of `%s`' % s.targets[0].id,
                           'the loop `while %s` redraws all of `%s` with `%s` until the values are pairwise distinct; a trip '
                           'succeeds with probability about exp(-k^2/2n), so the call does not return for ordinary k (k = n/5): '
                           'draw without replacement. %s' % (u(w.test)[:80], s.targets[0].id, u(call)[:80], why))
    for s in walk_local(fn):
        if isinstance(s, ast.Assign):
            kind, call = draw_kind(s.value)
            if kind == 'without':
                found += 1
                ck.ok(rule, mod, s, u(s)[:120], 'distinct picks drawn without replacement')
    return found

"""Rules shared by the MSM properties (C04, C11, C12, C16)."""
import ast

from ..core import (AnalysisIncomplete, call_name, const_value, kwarg,
                    names_loaded, params, target_names, u, walk_expr,
                    walk_local)
from ..patterns import (Cmp, assigns_to, calls_in, conjuncts, finfo,
                        returns_of, subscript_stores)

TM = 'enspara/msm/transition_matrices.py'
BU = 'enspara/msm/builders.py'
MS = 'enspara/msm/msm.py'
LM = 'enspara/msm/libmsm.pyx'
TS = 'enspara/msm/timescales.py'
SD = 'enspara/msm/synthetic_data.py'


def check_spectrum(ck, prefix):
    """eigenspectrum / eq_probs: ordering, column permutation, normalisation."""
    rule = prefix + '.spectrum'
    mod = ck.repo.mod(TM)
    fn = mod.func('eigenspectrum')
    ck.analysed(mod, fn)
    fi = finfo(mod, fn)
    T = params(fn)[0]
    # left eigenvectors: T = T.T if left else T
    tdefs = [s for s in assigns_to(fn, T) if isinstance(s, ast.Assign)]
    ok = any(isinstance(s.value, ast.IfExp) and u(s.value.test) == 'left' and u(s.value.body) == '%s.T' % T
             and u(s.value.orelse) == T for s in tdefs) or \
        any(isinstance(s.value, ast.IfExp) and u(s.value.test) == 'not left' and u(s.value.orelse) == '%s.T' % T
            and u(s.value.body) == T for s in tdefs)
    ck.check(ok, rule + '.left', mod, tdefs[0] if tdefs else fn, 'eigenspectrum',
             '; '.join(u(s) for s in tdefs)[:160], 'left eigenvectors = right eigenvectors of the transpose',
             'left=True must decompose T.T (and left=False T itself)')
    # order = argsort by descending real part
    od = [s for s in walk_local(fn) if isinstance(s, ast.Assign) and isinstance(s.value, (ast.Call, ast.Subscript))
          and 'argsort' in u(s.value)]
    if len(od) != 1:
        ck.missing(rule + '.order', 'argsort of the eigenvalues (found %d)' % len(od))
        return
    o = od[0]
    oname = u(o.targets[0])
    txt = u(o.value)
    ok = txt in ('np.argsort(-np.real(vals))', 'np.argsort(-vals.real)', 'np.argsort(np.real(vals))[::-1]',
                 'np.argsort(vals.real)[::-1]', 'np.argsort(-1 * np.real(vals))', '(-np.real(vals)).argsort()',
                 'np.real(vals).argsort()[::-1]')
    ck.check(ok, rule + '.order', mod, o, 'eigenspectrum', u(o),
             'eigenpairs sorted by descending real part',
             'eigenvalues must be ordered by DESCENDING REAL PART (np.argsort(-np.real(vals))): sorting '
             'by magnitude/ascending puts -1 (periodic chains) or the smallest eigenvalue first, so '
             'column 0 is no longer the stationary vector')
    # same permutation applied to values and to eigenvector COLUMNS
    vperm = [s for s in assigns_to(fn, 'vals') if isinstance(s, ast.Assign) and isinstance(s.value, ast.Subscript)
             and u(s.value.slice) == oname]
    cperm = [s for s in assigns_to(fn, 'vecs') if isinstance(s, ast.Assign) and isinstance(s.value, ast.Subscript)
             and isinstance(s.value.slice, ast.Tuple)]
    okv = len(vperm) == 1 and u(vperm[0].value) == 'vals[%s]' % oname
    okc = len([s for s in cperm if u(s.value) == 'vecs[:, %s]' % oname]) == 1
    ck.check(okv and okc, rule + '.permute', mod, vperm[0] if vperm else o, 'eigenspectrum',
             '%s ; %s' % (u(vperm[0]) if vperm else '?', '; '.join(u(s) for s in cperm)),
             'one permutation reorders eigenvalues and eigenvector columns together',
             'the permutation `%s` must be applied to vals AND to the COLUMNS of vecs (vecs[:, %s]); '
             'permuting rows or only one of them pairs eigenvalues with the wrong vectors' % (oname, oname))
    if okv and okc:
        same = all(fi.defs_of_use(x) == {o} for s in (vperm[0], [c for c in cperm if u(c.value) == 'vecs[:, %s]' % oname][0])
                   for x in ast.walk(s.value) if isinstance(x, ast.Name) and x.id == oname)
        ck.check(same, rule + '.permute', mod, o, 'eigenspectrum', 'uses of %s' % oname,
                 'both uses see the same permutation', 'vals and vecs are permuted with different definitions of the order')
    # normalise column 0 by its own sum, after the permutation
    norm = [s for s in walk_local(fn) if isinstance(s, ast.AugAssign) and isinstance(s.op, ast.Div)
            and u(s.target) == 'vecs[:, 0]']
    ok = len(norm) == 1 and u(norm[0].value) in ('vecs[:, 0].sum()', 'np.sum(vecs[:, 0])')
    if ok and okc:
        cp = [c for c in cperm if u(c.value) == 'vecs[:, %s]' % oname][0]
        ok = fi.cfg.dominates(cp, norm[0])
    ck.check(ok, rule + '.normalise', mod, norm[0] if norm else fn, 'eigenspectrum', u(norm[0]) if norm else 'vecs[:, 0] /= ...',
             'leading eigenvector normalised to sum one after sorting',
             'column 0 must be divided by its own sum AFTER the columns were sorted')
    # real parts, truncation to n_eigs
    r = returns_of(fn)
    ok = len(r) == 1 and u(r[0].value) == '(vals, vecs)'
    fin_v = [s for s in assigns_to(fn, 'vals') if isinstance(s, ast.Assign) and u(s.value) == 'np.real(vals[:n_eigs])']
    fin_c = [s for s in assigns_to(fn, 'vecs') if isinstance(s, ast.Assign) and u(s.value) == 'np.real(vecs[:, :n_eigs])']
    ck.check(ok and len(fin_v) == 1 and len(fin_c) == 1, rule + '.truncate', mod, r[0] if r else fn, 'eigenspectrum',
             '%s ; %s' % (u(fin_v[0]) if fin_v else '?', u(fin_c[0]) if fin_c else '?'),
             'first n_eigs real eigenvalues and the matching first n_eigs columns',
             'must return (real(vals[:n_eigs]), real(vecs[:, :n_eigs]))')
    # sparse solver asks for the largest REAL part
    eg = [c for c in calls_in(fn) if (call_name(c) or '').endswith('linalg.eigs')]
    for c in eg:
        w = kwarg(c, 'which')
        ck.check(w is not None and const_value(w) == 'LR', rule + '.which', mod, c, 'eigenspectrum', u(c),
                 "ARPACK asked for the eigenvalues of largest real part (which='LR')",
                 "the truncated sparse spectrum must request which='LR' (largest real part), consistent "
                 "with the descending-real-part order; 'LM' returns a negative eigenvalue of larger "
                 'magnitude instead of a slow positive one')
        ok = len(c.args) >= 2 and u(c.args[1]) == 'n_eigs'
        ck.check(ok, rule + '.which', mod, c, 'eigenspectrum', u(c), 'k = n_eigs', 'eigs must be asked for n_eigs eigenvalues')
    ck.floor(rule + '.which', len(eg), 1, 'sparse eigensolver call')
    dense = [c for c in calls_in(fn) if (call_name(c) or '').endswith('linalg.eig')]
    ck.check(len(dense) == 1 and u(dense[0].args[0]) == T, rule + '.dense', mod, dense[0] if dense else fn, 'eigenspectrum',
             u(dense[0]) if dense else 'eig', 'dense solver on the (transposed) matrix', 'dense branch must call scipy.linalg.eig(T)')
    # eq_probs
    fe = mod.func('eq_probs')
    ck.analysed(mod, fe)
    es = [c for c in calls_in(fe) if call_name(c) == 'eigenspectrum']
    ok = len(es) == 1 and u(es[0].args[0]) == params(fe)[0] and (
        kwarg(es[0], 'left') is None or const_value(kwarg(es[0], 'left')) is True)
    d = mod.func('eigenspectrum')
    from ..core import param_default
    dl = param_default(d, 'left')
    if ok and kwarg(es[0], 'left') is None:
        ok = const_value(dl) is True
    ck.check(ok, rule + '.eq-probs', mod, es[0] if es else fe, 'eq_probs', u(es[0]) if es else 'eigenspectrum',
             'stationary vector from the LEFT eigenvectors', 'eq_probs must request left eigenvectors of T')
    r = returns_of(fe)
    st = finfo(mod, fe).stmt(es[0]) if es else None
    vecname = u(st.targets[0].elts[1]) if st is not None and isinstance(st, ast.Assign) and isinstance(st.targets[0], ast.Tuple) else None
    ck.check(len(r) == 1 and vecname and u(r[0].value) == '%s[:, 0]' % vecname, rule + '.eq-probs', mod, r[0] if r else fe,
             'eq_probs', u(r[0]) if r else 'return', 'returns the leading (column 0) eigenvector',
             'eq_probs must return column 0 of the eigenvector matrix')

"""Rules shared by the MSM properties (C04, C11, C12, C16)."""
import ast
import copy

from ..core import (base_name, call_name, const_value, kwarg, params,
                    target_names, u, walk_local)
from ..patterns import Cmp, conjuncts

TM = 'enspara/msm/transition_matrices.py'
BU = 'enspara/msm/builders.py'
MS = 'enspara/msm/msm.py'
LM = 'enspara/msm/libmsm.pyx'
TS = 'enspara/msm/timescales.py'
SD = 'enspara/msm/synthetic_data.py'



# ---------------------------------------------------------------------------
# Symbolic path execution of small loop-free functions.
#
# The builders, eigenspectrum and eq_probs are straight-line code with a few
# branches.  Instead of looking for "the statement that assigns `weights`",
# the rules below execute the function symbolically: every local is replaced
# by the expression (over the PARAMETERS) it holds, one result per feasible
# path, together with the branch conditions of that path.  Temporaries,
# statement order, early returns vs if/else, inverted branches, `x if c else
# y` vs an if statement, tuple unpacking and renamed locals all disappear.
#
# pseudo operations appearing in symbolic values
#   _store(x[i], v)      value of x after  x[i] = v   (x[i] op= w  gives v = x[i] op w)
#   _setattr(x.a, v)     value of x after  x.a = v
#   _mut(x, <call>)      value of x after a mutating method call
#   _recast(a, b)        type(a)(b)
#   f(...)[k]            k-th element of an unpacked call result

class Unrecognised(Exception):
    """The function uses a construct the symbolic executor does not model
    (loop, with, multi-statement try body, opaque call statement ...)."""


_PSEUDO = ('_store', '_setattr', '_mut', '_recast')
# package functions the MSM rules may see through as pure functions of their
# arguments (their own effects are decided by the *.inputs-unmodified rules)
KNOWN_PURE = {'eq_probs', '_row_normalize', '_apply_prior_counts', 'eigenspectrum', '_prinz_mle_py', '_prinz_mle',
              '_mle_prinz_dense'}
_LOGGERS = {'logger', 'logging', 'log'}


def _sigs(ck):
    try:
        return ck.repo._ref_signatures()
    except Exception:
        return {}


class _Recast(ast.NodeTransformer):
    def visit_Call(self, node):
        self.generic_visit(node)
        f = node.func
        if isinstance(f, ast.Call) and isinstance(f.func, ast.Name) and f.func.id == 'type' and len(f.args) == 1 \
                and not f.keywords and len(node.args) == 1 and not node.keywords:
            return ast.copy_location(ast.Call(func=ast.Name(id='_recast', ctx=ast.Load()),
                                              args=[f.args[0], node.args[0]], keywords=[]), node)
        if isinstance(f, ast.Attribute) and f.attr == '__class__' and len(node.args) == 1 and not node.keywords:
            return ast.copy_location(ast.Call(func=ast.Name(id='_recast', ctx=ast.Load()),
                                              args=[f.value, node.args[0]], keywords=[]), node)
        # np.array(object=name) -> name.copy()   (canon does this before the
        # keyword normalisation; abbreviation introduces new names afterwards)
        if call_name(node) in ('np.array', 'numpy.array') and not node.args and len(node.keywords) == 1 and \
                node.keywords[0].arg == 'object' and isinstance(node.keywords[0].value, ast.Name):
            new = ast.Call(func=ast.Attribute(value=node.keywords[0].value, attr='copy', ctx=ast.Load()), args=[], keywords=[])
            new._from_np_array = True            # (same tag as match._Canon: np.array(x) also converts np.matrix / list)
            return ast.copy_location(new, node)
        return node


def norm(node, sigs=None):
    """Canonical spelling of a symbolic value / a pattern (front-end canon +
    the normal-form idiom table + type(a)(b) -> _recast(a, b))."""
    from ..match import _Canon
    from ..normal import _Extra
    n = _Canon().visit(copy.deepcopy(node))      # (match.canon would invent line 1 for synthetic nodes)
    n = _Extra(sigs or {}).visit(n)
    n = _Recast().visit(n)
    return n


_pat_cache = {}


def pat(text, sigs=None):
    """Pattern text -> normalised pattern tree (metavariables `_X`)."""
    key = (text, id(sigs))
    if key not in _pat_cache:
        t = ast.parse(text).body[0]
        if isinstance(t, ast.Expr):
            t = t.value
        _pat_cache[key] = norm(t, sigs)
    return _pat_cache[key]


def smatch(pats, node, sigs=None, binds=None):
    """Bindings of the first pattern (text) matching the normalised node."""
    from ..match import match
    for p in ([pats] if isinstance(pats, str) else pats):
        b = match(pat(p, sigs), node, binds, canonical=False)
        if b is not None:
            return b
    return None


def closed_over(node, scope):
    """`node` is a pure numpy/scipy/builtin function of the names in scope
    (pseudo operations are transparent)."""
    from ..match import _closed_over

    class T(ast.NodeTransformer):
        def visit_Call(self, n):
            self.generic_visit(n)
            if isinstance(n.func, ast.Name) and (n.func.id in _PSEUDO or n.func.id in KNOWN_PURE):
                return ast.Tuple(elts=list(n.args) + [k.value for k in n.keywords], ctx=ast.Load())
            return n
    try:
        return _closed_over(T().visit(copy.deepcopy(node)), set(scope) | {'scipy', 'type', 'sp'})
    except Exception:
        return False


def sclassify(node, pats, scope, sigs=None, binds=None):
    """Three-valued recognition (see match.classify) of a normalised symbolic
    value: ('match', b) / ('near', d, pattern) - a different pure function of
    the operands in `scope` - / ('far', d, pattern)."""
    from ..match import distance
    best = None
    for p in pats:
        b = dict(binds or {})
        d = distance(pat(p, sigs), node, b)
        if d == 0:
            return ('match', b)
        if best is None or d < best[0]:
            best = (d, p)
    if best is None:
        return ('far', 10 ** 6, None)
    return ('near' if closed_over(node, scope) else 'far', best[0], best[1])


def abbreviate(node, table, sigs=None):
    """Replace every subtree whose text equals a key of `table` (text ->
    symbol name) by that symbol, outermost first, and re-normalise."""
    class A(ast.NodeTransformer):
        def generic_visit(self, n):
            if isinstance(n, ast.expr) and not isinstance(n, (ast.Slice, ast.Starred)):
                t = table.get(u(n))
                if t is not None:
                    return ast.copy_location(ast.Name(id=t, ctx=ast.Load()), n)
            return super().generic_visit(n)
    return norm(A().visit(copy.deepcopy(node)), sigs)


def subtrees(node, pred):
    return [n for n in ast.walk(node) if pred(n)]


def line_of(node, default=None):
    for n in ast.walk(node):
        if getattr(n, 'lineno', None):
            return n
    return default


def src_stmt(fn, node):
    """Innermost simple statement of fn covering the line of `node`."""
    ln = getattr(line_of(node), 'lineno', None) if node is not None else None
    if ln is None:
        return None
    best = None
    for s in walk_local(fn):
        if isinstance(s, ast.stmt) and getattr(s, 'lineno', None) is not None and \
                s.lineno <= ln <= getattr(s, 'end_lineno', s.lineno):
            if best is None or (getattr(s, 'end_lineno', s.lineno) - s.lineno) <= (getattr(best, 'end_lineno', best.lineno) - best.lineno):
                best = s
    return best


def _atom_key(c):
    from ..patterns import canon_atom
    key, pol = canon_atom(c)
    if key[1] == 'is not':
        return (key[0], 'is', key[2]), not pol
    if key[1] == 'not in':
        return (key[0], 'in', key[2]), not pol
    return key, pol


_OPS = {'<': ast.Lt, '<=': ast.LtE, '==': ast.Eq, 'is': ast.Is, 'in': ast.In, '!=': ast.NotEq}


def _expr(text):
    e = ast.parse(text, mode='eval').body
    for n in ast.walk(e):          # parsed from text: no source position
        for a in ('lineno', 'col_offset', 'end_lineno', 'end_col_offset'):
            if hasattr(n, a):
                delattr(n, a)
    return e


def _expr_key(node):
    """Key of a non-comparison condition.  issparse(x) and isspmatrix(x) are ONE
    predicate here: they agree on every container the MSM properties quantify
    over (ndarray and the scipy sparse matrix classes), so a function testing
    both does not get paths on which they disagree."""
    if isinstance(node, ast.Call) and (call_name(node) or '').split('.')[-1] in ('issparse', 'isspmatrix') and \
            len(node.args) == 1 and not node.keywords:
        return ('expr', 'issparse(%s)' % u(node.args[0]))
    return ('expr', u(node))


def cond_atoms(test, polarity):
    """[(key, polarity, atom)] of a (normalised) branch condition: `atom` is
    an expression that evaluates to `polarity` on the path."""
    cj = conjuncts(test, polarity)
    if cj is None:
        return [(_expr_key(test), polarity, test)]
    out = []
    for c in cj:
        if isinstance(c, Cmp):
            k, p = _atom_key(c)
            if k[1] in _OPS:
                try:
                    node = ast.Compare(left=_expr(k[0]), ops=[_OPS[k[1]]()], comparators=[_expr(k[2])])
                    if hasattr(test, 'lineno'):
                        ast.copy_location(node, test)
                except SyntaxError:
                    node = test
            else:
                node = test
            out.append((k, p, node))
        else:
            out.append((_expr_key(c[1]), c[2], c[1]))
    return out


class SymPath:
    """One feasible path: kind 'return' / 'raise', the symbolic value, the
    branch conditions {key: (polarity, atom)}, the final environment."""

    def __init__(self, kind, value, conds, env, stmt):
        self.kind, self.value, self.conds, self.env, self.stmt = kind, value, conds, env, stmt

    def cond(self, key):
        v = self.conds.get(key)
        return None if v is None else v[0]

    def pol(self, pats, sigs=None):
        """Polarity of the path condition matching one of the patterns
        (None: the path does not test it)."""
        for pt in ([pats] if isinstance(pats, str) else pats):
            atoms = cond_atoms(pat(pt, sigs), True)
            if len(atoms) != 1:
                continue
            _, ppol, pnode = atoms[0]
            from ..match import match
            for k, (pol, node) in self.conds.items():
                if k[0] != 'raises' and match(pnode, node, None, canonical=False) is not None:
                    return pol if ppol else not pol
        return None

    def abbrev(self, table, sigs=None):
        """The path with sub-expressions replaced by symbols (value and
        conditions)."""
        conds = {}
        for k, (pol, node) in self.conds.items():
            if k[0] == 'raises':
                conds[k] = (pol, node)
                continue
            n2 = abbreviate(node, table, sigs)
            for k2, p2, a2 in cond_atoms(n2, pol):
                conds[k2] = (p2, a2)
        return SymPath(self.kind, abbreviate(self.value, table, sigs), conds, self.env, self.stmt)

    def exprs(self):
        return [self.value] + [n for k, (p, n) in self.conds.items() if k[0] != 'raises']

    def __repr__(self):
        return '%s %s if %s' % (self.kind, u(self.value), ['%s=%s' % (k, v[0]) for k, v in self.conds.items()])


class _State:
    """env: local -> symbolic value; conds: branch conditions; alias: local ->
    group of locals that may denote the same object (`a = b`, views `a =
    b.T`, `a = b[i]`); stale: locals whose symbolic value is out of date
    because an alias was updated in place (reading one is not modelled)."""

    def __init__(self, env, conds, alias=None, stale=None, views=None):
        self.env, self.conds = env, conds
        self.alias = alias if alias is not None else {}
        self.stale = stale if stale is not None else set()
        # local -> (root local, symbolic index): `v = root[<basic slicing>]`, an
        # ndarray VIEW of the object `root` is bound to (see SymExec._view_update)
        self.views = views if views is not None else {}

    def fork(self):
        return _State(dict(self.env), dict(self.conds), dict(self.alias), set(self.stale), dict(self.views))

    def group(self, name):
        return self.alias.get(name, frozenset([name]))

    def rebind(self, name, root=None):
        if root == name:
            return                      # x = x.T / x = x[i] / x op= v: still (a view of) the same object
        for k in [k for k, (r, _) in self.views.items() if k == name or r == name]:
            del self.views[k]           # the name now denotes another object
        others = self.group(name) - {name}
        for m in others:
            self.alias[m] = others
        self.stale.discard(name)
        g = (self.group(root) | {name}) if root is not None else frozenset([name])
        for m in g:
            self.alias[m] = g
        if root is not None and root in self.stale:
            self.stale.add(name)

    def mutated(self, name):
        self.stale |= set(self.group(name)) - {name}

    def fingerprint(self):
        return (tuple(sorted((k, ast.dump(v)) for k, v in self.env.items())),
                tuple(sorted((k, r, ast.dump(i)) for k, (r, i) in self.views.items())))


def _basic_view_index(sl):
    """`x[sl]` is basic multi-dimensional slicing (a tuple of slices, integer
    constants, None, ...; at least one slice): for an ndarray / np.matrix the
    result is a VIEW of x, never a scalar and never a copy.  (A one-dimensional
    `x[a:b]` is not accepted: x could be a list, whose slices are copies.)"""
    if not isinstance(sl, ast.Tuple):
        return False

    def const(e):
        if isinstance(e, ast.UnaryOp) and isinstance(e.op, ast.USub):
            e = e.operand
        return isinstance(e, ast.Constant) and (e.value is None or e.value is Ellipsis or
                                                (isinstance(e.value, int) and not isinstance(e.value, bool)))
    return all(isinstance(e, ast.Slice) or const(e) for e in sl.elts) and any(isinstance(e, ast.Slice) for e in sl.elts)


def _view_root(e):
    """Local the value of `e` may share storage with (bare name, attribute /
    subscript / .T chains)."""
    while isinstance(e, (ast.Attribute, ast.Subscript)):
        e = e.value
    return e.id if isinstance(e, ast.Name) else None


class _Sub(ast.NodeTransformer):
    def __init__(self, env, bound, stale=()):
        self.env, self.bound, self.stale = env, bound, stale

    def visit_Name(self, n):
        if isinstance(n.ctx, ast.Load) and n.id in self.stale and n.id not in self.bound:
            raise Unrecognised('`%s` is read after an alias of it was updated in place' % n.id)
        if isinstance(n.ctx, ast.Load) and n.id in self.env and n.id not in self.bound:
            v = copy.deepcopy(self.env[n.id])
            if not hasattr(v, 'lineno') and hasattr(n, 'lineno'):
                ast.copy_location(v, n)          # a parameter: cite the use site
            return v
        return n

    def visit_Lambda(self, n):
        return n


class SymExec:
    """helpers: {name: FunctionDef} of module-level private functions the
    executor may SEE THROUGH (see summarisable_helpers): a call `h(args)` in
    an evaluated expression is replaced, path by path, by the symbolic value
    of each return path of `h` with the parameters bound to the arguments
    (the branch conditions of that path join those of the caller; a raise
    path of the helper ends the caller's path).  This is the path-wise
    counterpart of sa/inline.py for helpers whose `return`s are not in tail
    position (inside try/except): "extract a private helper" is undone in the
    symbolic value instead of in the source."""

    def __init__(self, fn, sigs=None, limit=400, helpers=None, depth=0):
        self.fn, self.sigs, self.limit = fn, sigs or {}, limit
        self.helpers = dict(helpers or {})
        self.helpers.pop(getattr(fn, 'name', None), None)        # (no recursion)
        self.depth = depth
        self.seen_through = set()
        self._opaque = set()
        self._summaries = {}
        self.paths = []
        env = {p: ast.Name(id=p, ctx=ast.Load()) for p in params(fn)}
        outs = self.block(fn.body, [_State(env, {})])
        for st in outs:
            self.finish('return', ast.Constant(value=None), st, fn)

    # -- expressions
    def subst(self, e, st):
        bound = set()
        for x in ast.walk(e):
            if isinstance(x, ast.comprehension):
                bound.update(target_names(x.target))
            if isinstance(x, ast.NamedExpr):
                raise Unrecognised('assignment expression')
        return _Sub(st.env, bound, st.stale).visit(copy.deepcopy(e))

    def assume(self, st, test, polarity):
        """State with the condition added, or None if it contradicts the path."""
        t = norm(test, self.sigs)
        if isinstance(t, ast.Constant):
            return st if bool(t.value) == polarity else None
        new = st.fork()
        for k, p, node in cond_atoms(t, polarity):
            old = new.conds.get(k)
            if old is not None and old[0] != p:
                return None
            new.conds[k] = (p, node)
        return new

    def values(self, e, st):
        """[(symbolic value, state)]: conditional expressions fork the path."""
        v = self.subst(e, st)
        if not self.helpers:
            return self._split(v, st)
        out = []
        for v1, s1 in self._split(v, st):
            out += self._through_helpers(v1, s1)
        return out

    # -- private helpers seen through (path summaries)
    def _helper_call(self, v):
        """First call of a summarisable helper in `v` that is evaluated
        unconditionally (not under a lambda / comprehension / short-circuit)."""
        stack = [v]
        while stack:
            n = stack.pop(0)
            if isinstance(n, (ast.Lambda, ast.ListComp, ast.SetComp, ast.DictComp, ast.GeneratorExp, ast.BoolOp, ast.IfExp)):
                continue
            if isinstance(n, ast.Call) and isinstance(n.func, ast.Name) and n.func.id in self.helpers and \
                    n.func.id not in self._opaque:
                return n
            stack = list(ast.iter_child_nodes(n)) + stack
        return None

    def _summary(self, name):
        """Return/raise paths of helper `name` over its own parameters, or None
        if it cannot be summarised as a function of its arguments."""
        if name in self._summaries:
            return self._summaries[name]
        h = self.helpers[name]
        res = None
        try:
            if self.depth >= 3:
                raise Unrecognised('helper nesting too deep')
            ps = params(h)
            a = h.args
            if a.vararg or a.kwarg or h.decorator_list or isinstance(h, ast.AsyncFunctionDef):
                raise Unrecognised('helper signature')
            for x in ast.walk(h):
                if isinstance(x, (ast.Yield, ast.YieldFrom, ast.Await, ast.Global, ast.Nonlocal)):
                    raise Unrecognised('generator / global state')
                if isinstance(x, ast.AugAssign) and isinstance(x.target, ast.Name) and x.target.id in ps:
                    raise Unrecognised('in-place update of a parameter')
            sub = SymExec(h, self.sigs, self.limit, self.helpers, self.depth + 1)
            for hp in sub.paths:
                for q in ps:
                    val = hp.env.get(q)
                    # the caller's objects are untouched: no store / mutating call reached (an alias of) a parameter
                    if val is None or q in getattr(hp, 'stale', ()) or any(
                            isinstance(c, ast.Call) and isinstance(c.func, ast.Name) and c.func.id in ('_store', '_setattr', '_mut')
                            for c in ast.walk(val)):
                        raise Unrecognised('helper may update its argument `%s`' % q)
            res = sub.paths
            self.seen_through |= sub.seen_through
        except (Unrecognised, RecursionError):
            res = None
        self._summaries[name] = res
        return res

    def _through_helpers(self, v, st):
        call = self._helper_call(v)
        if call is None:
            return [(v, st)]
        name = call.func.id
        h = self.helpers[name]
        summary = self._summary(name)
        bound = None
        if summary is not None:
            from ..inline import _bind, _Refuse
            try:
                bound, _ = _bind(h, call, False)
            except _Refuse:
                bound = None
        if bound is not None:
            # free (module-level) names of the helper must not be captured by the caller's parameters
            free = {x.id for hp in summary for e in hp.exprs() for x in ast.walk(e) if isinstance(x, ast.Name)} - set(bound)
            if free & set(params(self.fn)):
                bound = None
        if bound is None:
            self._opaque.add(name)
            return self._through_helpers(v, st)
        self.seen_through.add(name)

        def inst(node):
            bnd = set()
            for x in ast.walk(node):
                if isinstance(x, ast.comprehension):
                    bnd.update(target_names(x.target))
            return _Sub(bound, bnd).visit(copy.deepcopy(node))
        out = []
        for hp in summary:
            s2 = st.fork()
            for k, (pol, node) in hp.conds.items():
                if k[0] == 'raises':
                    s2.conds[k] = (pol, node)
                    continue
                s2 = self.assume(s2, inst(node), pol)
                if s2 is None:
                    break
            if s2 is None:
                continue
            val = inst(hp.value)
            if hp.kind == 'raise':
                self.finish('raise', val, s2, hp.stmt)
                continue

            class R(ast.NodeTransformer):
                def visit_Call(self, n):
                    return val if n is call else self.generic_visit(n)
            v2 = val if v is call else R().visit(v)
            for v3, s3 in self._split(copy.deepcopy(v2), s2):
                out += self._through_helpers(v3, s3)
        return out

    def _split(self, v, st):
        first = None
        stack = [v]
        while stack:
            n = stack.pop(0)
            if isinstance(n, ast.IfExp):
                first = n
                break
            if isinstance(n, (ast.Lambda, ast.ListComp, ast.SetComp, ast.DictComp, ast.GeneratorExp)):
                continue
            stack = list(ast.iter_child_nodes(n)) + stack
        if first is None:
            return [(v, st)]
        out = []
        for pol, pick in ((True, first.body), (False, first.orelse)):
            s2 = self.assume(st, first.test, pol)
            if s2 is None:
                continue

            class R(ast.NodeTransformer):
                def visit_IfExp(self, n):
                    return pick if n is first else self.generic_visit(n)
            v2 = pick if v is first else R().visit(v)
            out += self._split(copy.deepcopy(v2), s2)
        return out

    # -- statements
    def finish(self, kind, value, st, stmt):
        if len(self.paths) >= self.limit:
            raise Unrecognised('more than %d paths' % self.limit)
        sp = SymPath(kind, norm(value, self.sigs), st.conds, st.env, stmt)
        sp.stale = frozenset(st.stale)
        self.paths.append(sp)

    def block(self, stmts, states):
        for s in stmts:
            nxt = []
            for st in states:
                nxt += self.stmt(s, st)
            states = nxt
            if len(states) > self.limit:
                raise Unrecognised('more than %d paths' % self.limit)
            if not states:
                break
        return states

    def _bind(self, target, value, st, stmt, root=None):
        if isinstance(target, ast.Name):
            st.env[target.id] = value
            st.rebind(target.id, root)
        elif isinstance(target, (ast.Tuple, ast.List)):
            if any(isinstance(e, ast.Starred) for e in target.elts):
                raise Unrecognised('starred assignment target')
            if isinstance(value, (ast.Tuple, ast.List)) and len(value.elts) == len(target.elts):
                for t, v in zip(target.elts, value.elts):
                    self._bind(t, v, st, stmt)
            else:
                for i, t in enumerate(target.elts):
                    self._bind(t, ast.copy_location(ast.Subscript(value=copy.deepcopy(value), slice=ast.Constant(value=i),
                                                                  ctx=ast.Load()), stmt), st, stmt)
        elif isinstance(target, (ast.Subscript, ast.Attribute)):
            base = base_name(target)
            if base is None:
                raise Unrecognised('store into %s' % u(target))
            tv = self.subst(target, st)
            for x in ast.walk(tv):
                if hasattr(x, 'ctx'):
                    x.ctx = ast.Load()
            direct = isinstance(target.value, ast.Name)
            st.mutated(base)
            f = ('_store' if isinstance(target, ast.Subscript) else '_setattr') if direct else '_mut'
            st.env[base] = ast.copy_location(ast.Call(func=ast.Name(id=f, ctx=ast.Load()), args=[tv, value], keywords=[]), stmt)
        else:
            raise Unrecognised('assignment target %s' % u(target))

    def _view_update(self, name, op, v, st, stmt):
        """`name op= v` where `name = root[idx]` is an ndarray view (basic
        multi-dimensional slicing) of the object `root` is still bound to:
        the update happens in place, i.e. it is `root[idx] op= v`."""
        root, idx = st.views[name]
        tv = ast.Subscript(value=self.subst(ast.Name(id=root, ctx=ast.Load()), st), slice=copy.deepcopy(idx), ctx=ast.Load())
        self.subst(ast.Name(id=name, ctx=ast.Load()), st)       # (raises if the view itself is out of date)
        ast.copy_location(tv, stmt)
        new = ast.copy_location(ast.BinOp(left=copy.deepcopy(tv), op=op, right=v), stmt)
        st.mutated(root)
        st.mutated(name)
        st.env[root] = ast.copy_location(ast.Call(func=ast.Name(id='_store', ctx=ast.Load()), args=[tv, new], keywords=[]), stmt)
        # the view sees the update
        st.env[name] = ast.copy_location(ast.Subscript(value=copy.deepcopy(st.env[root]), slice=copy.deepcopy(idx), ctx=ast.Load()), stmt)
        st.stale.discard(name)
        st.stale.discard(root)

    def stmt(self, s, st):
        if isinstance(s, (ast.Pass, ast.Import, ast.ImportFrom, ast.Global, ast.Nonlocal, ast.Assert)):
            return [st]
        if isinstance(s, (ast.FunctionDef, ast.AsyncFunctionDef, ast.ClassDef)):
            st = st.fork()
            st.env.pop(s.name, None)
            return [st]
        if isinstance(s, ast.Expr):
            v = s.value
            if isinstance(v, ast.Constant):
                return [st]
            if isinstance(v, ast.Call):
                cn = call_name(v) or ''
                if cn.split('.')[0] in _LOGGERS or cn in ('warnings.warn', 'warn', 'print'):
                    return [st]
                from ..normal import is_pure, MUTATING_METHODS
                if isinstance(v.func, ast.Attribute) and v.func.attr in MUTATING_METHODS and base_name(v.func.value):
                    st = st.fork()
                    b = base_name(v.func.value)
                    st.mutated(b)
                    st.env[b] = ast.copy_location(ast.Call(func=ast.Name(id='_mut', ctx=ast.Load()),
                                                           args=[self.subst(ast.Name(id=b, ctx=ast.Load()), st), self.subst(v, st)],
                                                           keywords=[]), s)
                    return [st]
                if is_pure(v):
                    return [st]
            raise Unrecognised('statement `%s`' % u(s)[:80])
        if isinstance(s, (ast.Assign, ast.AnnAssign)):
            if s.value is None:
                return [st]
            targets = s.targets if isinstance(s, ast.Assign) else [s.target]
            if any(k.arg == 'out' for c in ast.walk(s.value) if isinstance(c, ast.Call) for k in c.keywords):
                raise Unrecognised('out= argument')
            out = []
            for v, s2 in self.values(s.value, st):
                s2 = s2.fork()
                for t in targets:
                    for nm in (target_names(t) if isinstance(t, (ast.Name, ast.Tuple, ast.List)) else ()):
                        for k in [k for k, (r, _) in s2.views.items() if k == nm or r == nm]:
                            del s2.views[k]      # rebound (also by `x = x[...]`, which may be a copy)
                    self._bind(t, v, s2, s, _view_root(s.value))
                # v = x[:, 0]: remember that `v` is a view of the object `x` is bound to
                if len(targets) == 1 and isinstance(targets[0], ast.Name) and isinstance(s.value, ast.Subscript) and \
                        isinstance(s.value.value, ast.Name) and s.value.value.id != targets[0].id and \
                        isinstance(v, ast.Subscript) and _basic_view_index(s.value.slice):
                    s2.views[targets[0].id] = (s.value.value.id, v.slice)
                out.append(s2)
            return out
        if isinstance(s, ast.AugAssign):
            out = []
            for v, s2 in self.values(s.value, st):
                s2 = s2.fork()
                cur = self.subst(s.target, s2)
                for x in ast.walk(cur):
                    if hasattr(x, 'ctx'):
                        x.ctx = ast.Load()
                if isinstance(s.target, ast.Name) and s.target.id in s2.views:
                    self._view_update(s.target.id, s.op, v, s2, s)
                elif isinstance(s.target, ast.Name):
                    s2.mutated(s.target.id)          # in place for arrays
                    self._bind(s.target, ast.copy_location(ast.BinOp(left=cur, op=s.op, right=v), s), s2, s, s.target.id)
                else:
                    self._bind(s.target, ast.copy_location(ast.BinOp(left=cur, op=s.op, right=v), s), s2, s)
                out.append(s2)
            return out
        if isinstance(s, ast.Delete):
            st = st.fork()
            for t in s.targets:
                if isinstance(t, ast.Name):
                    st.env.pop(t.id, None)
                    for k in [k for k, (r, _) in st.views.items() if k == t.id or r == t.id]:
                        del st.views[k]
                else:
                    raise Unrecognised('del %s' % u(t))
            return [st]
        if isinstance(s, ast.Return):
            for v, s2 in self.values(s.value if s.value is not None else ast.Constant(value=None), st):
                self.finish('return', v, s2, s)
            return []
        if isinstance(s, ast.Raise):
            self.finish('raise', self.subst(s.exc, st) if s.exc is not None else ast.Constant(value=None), st, s)
            return []
        if isinstance(s, ast.If):
            outs = []
            n_before = len(self.paths)
            branches = []
            for test, s0 in self.values(s.test, st):
                for pol, body in ((True, s.body), (False, s.orelse)):
                    s2 = self.assume(s0, test, pol)
                    if s2 is None:
                        continue
                    branches.append(self.block(body, [s2]))
            outs = [x for b in branches for x in b]
            # both branches leave the same state behind (logging only): no fork
            if len(branches) == 2 and len(outs) == 2 and len(self.paths) == n_before and \
                    all(len(b) == 1 for b in branches) and outs[0].fingerprint() == outs[1].fingerprint():
                return [_State(outs[0].env, dict(st.conds), outs[0].alias, outs[0].stale, outs[0].views)]
            return outs
        if isinstance(s, ast.Try):
            if s.finalbody:
                raise Unrecognised('try/finally')
            if s.handlers and len(s.body) != 1:
                raise Unrecognised('try body with several statements')
            outs = self.block(s.body, [st])
            if s.orelse:
                outs = self.block(s.orelse, outs)
            for h in s.handlers:
                key = ('raises', u(h.type) if h.type is not None else 'BaseException', getattr(s, 'lineno', 0))
                s2 = st.fork()
                s2.conds[key] = (True, h.type if h.type is not None else s)
                if h.name:
                    s2.env.pop(h.name, None)
                outs += self.block(h.body, [s2])
            return outs
        raise Unrecognised('%s statement' % type(s).__name__)


def symexec(fn, sigs=None, helpers=None):
    """Feasible paths of a loop-free function (list of SymPath); raises
    Unrecognised if the function cannot be modelled.  `helpers`: private
    functions to see through (see SymExec, summarisable_helpers)."""
    return SymExec(fn, sigs, helpers=helpers).paths


def summarisable_helpers(ck, mod):
    """{name: FunctionDef}: module-level PRIVATE functions of `mod` that the
    reference snapshot does not have (the products of "extract a private
    helper"; the same set sa/inline.py works on) and that, by the package-wide
    effects analysis, do not store into any of their parameters.  Functions
    that exist in the reference keep their role as anchors of the rules."""
    import os
    cache = ck.repo.__dict__.setdefault('_msm_helpers', {})
    if mod.rel in cache:
        return cache[mod.rel]
    out = {}
    try:
        from .. import inline, rename
        ref_path = os.path.join(rename.REFERENCE, mod.rel)
        if mod.kind == 'py' and os.path.exists(ref_path):
            with open(ref_path, encoding='utf-8') as f:
                rsrc = f.read()
            if rsrc != mod.src:
                hf, _ = inline.new_private_helpers(mod.tree, ast.parse(rsrc))
                if hf:
                    from ..patterns import shared
                    _, ea = shared(ck.repo)
                    for name, h in hf.items():
                        if isinstance(h, ast.FunctionDef) and not ea.mutated_params(mod.rel, name):
                            out[name] = h
    except Exception:
        out = {}
    cache[mod.rel] = out
    return out


def sparsity_cond(path, operand_texts):
    """Polarity of the `issparse/isspmatrix(<operand>)` condition on the path
    (None if the path does not test it)."""
    for k, (pol, node) in path.conds.items():
        if k[0] == 'expr' and isinstance(node, ast.Call) and (call_name(node) or '').split('.')[-1] in ('issparse', 'isspmatrix') \
                and len(node.args) == 1 and u(node.args[0]) in operand_texts:
            return pol
    return None


class Once:
    """Checker front that records each (rule, construct, outcome) once: the
    path-wise rules meet the same construct on many paths."""

    def __init__(self, ck, mod, fn, fname):
        self.ck, self.mod, self.fn, self.fname, self.seen = ck, mod, fn, fname, set()

    def _where(self, node, fallback=None):
        st = src_stmt(self.fn, node) if node is not None else None
        anchor = line_of(node) if node is not None else None
        text = u(st) if st is not None and not isinstance(st, (ast.If, ast.Try)) else (
            u(node) if node is not None else (fallback or self.fname))
        return (st or anchor or self.fn), norm_ws(text)[:200]

    def check(self, cond, rule, node, ok_text, bad_text, construct=None):
        at, text = self._where(node)
        text = construct or text
        k = (rule, text, bool(cond))
        if k in self.seen:
            return bool(cond)
        self.seen.add(k)
        self.ck.check(cond, rule, self.mod, at, self.fname, text, ok_text, bad_text)
        return bool(cond)

    def decide(self, verdict, rule, node, ok_text, bad_text, construct=None):
        at, text = self._where(node)
        text = construct or text
        k = (rule, text, verdict[0])
        if k in self.seen:
            return verdict[0] == 'match'
        self.seen.add(k)
        return self.ck.decide(verdict, rule, self.mod, at, self.fname, text, ok_text, bad_text)

    def missing(self, rule, what):
        k = (rule, what, 'missing')
        if k not in self.seen:
            self.seen.add(k)
            self.ck.missing(rule, what)


def norm_ws(s):
    return ' '.join(s.split())


def paths_or_missing(ck, rule, mod, fn, fname):
    try:
        ex = SymExec(fn, _sigs(ck), helpers=summarisable_helpers(ck, mod))
        ps = ex.paths
        if ex.seen_through:
            # evidence: which extracted helpers the path analysis looked through
            for h in sorted(ex.seen_through):
                ck.analysed(mod, h)
            rec = getattr(ck.repo, 'inlined', None)
            if isinstance(rec, dict):
                cur = rec.setdefault(mod.rel, {}).setdefault(fname, [])
                for h in sorted(ex.seen_through):
                    if h + ' (path summary)' not in cur:
                        cur.append(h + ' (path summary)')
    except Unrecognised as e:
        ck.missing(rule, '%s is not a loop-free function the path analysis can model: %s' % (fname, e))
        return None
    except RecursionError:
        ck.missing(rule, '%s: expression too deep for the path analysis' % fname)
        return None
    return ps


_CONVERSIONS = ('tocsr', 'tocsc', 'tocoo', 'toarray', 'asfptype', 'tolil')


_FLOAT = ('float', 'np.float64', 'np.float_', 'np.double', "'float'", "'float64'", "'d'")


def strip_conversions(m):
    """The matrix under value-preserving container conversions."""
    while True:
        if isinstance(m, ast.Call) and isinstance(m.func, ast.Attribute) and m.func.attr in _CONVERSIONS and not m.args and not m.keywords:
            m = m.func.value
        elif isinstance(m, ast.Call) and call_name(m) in ('np.asarray', 'np.array', 'np.asanyarray', 'np.ascontiguousarray') and \
                len(m.args) <= 1 and all(k.arg in ('a', 'object') or (k.arg == 'dtype' and u(k.value) in _FLOAT) or
                                         (k.arg == 'copy' and isinstance(k.value, ast.Constant)) for k in m.keywords) and \
                len(m.args) + sum(1 for k in m.keywords if k.arg in ('a', 'object')) == 1:
            m = (m.args + [k.value for k in m.keywords if k.arg in ('a', 'object')])[0]
        elif isinstance(m, ast.Call) and isinstance(m.func, ast.Attribute) and m.func.attr == 'copy' and not m.args:
            m = m.func.value
        elif isinstance(m, ast.Call) and isinstance(m.func, ast.Attribute) and m.func.attr == 'astype' and \
                len(m.args) + len(m.keywords) == 1 and u((m.args + [k.value for k in m.keywords])[0]) in _FLOAT:
            m = m.func.value
        else:
            return m


def _distinct(nodes):
    out = {}
    for n in nodes:
        out.setdefault(u(n), n)
    return list(out.values())


# ---------------------------------------------------------------------------
# Propositional + linear reasoning over the conditions of one symbolic path
# (finite abstract domain: truth assignments of the atomic conditions).

def _matrix_dim(e, T):
    """`e` is the number of states of the (square) matrix parameter T:
    <T up to transposition / container conversion>.shape[0|1] or len(...)."""
    if isinstance(e, ast.Subscript) and isinstance(e.value, ast.Attribute) and e.value.attr == 'shape' and \
            const_value(e.slice) in (0, 1, -1, -2):
        m = e.value.value
    elif isinstance(e, ast.Call) and call_name(e) == 'len' and len(e.args) == 1:
        m = e.args[0]
    else:
        return False
    while True:
        m2 = strip_conversions(m)
        if isinstance(m2, ast.Attribute) and m2.attr == 'T':
            m2 = m2.value
        if m2 is m:
            break
        m = m2
    return isinstance(m, ast.Name) and m.id == T


def linear(e, T):
    """{symbol: integer coefficient} (+ key 1 for the constant) of an integer
    expression that is linear in names and in the matrix dimension 'N'; None
    if it is anything else."""
    if isinstance(e, ast.Constant) and isinstance(e.value, int) and not isinstance(e.value, bool):
        return {1: e.value}
    if _matrix_dim(e, T):
        return {'N': 1}
    if isinstance(e, ast.Name):
        return {e.id: 1}
    if isinstance(e, ast.UnaryOp) and isinstance(e.op, (ast.USub, ast.UAdd)):
        a = linear(e.operand, T)
        if a is None:
            return None
        return {k: -v for k, v in a.items()} if isinstance(e.op, ast.USub) else a
    if isinstance(e, ast.BinOp) and isinstance(e.op, (ast.Add, ast.Sub)):
        a, b = linear(e.left, T), linear(e.right, T)
        if a is None or b is None:
            return None
        out = dict(a)
        for k, v in b.items():
            out[k] = out.get(k, 0) + (v if isinstance(e.op, ast.Add) else -v)
        return {k: v for k, v in out.items() if v != 0 or k == 1}
    return None


def _lin_sub(a, b):
    out = dict(a)
    for k, v in b.items():
        out[k] = out.get(k, 0) - v
    return {k: v for k, v in out.items() if v != 0}


def _never_sparse(e):
    """issparse(e) is False by construction: e is the result of a densifying conversion."""
    return isinstance(e, ast.Call) and ((isinstance(e.func, ast.Attribute) and e.func.attr in ('toarray', 'todense')) or
                                        call_name(e) in ('np.asarray', 'np.array', 'np.zeros', 'np.ones', 'np.empty'))


class PathLogic:
    """The conditions of a SymPath as boolean formulas over atoms.  An ordering
    comparison that is linear (see `linear`) is the atom `g <= 0` for an integer
    linear form g; everything else is an opaque atom named by its text."""

    def __init__(self, path, T):
        self.T = T
        self.atoms = []         # opaque keys and ('lin', frozenset(g.items()))
        self.formulas = [(node, pol) for k, (pol, node) in path.conds.items() if k[0] != 'raises']
        for node, _ in self.formulas:
            self._collect(node)

    def _leaf(self, n):
        """('const', bool) / ('atom', key, negate)."""
        if isinstance(n, ast.Compare) and len(n.ops) == 1 and isinstance(n.ops[0], (ast.Lt, ast.LtE, ast.Gt, ast.GtE)):
            a, b = linear(n.left, self.T), linear(n.comparators[0], self.T)
            if a is not None and b is not None:
                op = n.ops[0]
                if isinstance(op, (ast.Gt, ast.GtE)):
                    a, b = b, a
                g = _lin_sub(a, b)                  # a < b  <=>  a - b + 1 <= 0 ;  a <= b  <=>  a - b <= 0
                if isinstance(op, (ast.Lt, ast.Gt)):
                    g[1] = g.get(1, 0) + 1
                g = {k: v for k, v in g.items() if v != 0}
                if set(g) <= {1}:
                    return ('const', g.get(1, 0) <= 0)
                return ('atom', ('lin', frozenset(g.items())), False)
        if isinstance(n, ast.Call) and (call_name(n) or '').split('.')[-1] in ('issparse', 'isspmatrix') and len(n.args) == 1:
            if _never_sparse(n.args[0]):
                return ('const', False)
            return ('atom', 'issparse(%s)' % u(n.args[0]), False)
        if isinstance(n, ast.Constant):
            return ('const', bool(n.value))
        return ('atom', u(n), False)

    def _collect(self, n):
        if isinstance(n, ast.BoolOp):
            for v in n.values:
                self._collect(v)
        elif isinstance(n, ast.UnaryOp) and isinstance(n.op, ast.Not):
            self._collect(n.operand)
        else:
            lf = self._leaf(n)
            if lf[0] == 'atom' and lf[1] not in self.atoms:
                self.atoms.append(lf[1])

    def _eval(self, n, env):
        if isinstance(n, ast.BoolOp):
            vs = [self._eval(v, env) for v in n.values]
            return all(vs) if isinstance(n.op, ast.And) else any(vs)
        if isinstance(n, ast.UnaryOp) and isinstance(n.op, ast.Not):
            return not self._eval(n.operand, env)
        lf = self._leaf(n)
        return lf[1] if lf[0] == 'const' else env[lf[1]]

    def models(self, limit=12):
        """Truth assignments of the atoms under which every condition of the
        path has its recorded polarity (None: too many atoms)."""
        import itertools
        if len(self.atoms) > limit:
            return None
        out = []
        for vals in itertools.product((True, False), repeat=len(self.atoms)):
            env = dict(zip(self.atoms, vals))
            if all(self._eval(node, env) == pol for node, pol in self.formulas):
                out.append(env)
        return out

    @staticmethod
    def entails(env, goal):
        """Some single linear atom of the assignment implies `goal <= 0`
        (goal: linear form).  g <= 0 implies goal <= 0 when goal - g is a
        constant <= 0; not (g <= 0), i.e. 1 - g <= 0, likewise."""
        for k, truth in env.items():
            if not (isinstance(k, tuple) and k[0] == 'lin'):
                continue
            g = dict(k[1])
            if not truth:
                g = {kk: -v for kk, v in g.items()}
                g[1] = g.get(1, 0) + 1
            d = _lin_sub(goal, g)
            if set(d) <= {1} and d.get(1, 0) <= 0:
                return True
        return False


def _arpack_k(o, rule, p, E, k, T):
    construct = 'number of eigenpairs requested from the sparse solver vs. matrix size'
    kl = linear(k, T)
    if kl is None:
        o.missing(rule, 'k handed to eigs is not a linear integer expression: %s' % u(k)[:80])
        return
    goal = _lin_sub(kl, {'N': 1, 1: -2})         # k - N + 2 <= 0
    logic = PathLogic(p, T)
    ms = logic.models()
    if ms is None:
        o.missing(rule, 'too many atomic conditions on the path into eigs (%d)' % len(logic.atoms))
        return
    if not ms:
        return                                      # infeasible path (e.g. N - 1 <= N assumed false)
    conds = ' and '.join(('' if pol else 'not ') + '(%s)' % u(node)[:70] for node, pol in logic.formulas)
    if set(goal) <= {1}:
        ok = goal.get(1, 0) <= 0
        o.check(ok, rule, E, 'k = %s is below N - 1 by construction' % u(k),
                'on the path [%s] the sparse solver is asked for k = %s eigenpairs of an N x N matrix: ARPACK only '
                'delivers k < N - 1 (scipy.sparse.linalg.eigs raises TypeError "Cannot use scipy.linalg.eig for sparse A '
                'with k >= N - 1"), so the default n_eigs=None ("all are computed") fails for every sparse matrix that is '
                'not densified first; use the dense solver when k >= N - 1' % (conds[:300], u(k)), construct=construct)
        return
    bad = [m for m in ms if not PathLogic.entails(m, goal)]
    o.check(not bad, rule, E, 'every path into eigs implies k < N - 1',
            'on the path [%s] nothing bounds k = %s below N - 1 (N = number of states): ARPACK only delivers k < N - 1 '
            'eigenpairs and scipy.sparse.linalg.eigs raises TypeError for k >= N - 1 on a sparse matrix; a request for '
            '(nearly) all eigenpairs must take the dense solver' % (conds[:300], u(k)), construct=construct)


_NOCONV = ('ArpackNoConvergence', 'ArpackError', 'RuntimeError', 'Exception', 'BaseException')
_ITERATIVE = ('eigs', 'eigsh')
_DIRECT = ('eig', 'eigh', 'eigvals', 'eigvalsh')


def _no_convergence(ck, rule, mod, fn, F):
    """normalize-sparse-arpack-noconv.  scipy.sparse.linalg.eigs is an ITERATIVE
    solver whose documented outcome for admissible input includes `raise
    ArpackNoConvergence` (no bound on the iteration count guarantees
    convergence; eigenvalues clustered at 1 - slowly mixing, non-reversible
    chains - defeat the Arnoldi iteration, and tol below machine precision
    makes the stopping test unreachable).  A routine that must return the
    spectrum / stationary vector for EVERY ergodic matrix can therefore use it
    only inside a try whose handler for that exception computes the result with
    a direct solver (and does not re-raise).  Decided from the shape: the
    enclosing try statements of each iterative-solver call and their handlers."""
    n = 0
    # the solver call may sit in an extracted private helper (seen through by the path analysis as well)
    scopes, todo, helpers = [], [fn], summarisable_helpers(ck, mod)
    while todo:
        g = todo.pop(0)
        if any(g is x for x in scopes):
            continue
        scopes.append(g)
        for c in walk_local(g):
            if isinstance(c, ast.Call) and isinstance(c.func, ast.Name) and c.func.id in helpers:
                todo.append(helpers[c.func.id])
    for g, c in [(g, c) for g in scopes for c in walk_local(g)
                 if isinstance(c, ast.Call) and (call_name(c) or '').split('.')[-1] in _ITERATIVE]:
        n += 1
        construct = 'non-convergence of the iterative eigensolver %s' % (call_name(c) or '').split('.')[-1]

        def enclosing(c, g, depth=0):
            """Innermost handler for non-convergence around `c` in `g`; if there is none and `g` is an extracted
            helper, the handler that encloses EVERY call of the helper."""
            handler = None
            node, par = c, mod.parent.get(c)
            while par is not None and par is not g:
                if isinstance(par, ast.Try) and any(node is b or any(node is x for x in ast.walk(b)) for b in par.body):
                    for h in par.handlers:
                        names = [h.type] if h.type is not None and not isinstance(h.type, ast.Tuple) else (list(h.type.elts) if h.type is not None else [])
                        if h.type is None or any(u(t).split('.')[-1] in _NOCONV for t in names):
                            handler = handler or h
                node, par = par, mod.parent.get(par)
            if handler is None and g is not fn and depth < 3:
                sites = [(g2, c2) for g2 in scopes for c2 in walk_local(g2)
                         if isinstance(c2, ast.Call) and isinstance(c2.func, ast.Name) and c2.func.id == g.name]
                hs = [enclosing(c2, g2, depth + 1) for g2, c2 in sites]
                if hs and all(h is not None for h in hs):
                    handler = hs[0]
            return handler
        handler = enclosing(c, g)
        if handler is None:
            ck.bad(rule, mod, c, F, construct,
                   '`%s` is not inside a try that handles ArpackNoConvergence: the Arnoldi iteration is not guaranteed to '
                   'converge (e.g. a 1000-state lazy biased random walk on a ring - strongly connected, aperiodic, stationary '
                   'law uniform - makes eigs(T.T, 3, which="LR") give up after maxiter restarts), so for sparse input with '
                   '>= 1000 states the builders / eq_probs / eigenspectrum raise instead of returning the stationary vector that '
                   'the dense route computes exactly; fall back to the dense solver in the handler' % u(c)[:70])
            continue
        reraises = any(isinstance(b, ast.Raise) for b in handler.body)
        direct = [x for b in handler.body for x in ast.walk(b) if isinstance(x, ast.Call) and (call_name(x) or '').split('.')[-1] in _DIRECT + _ITERATIVE]
        if reraises and not direct:
            ck.bad(rule, mod, handler, F, construct,
                   'the handler for %s around `%s` only logs and re-raises: non-convergence of the iterative solver still aborts '
                   'the computation although a direct solver would succeed' % (u(handler.type) if handler.type is not None else 'all exceptions', u(c)[:60]))
        elif direct:
            ck.ok(rule, mod, handler, construct, 'on non-convergence the result is computed by %s' % (call_name(direct[0]) or '?'))
        else:
            ck.missing(rule, 'what the handler of %s around %s does' % (u(handler.type) if handler.type is not None else 'all exceptions', u(c)[:60]))
    return n


def check_spectrum(ck, prefix, arpack_k=False):
    """eigenspectrum / eq_probs: ordering, column permutation, normalisation
    (arpack_k: also the k < N - 1 bound of the sparse solver, see _arpack_k).

    Decided on the symbolic value of every return path of eigenspectrum (see
    SymExec): with E the eigensolver call of the path, the function must return
        ( real(E[0][o][:n]),  real(N(E[1][:, o])[:, :n]) )
    where o sorts E[0] by descending real part, N divides column 0 by its own
    sum, n is the requested number of eigenpairs and E decomposes T.T when
    `left` holds on the path and T otherwise."""
    rule = prefix + '.spectrum'
    sigs = _sigs(ck)
    mod = ck.repo.mod(TM)
    fn = mod.func('eigenspectrum')
    ck.analysed(mod, fn)
    F = 'eigenspectrum'
    ps = params(fn)
    T, NE, LEFT = ps[0], ps[1], ps[2]
    paths = paths_or_missing(ck, rule, mod, fn, F)
    o = Once(ck, mod, fn, F)
    n_sparse = n_dense = 0
    for p in (paths or []):
        if p.kind != 'return':
            continue
        v = p.value
        if not (isinstance(v, ast.Tuple) and len(v.elts) == 2):
            o.missing(rule + '.truncate', 'eigenspectrum does not return a pair (values, vectors): %s' % u(v)[:120])
            continue
        solvers = _distinct(c for c in ast.walk(v) if isinstance(c, ast.Call) and
                            (call_name(c) or '').split('.')[-1] in ('eig', 'eigs', 'eigh', 'eigsh', 'eigvals'))
        if len(solvers) != 1:
            o.missing(rule + '.dense', 'exactly one eigensolver call feeding the result (found %d)' % len(solvers))
            continue
        E = solvers[0]
        kind = (call_name(E) or '').split('.')[-1]
        if kind not in ('eig', 'eigs'):
            o.check(False, rule + '.dense', E, '', 'the spectrum of a (non-symmetric) transition matrix must come from '
                    'scipy.linalg.eig / scipy.sparse.linalg.eigs; %s is a different decomposition' % call_name(E))
            continue
        M = (E.args + [k.value for k in E.keywords if k.arg in ('A', 'a')])[:1]
        if not M:
            o.missing(rule + '.dense', 'matrix argument of the eigensolver call %s' % u(E)[:100])
            continue
        M = strip_conversions(M[0])
        # --- left eigenvectors = right eigenvectors of the transpose
        pol = p.cond(('expr', LEFT))
        if pol is None:
            o.missing(rule + '.left', 'the path does not branch on `%s`; cannot tell which matrix must be decomposed (%s)' % (LEFT, u(M)[:80]))
        else:
            want = ['%s.T' % T] if pol else [T]
            o.decide(sclassify(M, want, {T}, sigs), rule + '.left', M,
                     'left eigenvectors = right eigenvectors of the transpose',
                     'left=True must decompose T.T (and left=False T itself); on the path with %s=%s the solver gets %s'
                     % (LEFT, pol, u(M)[:80]), construct='%s=%s: %s' % (LEFT, pol, u(M)[:120]))
        # --- solver options
        N = norm(p.env.get(NE, ast.Name(id=NE, ctx=ast.Load())), sigs)
        if kind == 'eigs':
            n_sparse += 1
            w = kwarg(E, 'which')
            o.check(w is not None and const_value(w) == 'LR', rule + '.which', E,
                    "ARPACK asked for the eigenvalues of largest real part (which='LR')",
                    "the truncated sparse spectrum must request which='LR' (largest real part), consistent "
                    "with the descending-real-part order; 'LM' returns a negative eigenvalue of larger "
                    'magnitude instead of a slow positive one', construct='eigs(which=%s)' % (u(w) if w is not None else 'default'))
            k = E.args[1] if len(E.args) > 1 else kwarg(E, 'k')
            o.check(k is not None and u(k) == u(N), rule + '.which', E, 'k = n_eigs', 'eigs must be asked for n_eigs eigenvalues',
                    construct='eigs(k=%s) with n_eigs=%s' % (u(k) if k is not None else 'default', u(N)))
            # --- added after the bug hunt (eigenspectrum-sparse-all-eigs): ARPACK delivers only
            # k < N - 1 eigenpairs (scipy raises TypeError for k >= N - 1 on a sparse operator), so
            # the conditions of every path into the sparse solver must bound k by N - 2
            if k is not None and arpack_k:
                _arpack_k(o, rule + '.arpack-k', p, E, k, T)
        else:
            n_dense += 1
            plain = len(E.args) + len(E.keywords) == 1
            o.check(plain, rule + '.dense', E, 'dense solver on the (transposed) matrix',
                    'dense branch must call scipy.linalg.eig(T) (right eigenvectors only)', construct=u(E.func) + '(...)' + (
                        '' if plain else ' with extra arguments'))
        # --- shape of the result
        a = abbreviate(v, {u(E): 'EIG__', u(N): 'NEIGS__'}, sigs)
        a = abbreviate(a, {'EIG__[0]': 'VALS0__', 'EIG__[1]': 'VECS0__'}, sigs)
        scope = {'VALS0__', 'VECS0__', 'NEIGS__'}
        vo, wo = a.elts
        bv = smatch(['_V[:NEIGS__].real', '_V.real[:NEIGS__]'], vo, sigs)
        bw = smatch(['_W[:, :NEIGS__].real', '_W.real[:, :NEIGS__]'], wo, sigs)
        if bv is None or bw is None:
            bad_elt = vo if bv is None else wo
            pats = ['_V[:NEIGS__].real'] if bv is None else ['_W[:, :NEIGS__].real']
            o.decide(sclassify(bad_elt, pats, scope, sigs), rule + '.truncate', v.elts[0] if bv is None else v.elts[1],
                     '', 'must return (real(vals[:n_eigs]), real(vecs[:, :n_eigs]))')
            continue
        o.check(True, rule + '.truncate', p.stmt, 'first n_eigs real eigenvalues and the matching first n_eigs columns', '',
                construct='(vals[:n].real, vecs[:, :n].real)')
        V, W = bv['_V'], bw['_W']
        bo = smatch('VALS0__[_O]', V, sigs)
        bn = smatch('_store(_B[:, 0], _Q)', W, sigs)
        if bn is None:
            # not normalised by an item store: which other function of the eigenvectors is it?
            o.decide(sclassify(W, ['_store(VECS0__[:, _O][:, 0], VECS0__[:, _O][:, 0] / VECS0__[:, _O][:, 0].sum())'], scope, sigs),
                     rule + '.normalise', W, '', 'column 0 must be divided by its own sum AFTER the columns were sorted')
            continue
        B, Q = bn['_B'], bn['_Q']
        bb = smatch('VECS0__[:, _O2]', B, sigs)
        if bo is None or bb is None:
            which = V if bo is None else B
            o.decide(sclassify(which, ['VALS0__[_O]'] if bo is None else ['VECS0__[:, _O]'], scope, sigs), rule + '.permute', which, '',
                     'the permutation must be applied to vals AND to the COLUMNS of vecs (vecs[:, order]); permuting rows or '
                     'only one of them pairs eigenvalues with the wrong vectors (and the normalisation must follow the sorting)')
            continue
        O, O2 = bo['_O'], bb['_O2']
        o.check(u(O) == u(O2), rule + '.permute', O2, 'one permutation reorders eigenvalues and eigenvector columns together',
                'vals and vecs are permuted with different orders: %s vs %s' % (u(O)[:80], u(O2)[:80]))
        o.decide(sclassify(O, ['(-VALS0__.real).argsort()', 'VALS0__.real.argsort()[::-1]', '(-1 * VALS0__.real).argsort()',
                               '(VALS0__.real * -1).argsort()', '(-VALS0__).real.argsort()', '(-1.0 * VALS0__.real).argsort()',
                               'np.flip(VALS0__.real.argsort())', 'np.lexsort((-VALS0__.real,))'], {'VALS0__'}, sigs),
                 rule + '.order', O, 'eigenpairs sorted by descending real part',
                 'eigenvalues must be ordered by DESCENDING REAL PART (np.argsort(-np.real(vals))): sorting '
                 'by magnitude/ascending puts -1 (periodic chains) or the smallest eigenvalue first, so '
                 'column 0 is no longer the stationary vector')
        bt = {'_B': B}
        o.decide(sclassify(Q, ['_B[:, 0] / _B[:, 0].sum()', '_B[:, 0] / _B.sum(axis=0)[0]', '_B[:, 0] * (1 / _B[:, 0].sum())',
                               '_B[:, 0] * (1.0 / _B[:, 0].sum())'], scope, sigs, binds=bt),
                 rule + '.normalise', Q, 'leading eigenvector normalised to sum one after sorting',
                 'column 0 must be divided by its own sum AFTER the columns were sorted')
    if paths is not None:
        ck.floor(rule + '.which', n_sparse, 1, 'sparse eigensolver call')
        ck.floor(rule + '.dense', n_dense, 1, 'dense eigensolver call')
    # added after the bug hunt (normalize-sparse-arpack-noconv)
    _no_convergence(ck, rule + '.no-convergence', mod, fn, F)
    # --- eq_probs
    fe = mod.func('eq_probs')
    ck.analysed(mod, fe)
    F = 'eq_probs'
    Te = params(fe)[0]
    o = Once(ck, mod, fe, F)
    paths = paths_or_missing(ck, rule + '.eq-probs', mod, fe, F)
    from ..core import param_default
    n = 0
    for p in (paths or []):
        if p.kind != 'return':
            continue
        n += 1
        es = _distinct(c for c in ast.walk(p.value) if isinstance(c, ast.Call) and (call_name(c) or '').split('.')[-1] == 'eigenspectrum')
        if len(es) != 1:
            o.missing(rule + '.eq-probs', 'one eigenspectrum(...) call feeding the result of eq_probs (found %d)' % len(es))
            continue
        c = es[0]
        eps = params(fn)
        a0 = c.args[0] if c.args else kwarg(c, eps[0])
        lf = c.args[2] if len(c.args) > 2 else kwarg(c, LEFT)
        if lf is None:
            lf = param_default(fn, LEFT)
        ok = a0 is not None and u(a0) == Te and lf is not None and const_value(lf) is True
        o.check(ok, rule + '.eq-probs', c, 'stationary vector from the LEFT eigenvectors', 'eq_probs must request left eigenvectors of T',
                construct='eigenspectrum(%s, left=%s)' % (u(a0) if a0 is not None else '?', u(lf) if lf is not None else '?'))
        a = abbreviate(p.value, {u(c): 'ES__'}, sigs)
        o.decide(sclassify(a, ['ES__[1][:, 0]', 'ES__[1][:, 0].real', 'ES__[1].T[0]', 'ES__[1][:, 0].flatten()', 'ES__[1][:, 0].copy()'],
                           {'ES__'}, sigs), rule + '.eq-probs', p.value, 'returns the leading (column 0) eigenvector',
                 'eq_probs must return column 0 of the eigenvector matrix', construct='return %s' % u(a)[:120])
    if paths is not None:
        ck.floor(rule + '.eq-probs', n, 1, 'return path of eq_probs')


# ---------------------------------------------------------------------------
# C19 (added after the bug hunt, eigs-random-start): iterative solvers that
# draw their start vector at random unless the caller supplies one.

# callee (last component) -> (position of v0, keyword)
_RANDOM_START = {'eigs': (5, 'v0'), 'eigsh': (5, 'v0'), 'svds': (5, 'v0')}
_UNSEEDED_RNG = ('rand', 'randn', 'random', 'random_sample', 'uniform', 'normal', 'standard_normal', 'randint',
                 'choice', 'permutation', 'shuffle', 'sample', 'ranf')
_RNG_FACTORIES = ('RandomState', 'default_rng', 'Generator', 'SeedSequence', 'PCG64', 'MT19937')


def _nondeterministic_source(e):
    """A call in `e` that reads the global numpy / stdlib RNG or builds a
    generator without a seed (entropy from the OS)."""
    for n in ast.walk(e):
        if not isinstance(n, ast.Call):
            continue
        cn = call_name(n) or ''
        parts = cn.split('.')
        if len(parts) >= 2 and parts[-2] == 'random' and parts[-1] in _UNSEEDED_RNG:
            return n                    # np.random.rand(...), random.random()
        if parts[-1] in _RNG_FACTORIES and (not (n.args or n.keywords) or
                                           (n.args and isinstance(n.args[0], ast.Constant) and n.args[0].value is None)):
            return n                    # np.random.RandomState() / default_rng(None)
    return None


def check_random_start(ck, rule, mods):
    """Every call of scipy.sparse.linalg.eigs / eigsh / svds in `mods` passes a
    start vector v0 that is a deterministic function of the arguments.  Without
    v0 ARPACK starts from a random residual (scipy >= 1.15: a fresh
    np.random.default_rng(None), i.e. OS entropy; older scipy: ARPACK's own
    generator whose state survives between calls), so the returned Ritz vectors
    (their signs) and the last bits of the Ritz values differ between identical
    calls - the routine is not a function of its arguments.  Returns the number
    of solver calls examined."""
    from ..patterns import finfo
    n = 0
    for mod in mods:
        if mod.kind != 'py':
            continue
        for q, fn in mod.functions.items():
            calls = [c for c in walk_local(fn) if isinstance(c, ast.Call) and
                     (call_name(c) or '').split('.')[-1] in _RANDOM_START and
                     ('linalg' in (call_name(c) or '') or '.' not in (call_name(c) or ''))]
            if not calls:
                continue
            fi = finfo(mod, fn)
            for c in calls:
                last = (call_name(c) or '').split('.')[-1]
                pos, kw = _RANDOM_START[last]
                if any(isinstance(a, ast.Starred) for a in c.args) or any(k.arg is None for k in c.keywords):
                    ck.missing(rule, 'arguments of %s in %s::%s are passed by unpacking' % (call_name(c), mod.rel, q))
                    continue
                n += 1
                v0 = c.args[pos] if len(c.args) > pos else kwarg(c, kw)
                construct = 'start vector of the iterative eigensolver %s' % last
                if v0 is None or (isinstance(v0, ast.Constant) and v0.value is None):
                    ck.bad(rule, mod, c, q, construct,
                           '%s is called without v0: ARPACK then starts from a RANDOM residual vector (drawn from OS entropy '
                           'or from generator state left by earlier calls), so two identical calls of %s return eigenvectors '
                           'of different sign and eigenvalues / stationary vectors that differ in the last bits; the caller '
                           'has no seed to control it. Pass a start vector computed from the arguments alone, e.g. '
                           'v0=np.random.RandomState(0).uniform(-1, 1, n)' % (call_name(c), q))
                    continue
                src = _nondeterministic_source(fi.expand(v0))
                ck.check(src is None, rule, mod, c, q, construct,
                         'v0=%s: the start vector is computed from the arguments (and constants) only' % u(v0)[:60],
                         'the start vector %s is itself drawn from an unseeded generator (%s)' % (u(v0)[:60], u(src)[:60] if src is not None else ''))
    return n
